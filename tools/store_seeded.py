#!/usr/bin/env python3
"""Store a confirmed seeded change under /verif/seeded/<name>/ (patch.diff, demo.patch, meta.json).
usage: store_seeded.py <src dir> <name> <property> <needs> <ran> <detected_by> [<note>]"""
import json, os, shutil, sys
src, name, prop, needs, ran, detected = sys.argv[1:7]
note = sys.argv[7] if len(sys.argv) > 7 else ""
d = f"/verif/seeded/{name}"
os.makedirs(d, exist_ok=True)
shutil.copy(f"{src}/{name}.patch", f"{d}/patch.diff")
shutil.copy(f"{src}/{name}_demo.patch", f"{d}/demo.patch")
rep = ""
rp = f"{src}/{name.split('_')[0]}_report{'2' if name[-1] in 'CD' else '3' if name[-1] in 'EF' else ''}.md"
if os.path.exists(rp):
    rep = open(rp).read()
meta = {
    "name": name,
    "property": prop,
    "origin": "independent sub-agent that saw only the property text and a scratch worktree of /repo (nothing from /verif)",
    "needs_to_manifest": needs,
    "confirmed": "tools/confirm_seeded.sh in a scratch worktree: existing suite 82/82 (72 lib + 3 cli + 7 doc) passes with the change; demo.patch's test fails with the change and passes without it",
    "what_was_run": ran,
    "detected_by": detected,
    "note": note,
    "agent_report": rep,
}
json.dump(meta, open(f"{d}/meta.json", "w"), indent=1)
print("stored", d)
