#!/bin/bash
# usage: tools/regress_seeded.sh [name...]   (default: every stored seeded change)
# Re-runs every stored seeded change against the quick check of its own property on /repo (applied and restored by
# tools/run_mutant.sh) and prints one line per change. Nothing else may use /repo while this runs.
cd /verif || exit 2
names=("$@")
if [ ${#names[@]} -eq 0 ]; then names=($(ls seeded)); fi
for n in "${names[@]}"; do
  prop=$(python3 -c "import json;print(json.load(open('seeded/$n/meta.json'))['property'])")
  out=$(timeout ${REGRESS_TIMEOUT:-1500} tools/run_mutant.sh /verif/seeded/$n/patch.diff quick $prop 2>&1)
  line=$(echo "$out" | grep -E "^MUTANT|^PATCH|^REFUSING" | head -1)
  if [ -z "$line" ]; then line="TIMEOUT-OR-NO-VERDICT"; git -C /repo checkout -q -- . ; fi
  echo "REGRESS $n $line"
done
