#!/usr/bin/env python3
"""Print a markdown table of /verif/seeded/*/meta.json (used for DESIGN.md §8)."""
import json, glob, os
rows = []
for p in sorted(glob.glob('/verif/seeded/*/meta.json')):
    m = json.load(open(p))
    note = m.get('note', '')
    first_missed = 'MISSED' in m['detected_by'] or 'missed in the first round' in note
    det = m['detected_by'] + (f" — {note}" if note else '')
    rows.append((m['name'], m['property'], m['needs_to_manifest'], det, first_missed))
print('| seeded change | property | needs, to manifest | detection (quick tier, seed 1) |')
print('|---|---|---|---|')
for n, p, needs, det, fm in rows:
    print(f"| `{n}` | {p} | {needs} | {det} |")
print()
print(f"{len(rows)} seeded changes; {sum(1 for r in rows if r[4])} of them were missed by the check of their own property when first run against it and are caught after the strengthening described in the row.")
