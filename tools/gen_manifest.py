#!/usr/bin/env python3
"""Generate /verif/MANIFEST.json from the per-property metadata below (single source of truth for
level texts); properties without an entry are listed under not_applicable as 'not built yet'."""
import json, subprocess

HOOK_COMMITS = ["413d181", "a8d4c63", "4a715b9", "ac15ff6"]

P = {}

def prop(pid, category, text, note, technique, thorough=True):
    P[pid] = dict(category=category, text=text, note=note, technique=technique, thorough=thorough)

prop("C04", "exploration",
     "The real RingBuffer and DecodeBuffer (reached through feature gated wrappers) are driven with exactly the operations the decoder issues while an online checker compares them with a VecDeque/Vec byte queue after every operation (contents, len, free, slice lengths from (cap, head, tail), position invariants 1-4, cap == size of the live allocation, guard bytes around the allocation, poison value = never written byte showing up in live data, XXH64 over drained bytes). Workload: every (cap, head, tail) state of capacities 17/33/65 x every operation x every operand (exhaustive small scope, ~5M transitions), random histories with growth, random DecodeBuffer histories incl. dictionary straddle and short / failing sinks. The same workload runs in a debug-assertion build, under AddressSanitizer and (smaller) under Miri, which are the oracles for out-of-bounds / uninitialised / provenance errors on the executed paths.",
     "Held on the operations and states executed, not a proof for all capacities. Trusted: VecDeque model, wlcore checker, Miri/ASan. Preconditions of the unsafe API are respected (calls outside them would be false alarms).",
     "runtime monitoring: online model comparison + invariant checks after every operation, poisoning/guard allocator, ASan, Miri")
prop("C11", "exploration",
     "Complete matrix of all 256 window descriptors and 63 single-segment content sizes (every field width, around every boundary) x 9 limit classes (0, 1 KiB, W-1, W, W+1, default, 2^31, format maximum, u64::MAX) x position in the decoder's history (first, after completed / failed / rejected frame) x 8 front ends, run on the real decoder. Oracle: RFC window formula; rejections must be WindowSizeTooBig with (declared window, effective limit); a counting allocator checks that a rejected call requested no window sized memory (largest request < 64 KiB, total <= 256 KiB).",
     "Frames are a header plus an empty last raw block. On the reuse path windows above 1 GiB are only exercised with rejecting limits (acceptance reserves the window eagerly).",
     "runtime monitoring: exhaustive case matrix with spec oracle and allocation monitor")
prop("C14", "exploration",
     "Exhaustive enumeration of the finite domains the property names (all literal lengths, match lengths, offset values (2^32 in thorough), sequence counts, 2^24 block headers, 2^24 sequence header prefixes, 65536 descriptor pairs, all literals header patterns up to 14+14 bits, repeat offset state machine over a value set) through the real (hooked) mapping functions, parsers and writers, compared with a transcription of RFC 8878 and the reference implementation's literal tables. Exploration with exhaustive sub-domains; 18+18 bit literals headers and frame header field contents are sampled.",
     "Trusted: the RFC transcription in harness/mon/src/c14.rs and ref_tables.rs (generated from libzstd 1.5.7 source). Private functions are reached through feature gated pass-through wrappers.",
     "runtime monitoring: exhaustive differential execution of hooked private functions against a spec transcription")
prop("C17", "exploration",
     "The real MatchGeneratorDriver is driven through the public Matcher trait like the frame compressor does (get_next_space, commit_space, start_matching / skip_matching, reset) while an online checker with its own copy of all committed data judges every reported sequence (literals equal the input at the cursor, match bytes equal the bytes `offset` back for the whole length, 1 <= offset <= window_size() and <= data committed since reset, exact tiling, Literals last). Workload: exhaustive over alphabet {0,1}, two blocks of up to 8 (thorough 10) bytes, all skip/match choices, 1-3 window slices; random small-alphabet histories with cross-block copies, eviction, skip, reset-and-reuse; sampled full size 128 KiB blocks. Release and debug-assertion builds.",
     "Blocks are non-empty and at most one slice, as the compressor guarantees. Constructor with arbitrary slice size / slice count is a feature gated hook.",
     "runtime monitoring: online checker over the sequence event stream of the real match finder")
prop("C19", "exploration",
     "The real ruzstd-cli binary (built from /repo) is run in fresh directories on generated files: sizes 0, 1, thresholds, 128 KiB*k +-1, MiBs x data shapes x level option {absent, -l 0, -l 1, --level 1, --level=0, 2, 3, 4, 5, 255, 256, x, -1} x explicit / defaulted paths. Verdict per invocation from exit status, stderr and files: exit 0 => libzstd decodes the .zst to the original and `decompress` restores identical bytes; levels that must work (absent, 0, 1) must exit 0; a panic that leaves an output file behind is a violation; a clean non-zero exit is accepted.",
     "'Implemented level' = 0 and 1; timeouts are inconclusive. Files up to 3 MiB quick / 256 MiB thorough.",
     "runtime monitoring: black box process monitor (exit status, stderr, file system) with reference decoder")
prop("C20", "exploration",
     "create_raw_dict_from_source is called in child processes (so hangs can be killed and aborts observed) on generated sources of 0..200 KiB in five shapes with size estimates exact / under / over / tiny, dictionary sizes 0..source size incl. the k-mer (16) and segment (2048) boundaries and fragmented readers. Violations: panic, more bytes written than dict_size, CPU budget exceeded reproducibly (non-termination).",
     "Sources are capped at 200 KiB because the epoch loop is quadratic; fastrand is seeded per case for replay.",
     "runtime monitoring: sub-process monitor of output length, panics and CPU time")

def main():
    checks = []
    for pid in sorted(P):
        m = P[pid]
        c = {
            "property_id": pid,
            "quick_cmd": f"./check {pid} quick",
            "evidence_file": f"evidence/{pid}.json",
            "replay_cmd_template": f"./check {pid} --replay {{path}}",
            "engine": "mon",
            "level_claimed": {"category": m["category"], "text": m["text"], "design_ref": f"DESIGN.md §3 {pid}"},
            "level_note": m["note"],
            "technique": m["technique"],
        }
        if m["thorough"]:
            c["thorough_cmd"] = f"./check {pid} thorough"
        checks.append(c)
    claimed = sorted(P)
    manifest = {
        "version": 1,
        "setup_cmd": "./check setup",
        "hooks": {
            "guard": "cargo feature `verif_hooks` of crate ruzstd (off by default; implies std + fuzz_exports)",
            "enable": "the monitor crates under /verif/harness depend on ruzstd by path with features = [\"verif_hooks\", ...]; every ./check run rebuilds them from /repo's working tree",
            "baseline_off_cmd": "cd /repo && cargo test --workspace --no-fail-fast --offline",
            "source_commits": HOOK_COMMITS,
            "add_only": True,
        },
        "engines": [
            {"name": "mon", "path": "harness/mon", "serves_properties": claimed, "kind_free_text": "Rust monitor binary (one sub-command per property) driving the real ruzstd code; built as rel / chk (debug assertions + overflow checks) / asan (AddressSanitizer, nightly)"},
            {"name": "wlcore+mirimon", "path": "harness/wlcore, harness/miri", "serves_properties": [p for p in claimed if p in ("C04", "C03", "C01")], "kind_free_text": "FFI free workloads and online checkers shared by the native monitors and the binary that runs under Miri"},
            {"name": "zspec", "path": "harness/zspec", "serves_properties": [p for p in claimed if p in ("C01", "C03", "C05", "C06", "C07", "C08", "C09", "C10", "C12", "C13", "C15")], "kind_free_text": "independent executable model of RFC 8878 (strict frame walker + frame synthesiser), self-tested against libzstd on every run"},
            {"name": "check", "path": "check", "serves_properties": claimed, "kind_free_text": "Python driver: rebuilds the monitors from /repo's working tree, runs the steps of a property, merges evidence, prints verdict lines"},
        ],
        "checks": checks,
        "not_applicable": [
            {"property_id": f"C{i:02d}", "reason": "check not built yet (work in progress, see DESIGN.md §7); the technique applies"}
            for i in range(1, 21) if f"C{i:02d}" not in P
        ],
        "notes": "exit 0 = held on everything explored, exit 1 + VIOLATION line = violation, exit 2 + INCONCLUSIVE line = harness could not decide. Known findings: known_findings.json. See DESIGN.md.",
    }
    with open("/verif/MANIFEST.json", "w") as f:
        json.dump(manifest, f, indent=1)
        f.write("\n")

main()
