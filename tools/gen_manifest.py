#!/usr/bin/env python3
"""Generate /verif/MANIFEST.json from the per-property metadata below (single source of truth for
level texts); properties without an entry are listed under not_applicable as 'not built yet'."""
import json, subprocess

HOOK_COMMITS = ["413d181", "a8d4c63", "4a715b9", "ac15ff6"]

P = {}

def prop(pid, category, text, note, technique, thorough=True):
    P[pid] = dict(category=category, text=text, note=note, technique=technique, thorough=thorough)

prop("C01", "exploration",
     "Differential decoding of valid frames: every frame comes with the bytes that were compressed (reference compressor input under its whole configuration space: levels -7..22, window logs, LDM, checksum/content-size flags, minMatch 3, strategies, literal compression modes, target block sizes, flush patterns, pledged sizes; ZSTD_compressSequences parses; the format model's directed feature matrix of 157 plans and random plans - all confirmed by the reference decoder; the repository corpus). Each frame is decoded through StreamingDecoder, decode_blocks+collect, decode_all_to_vec and decode_from_to; output, content_size() and checksum presence/value must match what the independent frame walker reads from the header. Coverage floor over ~45 hooked decoder paths (every literals type/stream count/size format, every table mode incl. repeat, 1/2/3-byte sequence counts, all repeat offset cases, FCS widths). Release, debug-assertion, ASan builds; small frames also under Miri.",
     "Held on the frames generated; not every feature combination. Trusted: reference decoder (libzstd 1.5.7), zspec model (self-tested against libzstd at the start of every run; a failure is INCONCLUSIVE).",
     "runtime monitoring: differential execution against the encoder input, reference decoder and an independent format model; ASan; Miri")
prop("C02", "exploration",
     "Public API only: compress_to_vec / FrameCompressor reused for 1-6 frames with level switches and fragmenting readers; every frame is decoded by the reference decoder (which verifies the checksum), decode_all_to_vec and StreamingDecoder and compared with the input. Directed families for the data dependent paths (lengths 0, 1, around 1 KiB / 16 KiB literal thresholds, 128 KiB*k +-1, RLE blocks, raw fallback, treeless reuse, <=16 / >16 Huffman symbols, long and far matches) incl. a search steered by the encoder event log for near-break-even blocks that fall back to raw after their Huffman table was kept; plus random shapes. Coverage floor over 14 hooked encoder paths.",
     "Levels Default/Better/Best are unimplemented!() and outside 'every implemented level'.",
     "runtime monitoring: round trip through two independent decoders, workload steered by hooked encoder events")
prop("C03", "exploration",
     "Hostile inputs - mutations of ~500 valid seed frames (random and field-directed: the frame walker locates descriptor, block headers, literals headers, jump tables, Huffman/FSE descriptions, mode bytes, sequence counts, bitstreams, structural boundaries), 38 hostile synthesised plans (stale-state family, over-long blocks, out-of-range offsets), splices, random bytes, hostile dictionaries - through 11 entry points with legal call sequences (drain/query/reset after errors, abandon at 64 MiB of output), followed by a known-good frame on the same decoder. Oracles: panic capture, CPU budget + watchdog that confirms hangs in a child process, ASan build, Miri on small frames. A libFuzzer target (harness/fz decode: ASan + debug assertions, 16 forks, seeded with the synthesised matrices) generates further inputs under coverage guidance; its artifacts are re-judged by the native monitor before anything is reported. A third of all cases run on a decoder that has already decoded valid frames.",
     "Absence of UB only on executed paths. Most cases run with set_max_window_size(8 MiB), a fixed share with the default limit.",
     "runtime monitoring: fault injection on inputs (random, field-directed and coverage-guided by libFuzzer) with panic/CPU/sanitizer/interpreter oracles")
prop("C05", "exploration",
     "Per decode call, in capped child processes: growth of the held decoded bytes (hook verif_buffer_len) against budget + 128 KiB, absolute held bytes after StreamingDecoder::read against window + request + 128 KiB, acceptance of any block regenerating more than 128 KiB, peak live heap (counting allocator) against 4*(window + budget + 256 KiB) + 16 MiB. Workload: well-formed bombs (thousands of zero-bit RLE-mode sequences of maximal match length, 1 MiB RLE/raw literals, 200 KiB Huffman literals, 128 KiB + 1 blocks) x five drivers, and benign reference frames at window logs 10..26 plus the synthesised feature matrix (no false alarms).",
     "The heap envelope is linear (x4) and checked on fresh decoders only; a child that hits the 1 GiB allocation cap identifies the case that broke the bound.",
     "runtime monitoring: resource monitor (hooked buffer length, counting allocator, capped sub-processes)")
prop("C06", "exploration",
     "Driver programs (random and boundary-directed sequences of decode_blocks with every strategy / collect / read / collect_to_writer with full, short, zero-returning and failing sinks; StreamingDecoder::read with all buffer sizes; decode_from_to with chunk ends at header end, block ends, checksum +-4) run on valid frames while the tape (bytes handed out) is checked after every step: prefix of the true content, conservation with the hooked buffer length, read <= given, can_collect consistency; at the end tape == content, consumed == frame length (walker), bytes pulled from a counting source with trailing garbage == frame length. Release, debug-assertion and ASan builds.",
     "Legal driver programs only (first decode_from_to chunk holds the frame header, no call after an error).",
     "runtime monitoring: recorded tape + conservation invariant checked online after every API call")
prop("C07", "exploration",
     "For a history (completed / abandoned after k blocks / failed at every stage / failed resets; dictionary and plain; window limit changes) and a probe frame, the probe is driven with the same schedule on the used decoder and on a fresh one with the same dictionaries; the full observation lists (reset result, each step's Ok/Err + error text, counters, tape hash, checksums) must be equal. Probes: valid feature-matrix frames and 38 frames that read per-frame state before writing it (treeless first, Repeat mode first for LL/OF/ML, repeat offsets first, offsets before the start of output, dictionary reach).",
     "After a failed reset only the reset result is compared; limits above 1 GiB are not used (an accepted window is reserved eagerly on reuse).",
     "runtime monitoring: differential execution reused vs fresh decoder over recorded observation lists")
prop("C08", "exploration",
     "Decoder half: rides on every C06 schedule - an independent XXH64 over the tape is compared with get_calculated_checksum() once all output has been taken, and with the stored checksum of checksummed frames. Compressor half: every frame of the C02 workload (incl. compressor reuse) must end with the low 32 bits of XXH64(input).",
     "Own XXH64 implementation (wlcore::xxh, cross-checked against the model's and known vectors at start-up).",
     "runtime monitoring: shadow hasher over the recorded tape")
prop("C09", "exploration",
     "Seven dictionaries (ZDICT_trainFromBuffer on six generated sample families, the repository's) x inputs x levels x window logs 10..22 x checksum x dict-id flag on/off (force_dict) through three front ends with several dictionaries registered; output must equal the input. Missing dictionary => reset must fail with DictNotProvided{id}. Synthesised frames place the first match at every alignment around the dictionary/output boundary (inside, straddling, first byte, one byte too far => error) and at output == window-1 / window; a plain frame after a dictionary frame must decode and a plain frame with an offset before the start of output must fail.",
     "Raw-content dictionaries cannot be loaded through the public API.",
     "runtime monitoring: differential execution with reference-produced dictionary frames and model-synthesised boundary frames")
prop("C10", "exploration",
     "(a) frame + trailing bytes through a counting source: exactly frame length consumed; (b) concatenations of 1-6 frames with skippable frames (all 16 magics, 0..70 KiB) through decode_all / decode_all_to_vec with exact, larger and every undersized target (canary behind the target, vector len/capacity/prefix on failure); (c) trailing garbage, truncated skippable frames => error; (d) every strict prefix (every byte for frames <= 4 KiB, structural boundaries +-2 and random otherwise) through five front ends: never finished, delivered bytes are a prefix of the content, reader-based front ends end in an error.",
     "Frame lengths and boundaries come from the independent frame walker. Empty prefix excluded for decode_all*.",
     "runtime monitoring: counting source, canaries, exhaustive truncation sweep")
prop("C12", "exploration",
     "Decoder side: random/boundary normalized distributions for accuracy logs 5..9 (less-than-one probabilities, zero runs of every length, dominant symbols) serialised by the model, parsed by ruzstd and compared state by state with the RFC construction; predefined LL/OF/ML tables compared with the literal tables transcribed from libzstd. Encoder side: production histograms (1..53 symbols, Huffman weight histograms; max log 9/8/6, zero-bit avoidance) through build_table_from_data -> description -> ruzstd parser and model parser -> same table; single-state and two-interleaved-state streams decode to the input with all bits consumed; the three-state sequences section writer/reader round trip.",
     "RFC construction = zspec::fse::build_dtable (checked against the reference literal tables).",
     "runtime monitoring: differential execution against an executable RFC model")
prop("C13", "exploration",
     "Encoder side: all 255 alphabet sizes x placements x rank orders: code is complete (Kraft), prefix-free, depth <= 11; description (direct / FSE) read by ruzstd's decoder and by the model into the same lengths; 1- and 4-stream payloads decoded by the model; complete literals sections through the real section decoder and, inside a frame, the reference decoder. Chains of 2-5 literal buffers of consecutive blocks (histogram variations: symbol above the old maximum / in a gap, dropped symbols, shifted frequencies, too few literals) through the compressor's literals encoder with the table it kept and the decoder's literals decoder with the table it kept (treeless reuse). Decoder side: ALL direct weight vectors over {0..12} up to length 5 (6 in thorough) and a sample up to 255 weights (direct and FSE): accepted iff the rule holds, table == canonical table.",
     "Validity rule = zspec::huf::weights_to_lengths (sum completes to a power of two, depth <= 11).",
     "runtime monitoring: exhaustive/small-scope differential execution against an executable RFC model")
prop("C15", "exploration",
     "Every frame of the C02 workload is walked by the strict independent frame walker (header fields, reserved bits, block sizes stored and regenerated, one final block, section sizes, table descriptions, bitstreams consumed exactly, every offset <= window and <= produced data, nothing after the checksum) and checked against len(frame) <= len(x) + 6 + 3*(len(x)/128KiB + 1) + 4.",
     "The walker enforces validity, not minimality.",
     "runtime monitoring: offline structural checker (independent format model) over recorded compressor output")
prop("C16", "exploration",
     "A scripted matcher replays parses generated first (data synthesised from the parse, so every match is true) through the public Matcher trait: families for sequence counts around 127/128/0x7EFF/0x7F00/0x7FFF/0x8000/43689, single LL/ML/OF codes, extreme lengths, all-identical literals, raw fallback between Huffman blocks (stale-table situation, counted by a simulation over the encoder event log), far offsets over many blocks, blocks larger than the declared window, reuse across frames. compress() must not panic; frames must decode with ruzstd and the reference decoder.",
     "The script honours the Matcher contract (ml >= 3, 1 <= offset <= min(window, data so far), exact tiling, blocks <= 128 KiB).",
     "runtime monitoring: scripted fault-free environment (user matcher) with two decoders as oracle")
prop("C18", "exploration",
     "One generic driver (harness/feat4) built four times ({std,no_std} x {hash,no hash}) replays the same workload file: compressions through fragmenting / take-limited readers and short writers with Interrupted injected where the library retries it, compressor reuse; decodes of valid and damaged frames through StreamingDecoder (read / take / read_exact), decode_blocks + collect_to_writer, stepwise decode_blocks with collect() / read() / no drain mixed and a final collect() (long frames with small windows so that the ring wraps), decode_all, decode_all_to_vec, decode_from_to. An offline checker compares the four digest logs line by line: std == no_std exactly; hash vs no hash may differ only in descriptor bit 2, the 4 trailer bytes and the calculated checksum.",
     "Interrupted is injected only on decoder sources and compressor drains (the compressor unwraps errors of its source in every build).",
     "runtime monitoring: offline comparison of recorded digest logs from four builds")
prop("C04", "exploration",
     "The real RingBuffer and DecodeBuffer (reached through feature gated wrappers) are driven with exactly the operations the decoder issues while an online checker compares them with a VecDeque/Vec byte queue after every operation (contents, len, free, slice lengths from (cap, head, tail), position invariants 1-4, cap == size of the live allocation, guard bytes around the allocation, poison value = never written byte showing up in live data, XXH64 over drained bytes). Workload: every (cap, head, tail) state of capacities 17/33/65 x every operation x every operand (exhaustive small scope, ~5M transitions), random histories with growth, random DecodeBuffer histories incl. dictionary straddle and short / failing sinks. The same workload runs in a debug-assertion build, under AddressSanitizer and (smaller) under Miri, which are the oracles for out-of-bounds / uninitialised / provenance errors on the executed paths; a libFuzzer target (harness/fz ring) lets coverage guidance choose the decisions of the same workloads (ASan + model comparison after every operation).",
     "Held on the operations and states executed, not a proof for all capacities. Trusted: VecDeque model, wlcore checker, Miri/ASan. Preconditions of the unsafe API are respected (calls outside them would be false alarms).",
     "runtime monitoring: online model comparison + invariant checks after every operation, poisoning/guard allocator, ASan, Miri, coverage-guided workload (libFuzzer)")
prop("C11", "exploration",
     "Complete matrix of all 256 window descriptors and 63 single-segment content sizes (every field width, around every boundary) x 9 limit classes (0, 1 KiB, W-1, W, W+1, default, 2^31, format maximum, u64::MAX) x position in the decoder's history (first, after completed / failed / rejected frame) x 8 front ends, run on the real decoder. Oracle: RFC window formula; rejections must be WindowSizeTooBig with (declared window, effective limit); a counting allocator checks that a rejected call requested no window sized memory (largest request < 64 KiB, total <= 256 KiB).",
     "Frames are a header plus an empty last raw block. On the reuse path windows above 1 GiB are only exercised with rejecting limits (acceptance reserves the window eagerly).",
     "runtime monitoring: exhaustive case matrix with spec oracle and allocation monitor")
prop("C14", "exploration",
     "Exhaustive enumeration of the finite domains the property names (all literal lengths, match lengths, offset values (2^32 in thorough), sequence counts, 2^24 block headers, 2^24 sequence header prefixes, 65536 descriptor pairs, all literals header patterns up to 14+14 bits, repeat offset state machine over a value set) through the real (hooked) mapping functions, parsers and writers, compared with a transcription of RFC 8878 and the reference implementation's literal tables. Exploration with exhaustive sub-domains; 18+18 bit literals headers and frame header field contents are sampled.",
     "Trusted: the RFC transcription in harness/mon/src/c14.rs and ref_tables.rs (generated from libzstd 1.5.7 source). Private functions are reached through feature gated pass-through wrappers.",
     "runtime monitoring: exhaustive differential execution of hooked private functions against a spec transcription")
prop("C17", "exploration",
     "The real MatchGeneratorDriver is driven through the public Matcher trait like the frame compressor does (get_next_space, commit_space, start_matching / skip_matching, reset) while an online checker with its own copy of all committed data judges every reported sequence (literals equal the input at the cursor, match bytes equal the bytes `offset` back for the whole length, 1 <= offset <= window_size() and <= data committed since reset, exact tiling, Literals last). Workload: exhaustive over alphabet {0,1}, two blocks of up to 8 (thorough 10) bytes, all skip/match choices, 1-3 window slices; random small-alphabet histories with cross-block copies, eviction, skip, reset-and-reuse; sampled full size 128 KiB blocks. Release and debug-assertion builds.",
     "Blocks are non-empty and at most one slice, as the compressor guarantees. Constructor with arbitrary slice size / slice count is a feature gated hook.",
     "runtime monitoring: online checker over the sequence event stream of the real match finder")
prop("C19", "exploration",
     "The real ruzstd-cli binary (built from /repo) is run in fresh directories on generated files: sizes 0, 1, thresholds, 128 KiB*k +-1, MiBs x data shapes x level option {absent, -l 0, -l 1, --level 1, --level=0, 2, 3, 4, 5, 255, 256, x, -1} x explicit / defaulted paths. Verdict per invocation from exit status, stderr and files: exit 0 => libzstd decodes the .zst to the original and `decompress` restores identical bytes; levels that must work (absent, 0, 1) must exit 0; a panic that leaves an output file behind is a violation; a clean non-zero exit is accepted. Output paths are fresh, or already hold a longer / a shorter file. Fault injection: the output is /dev/full, or a file size limit (ulimit -f with SIGXFSZ ignored) cuts the result in the middle - the tool must fail through its exit status, exit 0 or a panic with a file left behind is a violation.",
     "'Implemented level' = 0 and 1; timeouts are inconclusive. Files up to 3 MiB quick / 256 MiB thorough. Write faults are injected on the output only (not on reads of the input).",
     "runtime monitoring: black box process monitor (exit status, stderr, file system) with reference decoder and injected write faults")
prop("C20", "exploration",
     "create_raw_dict_from_source is called in child processes (so hangs can be killed and aborts observed) on generated sources of 0..200 KiB in five shapes with size estimates exact / under / over / tiny, dictionary sizes 0..source size incl. the k-mer (16) and segment (2048) boundaries and fragmented readers; estimates of 512 KiB..4 MiB whose sample spans several segments with every tail length (also below one k-mer), and estimates around 2^32. Release build and a build with overflow checks. Violations: panic, more bytes written than dict_size, CPU budget exceeded reproducibly (non-termination).",
     "Sources are capped at 200 KiB (a few of 512 KiB+ in the thorough tier) because the epoch loop is quadratic; fastrand is seeded per case for replay. After three confirmed non-terminations the remaining cases are not run (the verdict is decided).",
     "runtime monitoring: sub-process monitor of output length, panics and CPU time")

def main():
    checks = []
    for pid in sorted(P):
        m = P[pid]
        c = {
            "property_id": pid,
            "quick_cmd": f"./check {pid} quick",
            "evidence_file": f"evidence/{pid}.json",
            "replay_cmd_template": f"./check {pid} --replay {{path}}",
            "engine": "mon",
            "level_claimed": {"category": m["category"], "text": m["text"], "design_ref": f"DESIGN.md §3 {pid}"},
            "level_note": m["note"],
            "technique": m["technique"],
        }
        if m["thorough"]:
            c["thorough_cmd"] = f"./check {pid} thorough"
        checks.append(c)
    claimed = sorted(P)
    manifest = {
        "version": 1,
        "setup_cmd": "./check setup",
        "hooks": {
            "guard": "cargo feature `verif_hooks` of crate ruzstd (off by default; implies std + fuzz_exports)",
            "enable": "the monitor crates under /verif/harness depend on ruzstd by path with features = [\"verif_hooks\", ...]; every ./check run rebuilds them from /repo's working tree",
            "baseline_off_cmd": "cd /repo && cargo test --workspace --no-fail-fast --offline",
            "source_commits": HOOK_COMMITS,
            "add_only": True,
        },
        "engines": [
            {"name": "mon", "path": "harness/mon", "serves_properties": claimed, "kind_free_text": "Rust monitor binary (one sub-command per property) driving the real ruzstd code; built as rel / chk (debug assertions + overflow checks) / asan (AddressSanitizer, nightly)"},
            {"name": "wlcore+mirimon", "path": "harness/wlcore, harness/miri", "serves_properties": [p for p in claimed if p in ("C04", "C03", "C01")], "kind_free_text": "FFI free workloads and online checkers shared by the native monitors and the binary that runs under Miri"},
            {"name": "fz", "path": "harness/fz", "serves_properties": [p for p in claimed if p in ("C03", "C04")], "kind_free_text": "cargo-fuzz (libFuzzer + AddressSanitizer + debug assertions) targets that drive the wlcore workloads under coverage guidance; artifacts are re-judged by the native monitor"},
            {"name": "zspec", "path": "harness/zspec", "serves_properties": [p for p in claimed if p in ("C01", "C03", "C05", "C06", "C07", "C08", "C09", "C10", "C12", "C13", "C15")], "kind_free_text": "independent executable model of RFC 8878 (strict frame walker + frame synthesiser), self-tested against libzstd on every run"},
            {"name": "check", "path": "check", "serves_properties": claimed, "kind_free_text": "Python driver: rebuilds the monitors from /repo's working tree, runs the steps of a property, merges evidence, prints verdict lines"},
        ],
        "checks": checks,
        "not_applicable": [
            {"property_id": f"C{i:02d}", "reason": "check not built yet (work in progress, see DESIGN.md §7); the technique applies"}
            for i in range(1, 21) if f"C{i:02d}" not in P
        ],
        "notes": "exit 0 = held on everything explored, exit 1 + VIOLATION line = violation, exit 2 + INCONCLUSIVE line = harness could not decide. Known findings: known_findings.json. See DESIGN.md.",
    }
    with open("/verif/MANIFEST.json", "w") as f:
        json.dump(manifest, f, indent=1)
        f.write("\n")

main()
