#!/bin/bash
# usage: tools/run_mutant.sh <patch file> <tier> <property id>...
# Applies a patch to /repo, runs the given checks, prints their verdicts, and ALWAYS restores /repo afterwards.
# Nothing is ever committed to /repo by this script.
set -u
patch="$1"; tier="$2"; shift 2
cd /repo || exit 2
if ! git diff --quiet; then echo "REFUSING: /repo has uncommitted changes"; exit 2; fi
if ! git apply --check "$patch" 2>/dev/null; then echo "PATCH-DOES-NOT-APPLY $patch"; exit 3; fi
git apply "$patch"
trap 'cd /repo && git checkout -q -- . && git clean -fdq -e target ruzstd cli >/dev/null 2>&1' EXIT
cd /verif
for p in "$@"; do
  s=$(date +%s)
  out=$(VERIF_SEED=${VERIF_SEED:-1} ./check "$p" "$tier" 2>&1)
  rc=$?
  e=$(date +%s)
  nv=$(echo "$out" | grep -c '^VIOLATION')
  echo "MUTANT $(basename "$patch") check=$p tier=$tier rc=$rc violations=$nv time=$((e-s))s"
  echo "$out" | grep -A1 '^VIOLATION' | grep 'kind=' | cut -c1-260 | head -4
  echo "$out" | grep '^INCONCLUSIVE' | cut -c1-260 | head -3
done
