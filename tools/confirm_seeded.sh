#!/bin/bash
# usage: tools/confirm_seeded.sh <dir with NAME.patch and NAME_demo.patch> <NAME> [more names...]
# Confirms in a scratch worktree (outside /repo and /verif, removed afterwards) that the seeded change
#  (1) compiles and passes the existing test suite, (2) makes its demonstration fail, and that
#  (3) the demonstration passes without the change. Prints one CONFIRM line per name.
set -u
src="$1"; shift
for name in "$@"; do
  wt=/tmp/confirm_$name
  git -C /repo worktree remove --force "$wt" >/dev/null 2>&1
  git -C /repo worktree add -q "$wt" HEAD || { echo "CONFIRM $name worktree-failed"; continue; }
  cp /repo/Cargo.lock "$wt/Cargo.lock"
  cd "$wt"
  res=""
  if ! git apply "$src/$name.patch"; then echo "CONFIRM $name mutation-patch-does-not-apply"; cd /; git -C /repo worktree remove --force "$wt"; continue; fi
  out=$(cargo test --workspace --no-fail-fast --offline 2>&1)
  passed=$(echo "$out" | grep -E "^test result: ok" | sed -E 's/.* ([0-9]+) passed.*/\1/' | paste -sd+ | bc)
  failed=$(echo "$out" | grep -cE "^test result: FAILED|error(\[|:)")
  res="suite_passed=$passed suite_failures=$failed"
  if ! git apply "$src/${name}_demo.patch"; then echo "CONFIRM $name $res demo-patch-does-not-apply"; cd /; git -C /repo worktree remove --force "$wt"; continue; fi
  # how to run the demonstration
  demo_file=$(grep -E '^\+\+\+ b/ruzstd/tests/.*\.rs' "$src/${name}_demo.patch" | head -1 | sed -E 's#.*/tests/(.*)\.rs#\1#')
  cli_demo=$(grep -E '^\+\+\+ b/cli/tests/.*\.rs' "$src/${name}_demo.patch" | head -1 | sed -E 's#.*/tests/(.*)\.rs#\1#')
  # a file NAME.cmd next to the patches overrides the command (feature flags, other package)
  if [ -f "$src/$name.cmd" ]; then cmd=$(cat "$src/$name.cmd")
  elif [ -n "$cli_demo" ]; then cmd="cargo test -p ruzstd-cli --offline --test $cli_demo"
  elif [ -n "$demo_file" ]; then cmd="cargo test -p ruzstd --offline --test $demo_file"; else cmd="cargo test -p ruzstd --offline --lib demo_"; fi
  with=$($cmd 2>&1 | grep -E "^test result" | tail -1)
  git apply -R "$src/$name.patch"
  without=$($cmd 2>&1 | grep -E "^test result" | tail -1)
  echo "CONFIRM $name $res | demo: $cmd | WITH change: ${with:-no result} | WITHOUT change: ${without:-no result}"
  cd /
  git -C /repo worktree remove --force "$wt"
done
