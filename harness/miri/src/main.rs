//! FFI free monitor binary, run under Miri: `cargo +nightly miri run -p mirimon -- <workload> <seed> <budget>`.
//! Miri is the oracle (undefined behaviour, out of bounds, uninitialised reads, provenance); the
//! model checks of wlcore run as well. Prints one JSON line; exit status 1 on a model violation
//! (Miri itself aborts with its own report on undefined behaviour).

use wlcore::ring::*;
use wlcore::Rng;

fn state_hash(st: (usize, usize, usize, usize)) -> u64 {
    ((st.1 as u64) << 42) ^ ((st.2 as u64) << 21) ^ st.3 as u64
}

fn ring(seed: u64, budget: u64) -> (u64, Vec<u64>, Option<String>) {
    let mut r = Rng::for_case(seed, 4, 0);
    let mut states = std::collections::BTreeSet::new();
    let mut evals = 0u64;
    // sampled small scope transitions: every decoder operation from random (cap, head, tail) states
    while evals < budget / 2 {
        let cap = *r.pick(&[17usize, 33, 65]);
        let head = r.usize(0, cap - 1);
        let tail = r.usize(0, cap - 1);
        let mut m = match RingMon::construct(NoProbe, cap, head, tail) {
            Ok(m) => m,
            Err(e) => return (evals, vec![], Some(e)),
        };
        for _ in 0..6 {
            let op = m.random_op(&mut r, 40);
            evals += 1;
            if let Err(e) = m.apply(&op) {
                return (evals, vec![], Some(format!("construct ({cap},{head},{tail}) then {op:?}: {e}")));
            }
            states.insert(state_hash(m.ring.state()));
        }
    }
    // random histories with growth
    while evals < budget {
        let mut m = RingMon::new(NoProbe);
        let max_len = *r.pick(&[30usize, 100, 600]);
        for _ in 0..60 {
            let op = m.random_op(&mut r, max_len);
            evals += 1;
            if let Err(e) = m.apply(&op) {
                return (evals, vec![], Some(format!("{op:?}: {e}")));
            }
            states.insert(state_hash(m.ring.state()));
        }
    }
    (evals, states.into_iter().collect(), None)
}

fn decbuf(seed: u64, budget: u64) -> (u64, Vec<u64>, Option<String>) {
    let mut r = Rng::for_case(seed, 5, 0);
    let mut states = std::collections::BTreeSet::new();
    let mut evals = 0u64;
    while evals < budget {
        let window = *r.pick(&[1usize, 8, 64, 300]);
        let dict: Vec<u8> = if r.chance(1, 2) { (0..r.usize(1, 100)).map(|x| (x % 190) as u8).collect() } else { Vec::new() };
        let mut m = DecBufMon::new(window, &dict);
        m.max_chunk = 150;
        for _ in 0..50 {
            evals += 1;
            if let Err(e) = m.step(&mut r) {
                return (evals, vec![], Some(e));
            }
            states.insert(state_hash(m.buf.ring_state()));
        }
    }
    (evals, states.into_iter().collect(), None)
}

fn main() {
    let a: Vec<String> = std::env::args().collect();
    let workload = a.get(1).map(|s| s.as_str()).unwrap_or("ring");
    let seed: u64 = a.get(2).and_then(|s| s.parse().ok()).unwrap_or(1);
    let budget: u64 = a.get(3).and_then(|s| s.parse().ok()).unwrap_or(200);
    let (evals, states, violation) = match workload {
        "ring" => ring(seed, budget),
        "decbuf" => decbuf(seed, budget),
        _ => {
            eprintln!("unknown workload");
            std::process::exit(2);
        }
    };
    let feats = ruzstd::verif::take_counters();
    let mut hits = String::new();
    for (i, n) in ruzstd::verif::FEAT_NAMES.iter().enumerate() {
        if feats[i] > 0 {
            if !hits.is_empty() {
                hits.push(',');
            }
            hits.push_str(&format!("\"{}\":{}", n, feats[i]));
        }
    }
    let st: Vec<String> = states.iter().map(|h| format!("\"{h:x}\"")).collect();
    println!(
        "MIRIMON {{\"workload\":\"{workload}\",\"seed\":{seed},\"evaluations\":{evals},\"distinct_hashes\":[{}],\"hook_hits\":{{{hits}}},\"violation\":{}}}",
        st.join(","),
        match &violation {
            None => "null".to_string(),
            Some(v) => format!("\"{}\"", v.replace('\\', "/").replace('"', "'")),
        }
    );
    if violation.is_some() {
        std::process::exit(1);
    }
}
