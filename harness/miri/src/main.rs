//! FFI free monitor binary, run under Miri: `cargo +nightly miri run -p mirimon -- <workload> <seed> <budget>`.
//! Miri is the oracle (undefined behaviour, out of bounds, uninitialised reads, provenance); the
//! model checks of wlcore run as well. Prints one JSON line; exit status 1 on a model violation
//! (Miri itself aborts with its own report on undefined behaviour).

use wlcore::ring::*;
use wlcore::Rng;

fn state_hash(st: (usize, usize, usize, usize)) -> u64 {
    ((st.1 as u64) << 42) ^ ((st.2 as u64) << 21) ^ st.3 as u64
}

fn ring(seed: u64, budget: u64) -> (u64, Vec<u64>, Option<String>) {
    let mut r = Rng::for_case(seed, 4, 0);
    let mut states = std::collections::BTreeSet::new();
    let mut evals = 0u64;
    // sampled small scope transitions: every decoder operation from random (cap, head, tail) states
    while evals < budget / 2 {
        let cap = *r.pick(&[17usize, 33, 65]);
        let head = r.usize(0, cap - 1);
        let tail = r.usize(0, cap - 1);
        let mut m = match RingMon::construct(NoProbe, cap, head, tail) {
            Ok(m) => m,
            Err(e) => return (evals, vec![], Some(e)),
        };
        for _ in 0..6 {
            let op = m.random_op(&mut r, 40);
            evals += 1;
            if let Err(e) = m.apply(&op) {
                return (evals, vec![], Some(format!("construct ({cap},{head},{tail}) then {op:?}: {e}")));
            }
            states.insert(state_hash(m.ring.state()));
        }
    }
    // random histories with growth
    while evals < budget {
        let mut m = RingMon::new(NoProbe);
        let max_len = *r.pick(&[30usize, 100, 600]);
        for _ in 0..60 {
            let op = m.random_op(&mut r, max_len);
            evals += 1;
            if let Err(e) = m.apply(&op) {
                return (evals, vec![], Some(format!("{op:?}: {e}")));
            }
            states.insert(state_hash(m.ring.state()));
        }
    }
    (evals, states.into_iter().collect(), None)
}

fn decbuf(seed: u64, budget: u64) -> (u64, Vec<u64>, Option<String>) {
    let mut r = Rng::for_case(seed, 5, 0);
    let mut states = std::collections::BTreeSet::new();
    let mut evals = 0u64;
    while evals < budget {
        let window = *r.pick(&[1usize, 8, 64, 300]);
        let dict: Vec<u8> = if r.chance(1, 2) { (0..r.usize(1, 100)).map(|x| (x % 190) as u8).collect() } else { Vec::new() };
        let mut m = DecBufMon::new(window, &dict);
        m.max_chunk = 150;
        for _ in 0..50 {
            evals += 1;
            if let Err(e) = m.step(&mut r) {
                return (evals, vec![], Some(e));
            }
            states.insert(state_hash(m.buf.ring_state()));
        }
    }
    (evals, states.into_iter().collect(), None)
}

/// small synthesised frames (valid ones must decode to the plan's expected bytes; mutated ones must not
/// make the interpreter report anything) through four entry points
fn frames(seed: u64, budget: u64, hostile: bool, file: &str) -> (u64, Vec<u64>, Option<String>) {
    use ruzstd::decoding::{BlockDecodingStrategy, FrameDecoder, StreamingDecoder};
    use std::io::Read;
    let mut r = Rng::for_case(seed, 6, 0);
    // small frames prepared natively by `mon miriprep` (synthesising plans is far too slow under the interpreter)
    let unhex = |s: &str| -> Vec<u8> { (0..s.len() / 2).map(|i| u8::from_str_radix(&s[2 * i..2 * i + 2], 16).unwrap_or(0)).collect() };
    let text = std::fs::read_to_string(file).unwrap_or_default();
    // parse only a handful of lines: hex decoding is slow under the interpreter
    let lines: Vec<&str> = text.lines().collect();
    let mut matrix: Vec<(String, Vec<u8>, Vec<u8>)> = Vec::new();
    let mut hostile_plans: Vec<Vec<u8>> = Vec::new();
    let mut tries = 0;
    while !lines.is_empty() && tries < 400 && (matrix.len() < (budget as usize).clamp(4, 40) || (hostile && hostile_plans.len() < 6)) {
        tries += 1;
        let line = lines[r.usize(0, lines.len() - 1)];
        let p: Vec<&str> = line.split(' ').collect();
        match p.first() {
            Some(&"V") if p.len() == 4 && matrix.len() < 40 => matrix.push((String::from_utf8_lossy(&unhex(p[1])).into_owned(), unhex(p[2]), unhex(p[3]))),
            Some(&"H") if p.len() == 2 && hostile && hostile_plans.len() < 6 => hostile_plans.push(unhex(p[1])),
            _ => {}
        }
    }
    if matrix.is_empty() {
        return (0, vec![], Some("harness: no prepared frames".into()));
    }
    let mut seen = std::collections::BTreeSet::new();
    let mut evals = 0u64;
    while evals < budget {
        // pick a frame
        let (name, bytes, expected): (String, Vec<u8>, Option<Vec<u8>>) = if !hostile {
            let (n, b, e) = r.pick(&matrix);
            (n.clone(), b.clone(), Some(e.clone()))
        } else {
            let mut b = if r.chance(1, 4) && !hostile_plans.is_empty() { r.pick(&hostile_plans).clone() } else { r.pick(&matrix).1.clone() };
            for _ in 0..r.usize(0, 3) {
                if b.is_empty() {
                    break;
                }
                match r.below(4) {
                    0 => {
                        let i = r.usize(0, b.len() - 1);
                        b[i] ^= 1 << r.below(8);
                    }
                    1 => {
                        let i = r.usize(0, b.len() - 1);
                        b[i] = *r.pick(&[0u8, 0xFF, 0x80, 1]);
                    }
                    2 => {
                        let cut = r.usize(0, b.len() - 1);
                        b.truncate(cut);
                    }
                    _ => {
                        let i = r.usize(0, b.len() - 1);
                        b[i] = r.byte();
                    }
                }
            }
            ("mutated".to_string(), b, None)
        };
        let entry = r.below(4);
        evals += 1;
        let mut d = FrameDecoder::new();
        // valid frames may declare large windows (allocated lazily on a fresh decoder); hostile ones get a small limit
        d.set_max_window_size(if hostile { 1 << 20 } else { u64::MAX });
        let got: Result<Vec<u8>, String> = match entry {
            0 => match StreamingDecoder::new_with_decoder(&bytes[..], &mut d) {
                Err(e) => Err(e.to_string()),
                Ok(mut s) => {
                    let mut out = Vec::new();
                    let mut buf = [0u8; 300];
                    loop {
                        match s.read(&mut buf) {
                            Ok(0) => break Ok(out),
                            Ok(n) => {
                                out.extend_from_slice(&buf[..n]);
                                if out.len() > 100_000 {
                                    break Err("output cap".into());
                                }
                            }
                            Err(e) => break Err(e.to_string()),
                        }
                    }
                }
            },
            1 => {
                let mut src = &bytes[..];
                match d.reset(&mut src) {
                    Err(e) => Err(e.to_string()),
                    Ok(()) => {
                        let mut out = Vec::new();
                        loop {
                            match d.decode_blocks(&mut src, BlockDecodingStrategy::UptoBlocks(1)) {
                                Err(e) => break Err(e.to_string()),
                                Ok(_) => {
                                    if let Some(v) = d.collect() {
                                        out.extend_from_slice(&v);
                                    }
                                    if d.is_finished() {
                                        break Ok(out);
                                    }
                                    if out.len() > 100_000 {
                                        break Err("output cap".into());
                                    }
                                }
                            }
                        }
                    }
                }
            }
            2 => {
                let mut out = Vec::with_capacity(4000);
                d.decode_all_to_vec(&bytes, &mut out).map(|_| out).map_err(|e| e.to_string())
            }
            _ => {
                let mut out = Vec::new();
                let mut target = [0u8; 777];
                let mut pos = 0;
                let mut idle = 0;
                loop {
                    match d.decode_from_to(&bytes[pos..], &mut target) {
                        Err(e) => break Err(e.to_string()),
                        Ok((rd, wr)) => {
                            if rd > bytes.len() - pos {
                                break Err("overread".into());
                            }
                            pos += rd;
                            out.extend_from_slice(&target[..wr]);
                            if rd == 0 && wr == 0 {
                                idle += 1;
                                if idle > 2 {
                                    break if d.is_finished() { Ok(out) } else { Err("needs more".into()) };
                                }
                            }
                            if out.len() > 100_000 {
                                break Err("output cap".into());
                            }
                        }
                    }
                }
            }
        };
        if let Some(exp) = expected {
            // front ends 2 and 3 cannot select a dictionary: dictionary plans are skipped by the size filter / names
            if name.contains("dict") {
                continue;
            }
            match &got {
                Ok(out) if *out == exp => {}
                other => return (evals, vec![], Some(format!("valid frame {name} through entry {entry}: {:?}", other.as_ref().map(|v| v.len())))),
            }
        }
        let mut h: u64 = 0xcbf29ce484222325 ^ entry;
        for b in name.bytes().chain(got.is_ok().to_string().bytes()) {
            h = (h ^ u64::from(b)).wrapping_mul(0x100000001b3);
        }
        seen.insert(h);
    }
    (evals, seen.into_iter().collect(), None)
}

fn main() {
    let a: Vec<String> = std::env::args().collect();
    let workload = a.get(1).map(|s| s.as_str()).unwrap_or("ring");
    let seed: u64 = a.get(2).and_then(|s| s.parse().ok()).unwrap_or(1);
    let budget: u64 = a.get(3).and_then(|s| s.parse().ok()).unwrap_or(200);
    let (evals, states, violation) = match workload {
        "ring" => ring(seed, budget),
        "decbuf" => decbuf(seed, budget),
        "frames_valid" => frames(seed, budget, false, a.get(4).map(|s| s.as_str()).unwrap_or("")),
        "frames_hostile" => frames(seed, budget, true, a.get(4).map(|s| s.as_str()).unwrap_or("")),
        _ => {
            eprintln!("unknown workload");
            std::process::exit(2);
        }
    };
    let feats = ruzstd::verif::take_counters();
    let mut hits = String::new();
    for (i, n) in ruzstd::verif::FEAT_NAMES.iter().enumerate() {
        if feats[i] > 0 {
            if !hits.is_empty() {
                hits.push(',');
            }
            hits.push_str(&format!("\"{}\":{}", n, feats[i]));
        }
    }
    let st: Vec<String> = states.iter().map(|h| format!("\"{h:x}\"")).collect();
    println!(
        "MIRIMON {{\"workload\":\"{workload}\",\"seed\":{seed},\"evaluations\":{evals},\"distinct_hashes\":[{}],\"hook_hits\":{{{hits}}},\"violation\":{}}}",
        st.join(","),
        match &violation {
            None => "null".to_string(),
            Some(v) => format!("\"{}\"", v.replace('\\', "/").replace('"', "'")),
        }
    );
    if violation.is_some() {
        std::process::exit(1);
    }
}
