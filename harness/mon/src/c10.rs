//! C10 Exact frame boundaries: consumption, multi-frame decoding, truncation detection.

use crate::common::*;
use crate::frames::{self, FrameCase};
use ruzstd::decoding::{BlockDecodingStrategy, FrameDecoder, StreamingDecoder};
use serde_json::json;
use std::io::Read;

struct CountingSrc<'a> {
    data: &'a [u8],
    pos: usize,
    chunk: usize,
}

impl Read for CountingSrc<'_> {
    fn read(&mut self, buf: &mut [u8]) -> std::io::Result<usize> {
        let n = buf.len().min(self.chunk.max(1)).min(self.data.len() - self.pos);
        buf[..n].copy_from_slice(&self.data[self.pos..self.pos + n]);
        self.pos += n;
        Ok(n)
    }
}

fn frame_hex(b: &[u8]) -> String {
    if b.len() <= 150_000 {
        hex(b)
    } else {
        format!("(len {}) re-run with the recorded seed", b.len())
    }
}

fn short(msg: &str) -> String {
    msg.chars().filter(|c| !c.is_ascii_digit()).take(70).collect()
}

/// (a) a frame followed by arbitrary bytes: exactly the frame is consumed
fn consumption(rec: &Recorder, r: &mut Rng, c: &FrameCase, frame_len: usize) {
    let trailing: Vec<u8> = match r.below(4) {
        0 => Vec::new(),
        1 => {
            let n = r.usize(1, 5);
            r.bytes(n)
        }
        2 => {
            let n = r.usize(1, 300);
            r.bytes(n)
        }
        _ => c.bytes.clone(), // another frame
    };
    let mut data = c.bytes.clone();
    data.extend_from_slice(&trailing);
    for front in 0..2 {
        rec.eval();
        let chunk = *r.pick(&[1usize, 7, 4096, usize::MAX]);
        let res = catch(|| {
            let mut src = CountingSrc { data: &data, pos: 0, chunk };
            let mut d = FrameDecoder::new();
            d.set_max_window_size(u64::MAX);
            let out = if front == 0 {
                d.reset(&mut src).map_err(|e| e.to_string())?;
                d.decode_blocks(&mut src, BlockDecodingStrategy::All).map_err(|e| e.to_string())?;
                d.collect().unwrap_or_default()
            } else {
                let mut s = StreamingDecoder::new_with_decoder(&mut src, &mut d).map_err(|e| e.to_string())?;
                let mut out = Vec::new();
                s.read_to_end(&mut out).map_err(|e| e.to_string())?;
                out
            };
            Ok::<_, String>((out, src.pos, d.bytes_read_from_source(), d.is_finished()))
        });
        let site = ["decode_blocks", "StreamingDecoder"][front];
        let replay = json!({"part": "consumption", "frame": frame_hex(&c.bytes), "trailing": hex_brief(&trailing), "origin": c.origin});
        match res {
            Err(p) => rec.panic_violation(&p, "consumption", json!({"front_end": site}), replay),
            Ok(Err(e)) => rec.violation(Sig::new("valid_frame_rejected", site, &short(&e)), json!({"error": e, "origin": c.origin, "trailing_len": trailing.len()}), replay),
            Ok(Ok((out, pulled, reported, finished))) => {
                if out != c.expected || !finished {
                    rec.violation(Sig::new("wrong_output", site, "frame followed by other bytes"), json!({"origin": c.origin, "got_len": out.len(), "finished": finished}), replay);
                } else if pulled != frame_len || reported != frame_len as u64 {
                    rec.violation(Sig::new("consumption", site, if trailing.is_empty() { "no trailing bytes" } else { "trailing bytes" }), json!({"pulled_from_source": pulled, "bytes_read_from_source": reported, "frame_len": frame_len, "origin": c.origin}), replay);
                } else {
                    rec.distinct(fnv_str(&format!("cons|{site}|{}|{}", c.origin.split(':').next().unwrap_or(""), trailing.len().min(5))));
                }
            }
        }
    }
}

/// (b)(c)(d) concatenations with skippable frames, every target size, damaged tails
fn multi_frame(rec: &Recorder, r: &mut Rng, max_each: usize) {
    let nframes = r.usize(1, 6);
    let mut input: Vec<u8> = Vec::new();
    let mut content: Vec<u8> = Vec::new();
    let mut layout: Vec<String> = Vec::new();
    for _ in 0..nframes {
        if r.chance(1, 3) {
            let nib = r.below(16) as u8;
            let n = match r.below(4) {
                0 => 0,
                1 => r.usize(1, 20),
                2 => r.usize(1, 70_000),
                _ => r.usize(1, 400),
            };
            let payload = r.bytes(n);
            input.extend_from_slice(&zspec::frame::skippable_frame(nib, &payload));
            layout.push(format!("skippable(magic nibble {nib}, {n} bytes)"));
        }
        let c = loop {
            let c = frames::any_frame(r, max_each);
            if c.dict.is_none() && c.expected.len() <= max_each.max(1000) * 4 {
                break c;
            }
        };
        input.extend_from_slice(&c.bytes);
        content.extend_from_slice(&c.expected);
        layout.push(format!("frame({} -> {} bytes)", c.bytes.len(), c.expected.len()));
    }
    if r.chance(1, 4) {
        let np = r.usize(0, 30);
        let payload = r.bytes(np);
        input.extend_from_slice(&zspec::frame::skippable_frame(r.below(16) as u8, &payload));
        layout.push("skippable(at the end)".into());
    }
    let total = content.len();
    let replay = json!({"part": "multi_frame", "input": frame_hex(&input), "layout": layout});
    let mk = || {
        let mut d = FrameDecoder::new();
        d.set_max_window_size(u64::MAX);
        d
    };
    // exact and larger targets
    for extra in [0usize, 1, 1000] {
        rec.eval();
        let res = catch(|| {
            let mut d = mk();
            let mut buf = vec![0xA5u8; total + extra];
            let n = d.decode_all(&input, &mut buf).map_err(|e| e.to_string())?;
            Ok::<_, String>((n, buf))
        });
        match res {
            Err(p) => rec.panic_violation(&p, "decode_all", json!({"layout": layout}), replay.clone()),
            Ok(Err(e)) => rec.violation(Sig::new("valid_input_rejected", "decode_all", &short(&e)), json!({"error": e, "layout": layout, "target": total + extra}), replay.clone()),
            Ok(Ok((n, buf))) => {
                if n != total || buf[..n] != content[..] {
                    rec.violation(Sig::new("wrong_total_or_bytes", "decode_all", "concatenation"), json!({"returned": n, "expected_total": total, "layout": layout}), replay.clone());
                } else if buf[n..].iter().any(|b| *b != 0xA5) {
                    rec.violation(Sig::new("wrote_beyond_total", "decode_all", "concatenation"), json!({"layout": layout}), replay.clone());
                } else {
                    rec.distinct(fnv_str(&format!("multi|{}|{extra}", layout.iter().map(|l| &l[..4]).collect::<Vec<_>>().join(""))));
                }
            }
        }
        rec.eval();
        let res = catch(|| {
            let mut d = mk();
            let prefix = b"prefix-kept";
            let mut v: Vec<u8> = Vec::with_capacity(prefix.len() + total + extra);
            v.extend_from_slice(prefix);
            d.decode_all_to_vec(&input, &mut v).map_err(|e| e.to_string())?;
            Ok::<_, String>(v)
        });
        match res {
            Err(p) => rec.panic_violation(&p, "decode_all_to_vec", json!({"layout": layout}), replay.clone()),
            Ok(Err(e)) => rec.violation(Sig::new("valid_input_rejected", "decode_all_to_vec", &short(&e)), json!({"error": e, "layout": layout}), replay.clone()),
            Ok(Ok(v)) => {
                if &v[..11] != b"prefix-kept" || v[11..] != content[..] {
                    rec.violation(Sig::new("wrong_total_or_bytes", "decode_all_to_vec", "concatenation"), json!({"len": v.len(), "expected": total + 11, "layout": layout}), replay.clone());
                }
            }
        }
    }
    // undersized targets: every size for small totals, boundaries and random ones otherwise
    let mut sizes: Vec<usize> = if total <= 600 { (0..total).collect() } else { vec![0, 1, total - 1, total - 2, total / 2] };
    if total > 600 {
        for _ in 0..12 {
            sizes.push(r.usize(0, total - 1));
        }
    }
    for k in sizes {
        if k >= total {
            continue;
        }
        rec.eval();
        let res = catch(|| {
            let mut d = mk();
            // the target is the front part of a larger buffer: nothing behind it may change
            let mut buf = vec![0xA5u8; k + 64];
            let r1 = d.decode_all(&input, &mut buf[..k]).map_err(|e| e.to_string());
            let canary_ok = buf[k..].iter().all(|b| *b == 0xA5);
            let mut d2 = mk();
            let mut v: Vec<u8> = Vec::with_capacity(7 + k);
            v.extend_from_slice(b"keep-me");
            let cap = v.capacity();
            let r2 = d2.decode_all_to_vec(&input, &mut v).map_err(|e| e.to_string());
            (r1, canary_ok, r2, v.len(), v.capacity() == cap, v.starts_with(b"keep-me"))
        });
        match res {
            Err(p) => rec.panic_violation(&p, "undersized target", json!({"target": k, "total": total, "layout": layout}), replay.clone()),
            Ok((r1, canary_ok, r2, vlen, cap_same, prefix_ok)) => {
                if let Ok(n) = r1 {
                    rec.violation(Sig::new("silent_truncation", "decode_all", "undersized target accepted"), json!({"target": k, "total": total, "returned": n, "layout": layout}), replay.clone());
                } else if !canary_ok {
                    rec.violation(Sig::new("out_of_bounds_write", "decode_all", "bytes behind the target changed"), json!({"target": k, "total": total}), replay.clone());
                }
                match r2 {
                    Ok(()) => rec.violation(Sig::new("silent_truncation", "decode_all_to_vec", "undersized capacity accepted"), json!({"extra_capacity": k, "total": total, "len_after": vlen, "layout": layout}), replay.clone()),
                    Err(_) => {
                        if vlen != 7 || !cap_same || !prefix_ok {
                            rec.violation(Sig::new("vector_changed_on_failure", "decode_all_to_vec", "failed call changed the vector"), json!({"len_after": vlen, "capacity_unchanged": cap_same, "prefix_intact": prefix_ok}), replay.clone());
                        }
                    }
                }
                rec.distinct(fnv_str(&format!("under|{}|{}", total.min(700), k * 8 / total.max(1))));
            }
        }
    }
    // damaged tails: trailing garbage and truncated skippable frames must be errors
    for kind in 0..3 {
        rec.eval();
        let mut bad = input.clone();
        let what = match kind {
            0 => {
                // garbage that is not a frame
                let n = r.usize(1, 12);
                let mut g = r.bytes(n);
                if g.len() >= 4 {
                    g[3] = 0x00; // neither the zstd magic nor a skippable one
                }
                bad.extend_from_slice(&g);
                "trailing garbage"
            }
            1 => {
                // skippable frame that announces more than there is
                let pl = r.bytes(20);
                let mut s = zspec::frame::skippable_frame(r.below(16) as u8, &pl);
                let cut = r.usize(1, 19);
                s.truncate(s.len() - cut);
                bad.extend_from_slice(&s);
                "truncated skippable frame"
            }
            _ => {
                // skippable header cut inside magic / length
                let s = zspec::frame::skippable_frame(r.below(16) as u8, &[]);
                let keep = r.usize(1, 7);
                bad.extend_from_slice(&s[..keep]);
                "truncated skippable header"
            }
        };
        let res = catch(|| {
            let mut d = mk();
            let mut buf = vec![0u8; total + 100];
            let r1 = d.decode_all(&bad, &mut buf).map_err(|e| e.to_string());
            let mut d2 = mk();
            let mut v: Vec<u8> = Vec::with_capacity(total + 100);
            let r2 = d2.decode_all_to_vec(&bad, &mut v).map_err(|e| e.to_string());
            (r1, r2, v.len())
        });
        let replay = json!({"part": "damaged_tail", "input": frame_hex(&bad), "what": what, "layout": layout});
        match res {
            Err(p) => rec.panic_violation(&p, what, json!({"layout": layout}), replay),
            Ok((r1, r2, vlen)) => {
                if let Ok(n) = r1 {
                    rec.violation(Sig::new("damaged_input_accepted", "decode_all", what), json!({"returned": n, "layout": layout}), replay.clone());
                }
                if r2.is_ok() || vlen != 0 {
                    rec.violation(Sig::new("damaged_input_accepted", "decode_all_to_vec", what), json!({"ok": r2.is_ok(), "len_after": vlen}), replay);
                } else {
                    rec.distinct(fnv_str(&format!("tail|{what}")));
                }
            }
        }
    }
}

/// a decoder that has completely decoded a checksummed frame before (state of that frame is still in it)
fn used_decoder() -> FrameDecoder {
    static GOOD: std::sync::OnceLock<Vec<u8>> = std::sync::OnceLock::new();
    let g = GOOD.get_or_init(|| crate::refz::compress(b"a frame with a checksum that was decoded before, a frame with a checksum", 3, &[crate::refz::CP::ChecksumFlag(true)], None).unwrap());
    let mut d = FrameDecoder::new();
    d.set_max_window_size(u64::MAX);
    let mut out = [0u8; 200];
    let _ = d.decode_all(g, &mut out);
    d
}

/// (e) strict prefixes of a valid frame
fn prefixes(rec: &Recorder, r: &mut Rng, c: &FrameCase, info: &zspec::walker::FrameInfo) {
    let n = c.bytes.len();
    let mut cuts: Vec<(usize, &'static str)> = Vec::new();
    if n <= 4096 {
        for k in 0..n {
            cuts.push((k, "every byte"));
        }
    } else {
        let mut add = |k: i64, class: &'static str| {
            if k >= 0 && (k as usize) < n {
                cuts.push((k as usize, class));
            }
        };
        for d in -2i64..=2 {
            add(info.header.header_len as i64 + d, "around header end");
            for b in &info.blocks {
                add(b.offset as i64 + d, "around block start");
                add((b.offset + 3) as i64 + d, "around block header end");
                if let Some(l) = &b.literals {
                    add((l.offset + l.header_len) as i64 + d, "around literals header end");
                }
                if let Some(s) = &b.sequences {
                    add(s.offset as i64 + d, "around sequences header");
                    add(s.bitstream_offset as i64 + d, "around bitstream start");
                }
            }
            add(n as i64 - 4 + d, "around checksum");
            add(n as i64 - 1 + d, "last byte");
        }
        for _ in 0..20 {
            cuts.push((r.usize(0, n - 1), "random"));
        }
        // bounded work per frame: a frame with hundreds of blocks has thousands of such points, and every cut is decoded
        // by every front end (one case once needed six minutes of CPU time and was called a hang by the watchdog)
        let budget = ((256usize << 20) / c.expected.len().max(1)).clamp(60, 600);
        if cuts.len() > budget {
            rec.count("frames_whose_cut_points_were_sampled", 1);
            for i in 0..budget {
                let j = r.usize(i, cuts.len() - 1);
                cuts.swap(i, j);
            }
            cuts.truncate(budget);
        }
    }
    for (k, class) in cuts {
        let prefix = &c.bytes[..k];
        rec.eval();
        rec.count(&format!("cut_{class}"), 1);
        let res = catch(|| {
            let mut out: Vec<(&'static str, Result<Vec<u8>, (String, Vec<u8>)>, bool)> = Vec::new();
            // decode_all
            {
                let mut d = FrameDecoder::new();
                d.set_max_window_size(u64::MAX);
                let mut buf = vec![0u8; c.expected.len() + 64];
                let res = d.decode_all(prefix, &mut buf);
                out.push(("decode_all", res.map(|n| buf[..n].to_vec()).map_err(|e| (e.to_string(), Vec::new())), false));
            }
            // decode_all_to_vec
            {
                let mut d = FrameDecoder::new();
                d.set_max_window_size(u64::MAX);
                let mut v = Vec::with_capacity(c.expected.len() + 64);
                let res = d.decode_all_to_vec(prefix, &mut v);
                out.push(("decode_all_to_vec", res.map(|_| v.clone()).map_err(|e| (e.to_string(), v)), false));
            }
            // StreamingDecoder
            {
                let mut delivered = Vec::new();
                let res = match StreamingDecoder::new_with_max_window_size(prefix, u64::MAX) {
                    Err(e) => Err((e.to_string(), Vec::new())),
                    Ok(mut s) => {
                        let mut buf = vec![0u8; 3000];
                        loop {
                            match s.read(&mut buf) {
                                Ok(0) => break Ok(delivered.clone()),
                                Ok(n) => delivered.extend_from_slice(&buf[..n]),
                                Err(e) => break Err((e.to_string(), delivered.clone())),
                            }
                        }
                    }
                };
                out.push(("StreamingDecoder", res, false));
            }
            // decode_blocks
            {
                let mut d = FrameDecoder::new();
                d.set_max_window_size(u64::MAX);
                let mut src = prefix;
                let mut delivered = Vec::new();
                let res = match d.reset(&mut src) {
                    Err(e) => Err((e.to_string(), Vec::new())),
                    Ok(()) => loop {
                        match d.decode_blocks(&mut src, BlockDecodingStrategy::UptoBlocks(1)) {
                            Err(e) => {
                                break Err((e.to_string(), delivered.clone()));
                            }
                            Ok(_) => {
                                if let Some(v) = d.collect() {
                                    delivered.extend_from_slice(&v);
                                }
                                if d.is_finished() {
                                    break Ok(delivered.clone());
                                }
                            }
                        }
                    },
                };
                out.push(("decode_blocks", res, false));
            }
            // decode_blocks on a decoder that completed a checksummed frame before
            {
                let mut d = used_decoder();
                let mut src = prefix;
                let mut delivered = Vec::new();
                let res = match d.reset(&mut src) {
                    Err(e) => Err((e.to_string(), Vec::new())),
                    Ok(()) => loop {
                        match d.decode_blocks(&mut src, BlockDecodingStrategy::All) {
                            Err(e) => {
                                if let Some(v) = d.collect() {
                                    delivered.extend_from_slice(&v);
                                }
                                break Err((e.to_string(), delivered.clone()));
                            }
                            Ok(_) => {
                                if let Some(v) = d.collect() {
                                    delivered.extend_from_slice(&v);
                                }
                                if d.is_finished() {
                                    break Ok(delivered.clone());
                                }
                            }
                        }
                    },
                };
                let finished_after_error = res.is_err() && k >= info.header.header_len && d.is_finished();
                out.push(("decode_blocks on a reused decoder", res, finished_after_error));
            }
            // decode_from_to: cannot know that nothing more will come: never finished, never wrong bytes
            for reused in [false, true] {
                if k < info.header.header_len {
                    continue;
                }
                let mut d = if reused { used_decoder() } else { FrameDecoder::new() };
                d.set_max_window_size(u64::MAX);
                if reused {
                    // decode_from_to only starts a new frame on a fresh decoder: reset on the header first
                    let mut hdr = &prefix[..info.header.header_len];
                    if d.reset(&mut hdr).is_err() {
                        continue;
                    }
                }
                let mut delivered = Vec::new();
                let mut pos = if reused { info.header.header_len } else { 0 };
                let mut target = vec![0u8; 5000];
                let mut idle = 0;
                let res = loop {
                    match d.decode_from_to(&prefix[pos..], &mut target) {
                        Err(e) => break Err((e.to_string(), delivered.clone())),
                        Ok((rd, wr)) => {
                            if rd > prefix.len() - pos {
                                break Err((format!("HARNESS-VISIBLE: read {rd} of {} given", prefix.len() - pos), delivered.clone()));
                            }
                            pos += rd;
                            delivered.extend_from_slice(&target[..wr]);
                            if rd == 0 && wr == 0 {
                                idle += 1;
                                if idle > 2 {
                                    break Ok(delivered.clone());
                                }
                            }
                        }
                    }
                };
                out.push((if reused { "decode_from_to on a reused decoder" } else { "decode_from_to" }, res, d.is_finished()));
            }
            out
        });
        let replay = json!({"part": "prefix", "frame": frame_hex(&c.bytes), "cut": k, "origin": c.origin});
        match res {
            Err(p) => rec.panic_violation(&p, &format!("prefix {class}"), json!({"cut": k, "frame_len": n, "origin": c.origin}), replay),
            Ok(results) => {
                for (front, res, finished) in results {
                    let delivered: &Vec<u8> = match &res {
                        Ok(v) => v,
                        Err((_, v)) => v,
                    };
                    if delivered.len() > c.expected.len() || delivered[..] != c.expected[..delivered.len()] {
                        rec.violation(Sig::new("prefix_wrong_bytes", front, class), json!({"cut": k, "frame_len": n, "delivered": delivered.len(), "origin": c.origin}), replay.clone());
                        continue;
                    }
                    if front == "decode_blocks on a reused decoder" && finished {
                        rec.violation(Sig::new("prefix_finished", front, class), json!({"cut": k, "frame_len": n, "origin": c.origin, "what": "is_finished() is true after a strict prefix failed to decode"}), replay.clone());
                        continue;
                    }
                    if front.starts_with("decode_from_to") {
                        if finished {
                            rec.violation(Sig::new("prefix_finished", front, class), json!({"cut": k, "frame_len": n, "origin": c.origin}), replay.clone());
                        }
                        if let Err((e, _)) = &res {
                            if e.starts_with("HARNESS-VISIBLE") {
                                rec.violation(Sig::new("read_more_than_given", front, class), json!({"what": e, "cut": k}), replay.clone());
                            }
                        }
                        continue;
                    }
                    // an empty input is a valid sequence of zero frames for the multi frame calls
                    if k == 0 && front.starts_with("decode_all") {
                        continue;
                    }
                    if res.is_ok() {
                        rec.violation(Sig::new("prefix_accepted", front, class), json!({"cut": k, "frame_len": n, "delivered": delivered.len(), "content_len": c.expected.len(), "origin": c.origin}), replay.clone());
                    }
                }
                rec.distinct(fnv_str(&format!("prefix|{class}|{}", c.origin.split(' ').take(2).collect::<Vec<_>>().join(" "))));
            }
        }
    }
}

pub fn run(args: &Args) -> i32 {
    let rec = Recorder::new("C10", "exploration", args);
    rec.set_rule("one evaluation = one decode of (a) a frame followed by other bytes through a counting source, (b) a concatenation of frames and skippable frames into an exact / larger / undersized target, (c) a damaged tail, or (d) one strict prefix of a valid frame through all front ends; distinct_nontrivial = distinct (part, front end / cut position class / layout, outcome class) tuples");
    rec.assume("frame lengths and structural boundaries come from the independent frame walker; the empty prefix is excluded for decode_all / decode_all_to_vec (an empty input is a valid sequence of zero frames)");
    if let Err(e) = frames::self_test(args.seed) {
        rec.inconclusive(&e);
        return rec.finish();
    }
    let n = args.vol(400, 20_000);
    par_cases(&rec, 10, n, |i, r| {
        // (a) + (e) on one frame
        let small = i % 2 == 0;
        let c = loop {
            let c = if small { frames::any_frame(r, 2500) } else { frames::any_frame(r, 200_000) };
            if c.dict.is_none() && c.expected.len() <= 1 << 20 && (!small || c.bytes.len() <= 4096) {
                break c;
            }
        };
        let info = match frames::walk(&c.bytes, None) {
            Ok(i) => i,
            Err(_) => {
                rec.count("frames_the_model_rejects", 1);
                return;
            }
        };
        if info.frame_len != c.bytes.len() {
            rec.inconclusive("harness: generated frame has trailing bytes");
            return;
        }
        consumption(&rec, r, &c, info.frame_len);
        prefixes(&rec, r, &c, &info);
        if i < 3 {
            rec.sample(json!({"part": "prefixes", "origin": c.origin, "frame_len": c.bytes.len(), "cuts": if c.bytes.len() <= 4096 { "every byte" } else { "structural boundaries +-2 and random" }}));
        }
        // (b)(c)(d)
        multi_frame(&rec, r, if small { 300 } else { 60_000 });
    });
    rec.set_extra("exhaustive", json!(false));
    rec.finish()
}
