//! The reference implementation (libzstd 1.5.7 through the zstd / zstd-safe / zstd-sys crates):
//! conforming compressor with all its knobs, reference decoder, dictionary trainer.

use std::io::{Read, Write};
use zstd_safe::{CCtx, CParameter, InBuffer, OutBuffer};

pub use zstd_safe::CParameter as CP;

fn err(code: usize) -> String {
    zstd_safe::get_error_name(code).to_string()
}

/// One-shot compression with arbitrary advanced parameters
pub fn compress(data: &[u8], level: i32, params: &[CParameter], dict: Option<&[u8]>) -> Result<Vec<u8>, String> {
    let mut cctx = CCtx::create();
    cctx.set_parameter(CParameter::CompressionLevel(level)).map_err(err)?;
    for p in params {
        cctx.set_parameter(*p).map_err(err)?;
    }
    if let Some(d) = dict {
        cctx.load_dictionary(d).map_err(err)?;
    }
    let mut out: Vec<u8> = Vec::with_capacity(zstd_safe::compress_bound(data.len()) + 64);
    cctx.compress2(&mut out, data).map_err(err)?;
    Ok(out)
}

/// Streaming compression with flush / end-of-block decisions at the given input positions
pub fn compress_stream(data: &[u8], level: i32, params: &[CParameter], flush_at: &[usize], pledge: bool, dict: Option<&[u8]>) -> Result<Vec<u8>, String> {
    let mut cctx = CCtx::create();
    cctx.set_parameter(CParameter::CompressionLevel(level)).map_err(err)?;
    for p in params {
        cctx.set_parameter(*p).map_err(err)?;
    }
    if let Some(d) = dict {
        cctx.load_dictionary(d).map_err(err)?;
    }
    if pledge {
        cctx.set_pledged_src_size(Some(data.len() as u64)).map_err(err)?;
    }
    let mut out: Vec<u8> = Vec::new();
    let mut buf = vec![0u8; 1 << 17];
    let mut pos = 0usize;
    let mut cuts: Vec<usize> = flush_at.iter().copied().filter(|c| *c < data.len()).collect();
    cuts.sort();
    cuts.dedup();
    cuts.push(data.len());
    for cut in cuts {
        let mut input = InBuffer::around(&data[pos..cut]);
        let last = cut == data.len();
        let directive = if last { zstd_safe::zstd_sys::ZSTD_EndDirective::ZSTD_e_end } else { zstd_safe::zstd_sys::ZSTD_EndDirective::ZSTD_e_flush };
        loop {
            let (remaining, n) = {
                let mut ob = OutBuffer::around(&mut buf[..]);
                let remaining = cctx.compress_stream2(&mut ob, &mut input, directive).map_err(err)?;
                (remaining, ob.pos())
            };
            out.extend_from_slice(&buf[..n]);
            if remaining == 0 && input.pos == input.src.len() {
                break;
            }
        }
        pos = cut;
    }
    Ok(out)
}

/// Reference decoder, streaming (works without a content size), windows up to 2 GiB
pub fn decompress(frame: &[u8]) -> Result<Vec<u8>, String> {
    let mut d = zstd::stream::Decoder::new(frame).map_err(|e| e.to_string())?;
    d.window_log_max(31).map_err(|e| e.to_string())?;
    let mut out = Vec::new();
    d.read_to_end(&mut out).map_err(|e| e.to_string())?;
    Ok(out)
}

/// Reference decoder for exactly one frame; trailing bytes are an error
pub fn decompress_single(frame: &[u8]) -> Result<Vec<u8>, String> {
    let mut d = zstd::stream::Decoder::new(frame).map_err(|e| e.to_string())?.single_frame();
    d.window_log_max(31).map_err(|e| e.to_string())?;
    let mut out = Vec::new();
    d.read_to_end(&mut out).map_err(|e| e.to_string())?;
    Ok(out)
}

/// One shot reference decoding into a buffer of known capacity: no window buffer is needed, so frames
/// declaring windows above 2 GiB can be decoded too
pub fn decompress_oneshot(frame: &[u8], capacity: usize) -> Result<Vec<u8>, String> {
    let mut out: Vec<u8> = Vec::with_capacity(capacity + 64);
    let mut dctx = zstd_safe::DCtx::create();
    dctx.set_parameter(zstd_safe::DParameter::WindowLogMax(31)).map_err(err)?;
    dctx.decompress(&mut out, frame).map_err(err)?;
    Ok(out)
}

/// streaming single frame decode, falling back to one shot decoding when the window is too large for streaming
pub fn decompress_expecting(frame: &[u8], expected_len: usize) -> Result<Vec<u8>, String> {
    match decompress_single(frame) {
        Ok(d) => Ok(d),
        Err(e) if e.contains("too much memory") => decompress_oneshot(frame, expected_len),
        Err(e) => Err(e),
    }
}

pub fn decompress_with_dict(frame: &[u8], dict: &[u8]) -> Result<Vec<u8>, String> {
    let mut d = zstd::stream::Decoder::with_dictionary(frame, dict).map_err(|e| e.to_string())?;
    d.window_log_max(31).map_err(|e| e.to_string())?;
    let mut out = Vec::new();
    d.read_to_end(&mut out).map_err(|e| e.to_string())?;
    Ok(out)
}

/// Length of the first frame in `src` according to the reference implementation
pub fn frame_len(src: &[u8]) -> Result<usize, String> {
    zstd_safe::find_frame_compressed_size(src).map_err(err)
}

/// ZDICT_trainFromBuffer
pub fn train_dict(samples: &[Vec<u8>], max_size: usize) -> Result<Vec<u8>, String> {
    zstd::dict::from_samples(samples, max_size).map_err(|e| e.to_string())
}

#[derive(Clone, Copy, Debug)]
pub enum SeqParam {
    WindowLog(u32),
    Checksum(bool),
    MinMatch(u32),
    /// sequences with offset 0 / match length 0 end a block, their literal length are the block's last literals
    ExplicitBlockDelimiters(bool),
    RepcodeResolution(bool),
    ContentSize(bool),
}

/// (offset, literal length, match length) triples for ZSTD_compressSequences; without explicit block
/// delimiters the last literals are implied
pub fn compress_sequences(src: &[u8], seqs: &[(u32, u32, u32)], level: i32, params: &[SeqParam]) -> Result<Vec<u8>, String> {
    use zstd_safe::zstd_sys as sys;
    use zstd_safe::zstd_sys::ZSTD_cParameter as P;
    // SAFETY: plain FFI calls with valid pointers and lengths; the context is freed below on every path
    unsafe {
        let cctx = sys::ZSTD_createCCtx();
        if cctx.is_null() {
            return Err("ZSTD_createCCtx failed".into());
        }
        let set = |p: P, v: i32| -> Result<(), String> {
            let r = sys::ZSTD_CCtx_setParameter(cctx, p, v);
            if sys::ZSTD_isError(r) != 0 {
                Err(err(r))
            } else {
                Ok(())
            }
        };
        let mut res = set(P::ZSTD_c_compressionLevel, level).and_then(|_| set(P::ZSTD_c_experimentalParam12, 1));
        for p in params {
            if res.is_err() {
                break;
            }
            res = match *p {
                SeqParam::WindowLog(w) => set(P::ZSTD_c_windowLog, w as i32),
                SeqParam::Checksum(b) => set(P::ZSTD_c_checksumFlag, b as i32),
                SeqParam::MinMatch(m) => set(P::ZSTD_c_minMatch, m as i32),
                SeqParam::ExplicitBlockDelimiters(b) => set(P::ZSTD_c_experimentalParam11, b as i32),
                SeqParam::RepcodeResolution(b) => set(P::ZSTD_c_experimentalParam19, if b { 1 } else { 2 }),
                SeqParam::ContentSize(b) => set(P::ZSTD_c_contentSizeFlag, b as i32),
            };
        }
        if let Err(e) = res {
            sys::ZSTD_freeCCtx(cctx);
            return Err(e);
        }
        let raw: Vec<sys::ZSTD_Sequence> = seqs
            .iter()
            .map(|(of, ll, ml)| sys::ZSTD_Sequence { offset: *of, litLength: *ll, matchLength: *ml, rep: 0 })
            .collect();
        let cap = zstd_safe::compress_bound(src.len()) + 1024;
        let mut out = vec![0u8; cap];
        let n = sys::ZSTD_compressSequences(cctx, out.as_mut_ptr() as *mut _, cap, raw.as_ptr(), raw.len(), src.as_ptr() as *const _, src.len());
        sys::ZSTD_freeCCtx(cctx);
        if sys::ZSTD_isError(n) != 0 {
            return Err(err(n));
        }
        out.truncate(n);
        Ok(out)
    }
}

/// a writer based compressor, used for multi frame streams
pub fn simple(data: &[u8], level: i32) -> Vec<u8> {
    let mut e = zstd::stream::Encoder::new(Vec::new(), level).unwrap();
    e.write_all(data).unwrap();
    e.finish().unwrap()
}
