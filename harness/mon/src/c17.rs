//! C17 Built-in match finder reports only true, in-window matches that tile the block.
//!
//! The real `MatchGeneratorDriver` is driven through the public `Matcher` trait exactly like the
//! frame compressor drives it (get_next_space -> fill -> commit_space -> start_matching |
//! skip_matching, reset between frames). An online checker keeps its own copy of everything that
//! was committed since the last reset and judges every reported sequence.

use crate::common::*;
use rayon::prelude::*;
use ruzstd::encoding::{CompressionLevel, MatchGeneratorDriver, Matcher, Sequence};
use serde_json::{json, Value};

#[derive(Clone, Debug)]
pub struct Block {
    pub data: Vec<u8>,
    pub skip: bool,
    /// call reset() before this block (a new frame)
    pub reset_before: bool,
}

#[derive(Default)]
pub struct Stats {
    pub sequences: u64,
    pub matches: u64,
    pub cross_block_matches: u64,
    pub blocks: u64,
    pub longest_match: usize,
    pub max_offset: usize,
}

/// Run one history on a fresh driver. Err((kind, message)) describes the first violation.
pub fn run_history(slice_size: usize, max_slices: usize, blocks: &[Block], stats: &mut Stats) -> Result<(), (String, String)> {
    let mut m = MatchGeneratorDriver::verif_new(slice_size, max_slices);
    m.reset(CompressionLevel::Fastest);
    // everything committed since the last reset
    let mut hist: Vec<u8> = Vec::new();
    for (bi, b) in blocks.iter().enumerate() {
        if b.reset_before {
            m.reset(CompressionLevel::Fastest);
            hist.clear();
        }
        let window = m.window_size() as usize;
        if window != slice_size * max_slices {
            return Err(("window_size".into(), format!("window_size() = {window}, configured {slice_size} x {max_slices}")));
        }
        let mut space = m.get_next_space();
        if space.len() < b.data.len() || space.len() < slice_size {
            return Err(("space".into(), format!("get_next_space returned {} bytes, slice size {}", space.len(), slice_size)));
        }
        space[..b.data.len()].copy_from_slice(&b.data);
        space.truncate(b.data.len());
        m.commit_space(space);
        if m.get_last_space() != &b.data[..] {
            return Err(("last_space".into(), format!("get_last_space() is not block {bi}")));
        }
        let base = hist.len();
        hist.extend_from_slice(&b.data);
        stats.blocks += 1;
        if b.skip {
            m.skip_matching();
            continue;
        }
        let mut cursor = 0usize;
        let mut literals_seen = false;
        let mut err: Option<(String, String)> = None;
        m.start_matching(|seq| {
            if err.is_some() {
                return;
            }
            stats.sequences += 1;
            if literals_seen {
                err = Some(("literals_not_last".into(), format!("block {bi}: a sequence follows the final Literals")));
                return;
            }
            let (literals, m_off, m_len) = match seq {
                Sequence::Literals { literals } => {
                    literals_seen = true;
                    (literals, 0, 0)
                }
                Sequence::Triple { literals, offset, match_len } => (literals, offset, match_len),
            };
            if cursor + literals.len() > b.data.len() || literals != &b.data[cursor..cursor + literals.len()] {
                err = Some(("bad_literals".into(), format!("block {bi} cursor {cursor}: literal run of {} bytes is not the input at the cursor", literals.len())));
                return;
            }
            cursor += literals.len();
            if literals_seen {
                if literals.is_empty() {
                    err = Some(("empty_literals".into(), format!("block {bi}: empty final Literals")));
                }
                return;
            }
            stats.matches += 1;
            let pos = base + cursor;
            if m_len < 3 {
                err = Some(("short_match".into(), format!("block {bi} cursor {cursor}: match length {m_len}")));
                return;
            }
            if m_off == 0 {
                err = Some(("offset_zero".into(), format!("block {bi} cursor {cursor}: offset 0")));
                return;
            }
            if m_off > window {
                err = Some(("offset_gt_window".into(), format!("block {bi} cursor {cursor}: offset {m_off} > window_size() {window}")));
                return;
            }
            if m_off > pos {
                err = Some(("offset_gt_history".into(), format!("block {bi} cursor {cursor}: offset {m_off} but only {pos} bytes precede")));
                return;
            }
            if cursor + m_len > b.data.len() {
                err = Some(("tiling".into(), format!("block {bi} cursor {cursor}: match of {m_len} runs past the end of the block ({})", b.data.len())));
                return;
            }
            for i in 0..m_len {
                if hist[pos - m_off + i] != b.data[cursor + i] {
                    err = Some(("false_match".into(), format!("block {bi} cursor {cursor}: offset {m_off} len {m_len}: byte {i} differs")));
                    return;
                }
            }
            if m_off > cursor {
                stats.cross_block_matches += 1;
            }
            stats.longest_match = stats.longest_match.max(m_len);
            stats.max_offset = stats.max_offset.max(m_off);
            cursor += m_len;
        });
        if let Some(e) = err {
            return Err(e);
        }
        if cursor != b.data.len() {
            return Err(("tiling".into(), format!("block {bi}: sequences cover {cursor} of {} bytes", b.data.len())));
        }
    }
    Ok(())
}

fn history_json(slice: usize, slices: usize, blocks: &[Block]) -> Value {
    json!({
        "slice_size": slice,
        "max_slices": slices,
        "blocks": blocks.iter().map(|b| json!({"data": hex(&b.data), "skip": b.skip, "reset_before": b.reset_before})).collect::<Vec<_>>(),
    })
}

fn judge(rec: &Recorder, slice: usize, slices: usize, blocks: &[Block], stats: &mut Stats) {
    rec.eval();
    let res = catch(|| run_history(slice, slices, blocks, stats));
    let replay = || {
        let total: usize = blocks.iter().map(|b| b.data.len()).sum();
        if total <= 300_000 {
            history_json(slice, slices, blocks)
        } else {
            json!({"note": "history too large to inline, re-run with the recorded seed", "slice_size": slice, "max_slices": slices})
        }
    };
    match res {
        Ok(Ok(())) => {}
        Ok(Err((kind, msg))) => rec.violation(Sig::new(&kind, "MatchGeneratorDriver", &format!("slices={}", slices.min(2))), json!({"what": msg, "slice_size": slice, "max_slices": slices}), replay()),
        Err(p) => rec.violation(Sig::new("panic", &p.site(), &format!("slices={}", slices.min(2))), json!({"panic": p.what, "slice_size": slice, "max_slices": slices}), replay()),
    }
}

fn gen_block_data(r: &mut Rng, len: usize, earlier: &[u8]) -> Vec<u8> {
    let mut v = Vec::with_capacity(len);
    let alpha = *r.pick(&[1u64, 2, 2, 3, 4, 16, 256]);
    while v.len() < len {
        match r.below(6) {
            // copy from earlier data (creates matches across blocks and near the window edge)
            0 | 1 if !earlier.is_empty() => {
                let l = r.usize(1, 40.min(earlier.len()));
                let s = r.usize(0, earlier.len() - l);
                v.extend_from_slice(&earlier[s..s + l]);
            }
            // copy from this block
            2 if v.len() > 4 => {
                let l = r.usize(1, 30.min(v.len()));
                let s = r.usize(0, v.len() - l);
                let c = v[s..s + l].to_vec();
                v.extend_from_slice(&c);
            }
            // a run
            3 => {
                let b = r.below(alpha) as u8;
                v.extend(std::iter::repeat_n(b, r.usize(1, 20)));
            }
            _ => {
                for _ in 0..r.usize(1, 12) {
                    v.push(r.below(alpha) as u8);
                }
            }
        }
    }
    v.truncate(len);
    v
}

pub fn run(args: &Args) -> i32 {
    let rec = Recorder::new("C17", "exploration", args);
    rec.set_rule("one evaluation = one history (sequence of blocks with skip/match/reset decisions) pushed through the real MatchGeneratorDriver with every reported sequence judged; distinct_nontrivial = distinct histories (hash of configuration + blocks + decisions) in which at least one match was reported");
    rec.assume("blocks are non-empty and not larger than the slice size, as the frame compressor guarantees");

    if let Some(path) = &args.replay {
        let doc: Value = std::fs::read_to_string(path).ok().and_then(|t| serde_json::from_str(&t).ok()).unwrap_or(Value::Null);
        let rp = &doc["replay"];
        if let Some(bl) = rp["blocks"].as_array() {
            let blocks: Vec<Block> = bl
                .iter()
                .map(|b| Block { data: unhex(b["data"].as_str().unwrap_or("")), skip: b["skip"].as_bool().unwrap_or(false), reset_before: b["reset_before"].as_bool().unwrap_or(false) })
                .collect();
            let mut st = Stats::default();
            judge(&rec, rp["slice_size"].as_u64().unwrap_or(8) as usize, rp["max_slices"].as_u64().unwrap_or(1) as usize, &blocks, &mut st);
            rec.distinct(1);
            rec.distinct(2);
        } else {
            rec.inconclusive("replay file has no inline history: re-run the check with the recorded seed");
        }
        return rec.finish();
    }

    let totals = std::sync::Mutex::new(Stats::default());
    let absorb = |s: Stats| {
        let mut t = totals.lock().unwrap();
        t.sequences += s.sequences;
        t.matches += s.matches;
        t.cross_block_matches += s.cross_block_matches;
        t.blocks += s.blocks;
        t.longest_match = t.longest_match.max(s.longest_match);
        t.max_offset = t.max_offset.max(s.max_offset);
    };

    // ---------- exhaustive: alphabet {0,1}, two blocks of 1..=max_len bytes, every skip/match choice, windows of 1..=3 slices
    let max_len = if args.thorough() { 10 } else { 8 };
    let slice = max_len;
    let firsts: Vec<(usize, u32)> = (1..=max_len).flat_map(|l| (0..(1u32 << l)).map(move |x| (l, x))).collect();
    let n_exh: u64 = firsts
        .par_iter()
        .map(|&(l1, x1)| {
            let _g = case_guard(170, (l1 as u64) << 32 | u64::from(x1));
            let mut st = Stats::default();
            let mut n = 0u64;
            let b1: Vec<u8> = (0..l1).map(|i| ((x1 >> i) & 1) as u8).collect();
            for l2 in 0..=max_len {
                for x2 in 0..(1u32 << l2) {
                    let b2: Vec<u8> = (0..l2).map(|i| ((x2 >> i) & 1) as u8).collect();
                    for slices in 1..=3usize {
                        for choice in 0..4u8 {
                            if l2 == 0 && (choice & 2 != 0 || slices > 1) {
                                continue;
                            }
                            let mut blocks = vec![Block { data: b1.clone(), skip: choice & 1 != 0, reset_before: false }];
                            if l2 > 0 {
                                blocks.push(Block { data: b2.clone(), skip: choice & 2 != 0, reset_before: false });
                            }
                            n += 1;
                            let before = st.matches;
                            judge(&rec, slice, slices, &blocks, &mut st);
                            if st.matches > before {
                                rec.distinct(fnv(format!("{slice}/{slices}/{choice}/{l1}/{x1}/{l2}/{x2}").as_bytes()));
                            }
                        }
                    }
                }
            }
            rec.absorb_feats();
            absorb(st);
            n
        })
        .sum();
    rec.count("exhaustive_histories", n_exh);
    rec.set_extra("exhaustive_scope", json!({"alphabet": 2, "blocks": 2, "max_block_len": max_len, "window_slices": [1, 2, 3], "complete": true}));

    // ---------- random: small alphabets, cross block copies, eviction, skip, reset and reuse
    let n = args.vol(400_000, 20_000_000);
    par_cases(&rec, 171, n, |i, r| {
        let slice = *r.pick(&[5usize, 8, 16, 16, 64, 200, 1024, 4096]);
        let slices = r.usize(1, 8);
        let nblocks = r.usize(1, 14);
        let mut blocks = Vec::new();
        let mut earlier: Vec<u8> = Vec::new();
        for _ in 0..nblocks {
            let len = match r.below(4) {
                0 => slice,
                1 => r.usize(1, slice.min(7)),
                _ => r.usize(1, slice),
            };
            let reset_before = r.chance(1, 9);
            if reset_before {
                // data from before the reset may still be in recycled buffers: keep `earlier` on purpose so
                // that the new frame repeats old content and a stale entry would produce a false match
            }
            let data = gen_block_data(r, len, &earlier);
            earlier.extend_from_slice(&data);
            blocks.push(Block { data, skip: r.chance(1, 5), reset_before });
        }
        let mut st = Stats::default();
        judge(&rec, slice, slices, &blocks, &mut st);
        if st.matches > 0 {
            let mut h = fnv(&[slice as u8, slices as u8]);
            for b in &blocks {
                h ^= fnv(&b.data).rotate_left(7) ^ (b.skip as u64) << 1 ^ (b.reset_before as u64);
                h = h.wrapping_mul(0x100000001b3);
            }
            rec.distinct(h);
        }
        if i < 3 {
            rec.sample(json!({"slice_size": slice, "max_slices": slices, "blocks": blocks.iter().map(|b| json!({"len": b.data.len(), "skip": b.skip, "reset_before": b.reset_before, "head": hex(&b.data[..b.data.len().min(16)])})).collect::<Vec<_>>(), "matches_reported": st.matches}));
        }
        absorb(st);
    });

    // ---------- full size blocks (128 KiB slices, what the frame compressor uses), sampled
    let n = args.vol(200, 8000);
    par_cases(&rec, 172, n, |_, r| {
        let slice = 128 * 1024;
        let slices = *r.pick(&[1usize, 1, 2, 4]);
        let nblocks = r.usize(1, 5);
        let mut blocks = Vec::new();
        let mut earlier: Vec<u8> = Vec::new();
        for _ in 0..nblocks {
            let len = match r.below(3) {
                0 => slice,
                _ => r.usize(1, slice),
            };
            let mut data = Vec::with_capacity(len);
            let alpha = *r.pick(&[2u64, 4, 20, 256]);
            while data.len() < len {
                match r.below(4) {
                    0 if !earlier.is_empty() => {
                        let l = r.usize(5, 3000.min(earlier.len()));
                        let s = r.usize(0, earlier.len() - l);
                        data.extend_from_slice(&earlier[s..s + l]);
                    }
                    1 if data.len() > 100 => {
                        let l = r.usize(5, 600.min(data.len()));
                        let s = r.usize(0, data.len() - l);
                        let c = data[s..s + l].to_vec();
                        data.extend_from_slice(&c);
                    }
                    _ => {
                        for _ in 0..r.usize(1, 400) {
                            data.push(r.below(alpha) as u8);
                        }
                    }
                }
            }
            data.truncate(len);
            earlier.extend_from_slice(&data);
            blocks.push(Block { data, skip: r.chance(1, 6), reset_before: r.chance(1, 8) });
        }
        let mut st = Stats::default();
        judge(&rec, slice, slices, &blocks, &mut st);
        if st.matches > 0 {
            let mut h = 17u64;
            for b in &blocks {
                h = (h ^ fnv(&b.data)).wrapping_mul(0x100000001b3);
            }
            rec.distinct(h);
        }
        absorb(st);
    });

    let t = totals.lock().unwrap();
    rec.set_extra("sequences_checked", json!(t.sequences));
    rec.set_extra("matches_checked", json!(t.matches));
    rec.set_extra("matches_reaching_into_earlier_blocks", json!(t.cross_block_matches));
    rec.set_extra("blocks", json!(t.blocks));
    rec.set_extra("longest_match", json!(t.longest_match));
    rec.set_extra("largest_offset", json!(t.max_offset));
    rec.set_extra("exhaustive", json!(false));
    if t.matches == 0 || t.cross_block_matches == 0 {
        rec.inconclusive("no (cross block) match was ever reported: the workload observed nothing");
    }
    for f in ["mg_match", "mg_match_older_entry", "mg_collision_rejected", "mg_evict", "mg_pool_reuse"] {
        if rec.feat(f) == 0 {
            rec.inconclusive(&format!("coverage floor: code path {f} was never executed"));
        }
    }
    rec.finish()
}
