//! C05 Decoder memory is bounded by the window limit plus one block, for any input.
//!
//! Monitors, per decode call: growth of the held decoded bytes (hooked buffer length) against
//! `budget + 128 KiB`, absolute held bytes for the streaming reader against
//! `window + request + 128 KiB`, blocks regenerating more than 128 KiB being accepted, and the peak
//! live heap of the call sequence (counting allocator) against a linear envelope. Cases run in child
//! processes with an allocation cap so that an expanding frame cannot take the machine down; a child
//! that hits the cap identifies the case that broke the bound.

use crate::calloc;
use crate::common::*;
use crate::frames;
use crate::refz::{self, CP};
use crate::wl;
use ruzstd::decoding::{BlockDecodingStrategy, FrameDecoder, StreamingDecoder};
use serde_json::{json, Value};
use std::io::Read;
use std::process::{Command, Stdio};
use zspec::frame::HeaderSpec;
use zspec::synth::{self, BlockPlan, CompressedPlan, CountForm, FramePlan, LitPlan, OffsetPlan, SeqPlan, TableMode};

const BLOCK: usize = 128 * 1024;
/// no case here legitimately needs more than this (windows are <= 64 MiB)
const CAP: u64 = 1 << 30;

struct Case {
    name: String,
    frame: Vec<u8>,
    /// the frame contains a block that regenerates more than 128 KiB: it has to be refused
    oversized_block: bool,
    /// the frame is valid (reference decoder agrees): no error is acceptable
    valid: bool,
    driver: usize,
    param: usize,
    /// decode this frame (larger window) completely on the same decoder first: the bound must hold on reused decoders too
    reuse_after: Option<Vec<u8>>,
    /// window limit configured on the decoder before the frame (None: the default of 128 MiB)
    limit: Option<usize>,
    /// the limit is lowered only after the decoder has decoded its first frame (`reuse_after`) with the default limit
    limit_late: bool,
}

/// hand-built frame: window descriptor byte, optional Frame_Content_Size claim (two byte field, not single segment), blocks
fn raw_frame(window_descriptor: u8, fcs_claim: Option<u16>, blocks: &[(u8, u32, Vec<u8>)]) -> Vec<u8> {
    let mut f = vec![0x28, 0xB5, 0x2F, 0xFD];
    match fcs_claim {
        // FCS flag 1: two bytes holding value - 256
        Some(v) => {
            f.push(0x40);
            f.push(window_descriptor);
            f.extend_from_slice(&v.to_le_bytes());
        }
        None => {
            f.push(0x00);
            f.push(window_descriptor);
        }
    }
    for (i, (btype, size, body)) in blocks.iter().enumerate() {
        let last = (i + 1 == blocks.len()) as u32;
        let h = last | (u32::from(*btype) << 1) | (size << 3);
        f.extend_from_slice(&h.to_le_bytes()[..3]);
        f.extend_from_slice(body);
    }
    f
}

const DRIVERS: [&str; 5] = ["UptoBlocks(1)", "UptoBytes(n)", "UptoBlocks(k)", "StreamingDecoder::read(n)", "decode_all"];

/// window 1 KiB, a small raw block, then one compressed block with `n` RLE-mode sequences of maximal match length
fn bomb(n: usize, ml: u32) -> Vec<u8> {
    let seqs: Vec<SeqPlan> = (0..n).map(|_| SeqPlan { ll: 0, ml, offset: OffsetPlan::Repeat(1) }).collect();
    let plan = FramePlan {
        header: HeaderSpec { window_descriptor: Some(0), ..Default::default() },
        blocks: vec![
            BlockPlan::Raw(b"abcd".to_vec()),
            BlockPlan::Compressed(CompressedPlan { literals: Vec::new(), lit: LitPlan::Raw { size_format: None }, seqs, ll_mode: TableMode::Rle, of_mode: TableMode::Rle, ml_mode: TableMode::Rle, seq_count_form: CountForm::Auto }),
        ],
        dict: None,
        checksum_override: None,
    };
    synth::synthesise(&plan).bytes
}

fn build_cases(args: &Args) -> Vec<Case> {
    let mut frames_: Vec<(String, Vec<u8>, bool, bool)> = Vec::new();
    // hostile, well formed: one compressed block expanding far beyond 128 KiB
    for (n, ml) in [(2usize, 131074u32), (10, 131074), (100, 131074), (1000, 131074), (98047, 131074), (3, 65539), (40000, 35)] {
        frames_.push((format!("bomb: {n} sequences ll=0 ml={ml} repeat offset, RLE tables, window 1 KiB"), bomb(n, ml), true, false));
    }
    for (name, plan) in synth::hostile_matrix() {
        let relevant = name.starts_with("bomb_") || name.starts_with("block_regen") || name.starts_with("raw_literals") || name.starts_with("rle_literals") || name.starts_with("huffman_literals") || name.starts_with("ll_code_35") || name == "rle_block_128k_plus_1" || name == "rle_block_2mib" || name == "raw_block_128k_plus_1";
        if relevant {
            let s = synth::synthesise(&plan);
            frames_.push((format!("hostile plan: {name}"), s.bytes, true, false));
        }
    }
    // RLE and raw blocks whose header announces more than 128 KiB (an RLE block costs four bytes whatever it announces)
    for (wd, wname) in [(0x00u8, "1 KiB"), (0x68, "8 MiB")] {
        for size in [131_073u32, 200_000, 1 << 20, (1 << 21) - 1] {
            frames_.push((format!("oversized block: RLE block announcing {size} bytes, window {wname}"), raw_frame(wd, None, &[(0, 4, b"abcd".to_vec()), (1, size, vec![0x77])]), true, false));
            frames_.push((format!("oversized block: 20 RLE blocks announcing {size} bytes each, window {wname}"), raw_frame(wd, None, &(0..20).map(|_| (1u8, size, vec![0x77u8])).collect::<Vec<_>>()), true, false));
        }
        frames_.push((format!("oversized block: raw block of 131073 bytes, window {wname}"), raw_frame(wd, None, &[(0, 131_073, vec![0x55; 131_073])]), true, false));
    }
    // benign: reference compressor at every window size with content larger than the window, several blocks
    let mut r = Rng::for_case(args.seed, 5, 0);
    let n_benign = args.vol(40, 600);
    for i in 0..n_benign {
        let wlog = 10 + (i % 17) as u32; // 1 KiB .. 64 MiB
        let len = match r.below(3) {
            0 => r.usize(1, 5000),
            1 => (1usize << wlog.min(22)) * 2 + r.usize(0, 100_000),
            _ => r.size(1, 3_000_000),
        };
        let shape = wl::random_shape(&mut r);
        let data = wl::gen(&mut r, shape, len);
        let level = *r.pick(&[1i32, 3, 9, 19]);
        let frame = refz::compress(&data, level, &[CP::WindowLog(wlog), CP::ChecksumFlag(i % 2 == 0)], None).expect("reference compressor");
        frames_.push((format!("libzstd: {shape:?} {len} bytes level {level} wlog {wlog}"), frame, false, true));
    }
    // small windows with a lot of content: these are the ones where retaining too much shows
    for (k, wlog) in [10u32, 12, 14, 16].into_iter().enumerate() {
        let len = (3 << 19) + 1000 * k;
        let shape = *r.pick(&[wl::Shape::Text, wl::Shape::Skewed, wl::Shape::RepeatsNear]);
        let data = wl::gen(&mut r, shape, len);
        let frame = refz::compress(&data, 3, &[CP::WindowLog(wlog)], None).expect("reference compressor");
        frames_.push((format!("libzstd: 1.5 MiB of content, wlog {wlog}"), frame, false, true));
    }
    // benign synthesised frames (maximal blocks, RLE blocks, ...)
    for c in frames::synth_matrix().iter() {
        // frames declaring windows above the default limit are legitimately refused: not part of this workload
        let window = zspec::frame::parse_frame_header(&c.bytes).map(|h| h.window_size).unwrap_or(u64::MAX);
        if c.dict.is_none() && c.expected.len() <= (8 << 20) && window <= (64 << 20) {
            frames_.push((c.origin.clone(), c.bytes.clone(), false, true));
        }
    }
    // a small frame declaring a 4 MiB window (content 5000 bytes)
    // (streaming without a pledged size, otherwise the reference compressor shrinks the window to the content)
    let big_first = refz::compress_stream(&wl::gen(&mut r, wl::Shape::Text, 5000), 3, &[CP::WindowLog(22)], &[2500], false, None).expect("reference compressor");
    assert_eq!(zspec::frame::parse_frame_header(&big_first).map(|h| h.window_size).unwrap_or(0), 4 << 20, "harness: first frame does not declare a 4 MiB window");
    let mut cases = Vec::new();
    for (fi, (name, frame, oversized, valid)) in frames_.into_iter().enumerate() {
        // every frame with two or three drivers, rotating
        let picks: Vec<usize> = if oversized { (0..5).collect() } else { vec![fi % 5, (fi + 2) % 5] };
        for d in picks {
            let param = match d {
                1 => *r.pick(&[1usize, 1000, 100_000, 1 << 20]),
                2 => *r.pick(&[2usize, 5]),
                3 => *r.pick(&[1usize, 100, 4096, 1 << 20]),
                _ => 0,
            };
            cases.push(Case { name: name.clone(), frame: frame.clone(), oversized_block: oversized, valid, driver: d, param, reuse_after: None, limit: None, limit_late: false });
        }
        // the same frame on a decoder that has seen a frame with a much larger window before
        let window = zspec::frame::parse_frame_header(&frame).map(|h| h.window_size).unwrap_or(u64::MAX);
        let many = name.starts_with("libzstd: 1.5 MiB");
        for d in [0usize, 1, 3] {
            if !(window <= (64 << 10) && (many || (fi % 2 == 0 && d == [0usize, 1, 3][fi / 2 % 3]))) {
                continue;
            }
            let param = match d {
                1 => 1000,
                3 => 4096,
                _ => 0,
            };
            cases.push(Case { name: format!("{name} [on a decoder reused after a frame with a 4 MiB window]"), frame: frame.clone(), oversized_block: oversized, valid, driver: d, param, reuse_after: Some(big_first.clone()), limit: None, limit_late: false });
        }
    }
    // the configured window limit: frames declaring a window far above it - whatever content size they claim - and then
    // delivering much more than the limit (96 RLE blocks = 12 MiB in 390 bytes); and legal frames at the limit
    let rle_blocks: Vec<(u8, u32, Vec<u8>)> = (0..96).map(|_| (1u8, BLOCK as u32, vec![0x33u8])).collect();
    let small_first = raw_frame(0x00, None, &[(0, 5, b"first".to_vec())]);
    for (wd, wname) in [(0x68u8, "8 MiB"), (0x80, "64 MiB"), (0x98, "512 MiB")] {
        for claim in [None, Some(0u16), Some(1000), Some(65535)] {
            let frame = raw_frame(wd, claim, &rle_blocks);
            for limit in [1usize << 20, 4 << 20] {
                for d in 0..5 {
                    let param = [0usize, 1000, 2, 4096, 0][d];
                    let what = match claim {
                        Some(c) => format!("claiming {} bytes of content", c as usize + 256),
                        None => "without a content size".to_string(),
                    };
                    cases.push(Case { name: format!("window above the limit: window {wname} {what}, 12 MiB of RLE blocks, limit {} MiB", limit >> 20), frame: frame.clone(), oversized_block: false, valid: false, driver: d, param, reuse_after: None, limit: Some(limit), limit_late: false });
                    if claim.is_none() || claim == Some(1000) {
                        // the same on a decoder whose limit is lowered after it has decoded a first (small) frame
                        cases.push(Case { name: format!("window above the limit: window {wname} {what}, 12 MiB of RLE blocks, limit lowered to {} MiB after a first frame", limit >> 20), frame: frame.clone(), oversized_block: false, valid: false, driver: d, param, reuse_after: Some(small_first.clone()), limit: Some(limit), limit_late: true });
                    }
                }
            }
        }
    }
    for (k, limit) in [1usize << 20, 2 << 20].into_iter().enumerate() {
        // window == limit: accepted, and the bound is the limit
        let frame = raw_frame(if k == 0 { 0x50 } else { 0x58 }, None, &rle_blocks[..64]);
        for d in 0..5 {
            let param = [0usize, 1000, 2, 4096, 0][d];
            cases.push(Case { name: format!("window at the limit: window = limit = {} MiB, 8 MiB of RLE blocks", limit >> 20), frame: frame.clone(), oversized_block: false, valid: true, driver: d, param, reuse_after: None, limit: Some(limit), limit_late: false });
        }
    }
    cases
}

fn run_case(c: &Case) -> Value {
    let mut violations: Vec<Value> = Vec::new();
    fn v_push(list: &mut Vec<Value>, kind: &str, msg: String) {
        list.push(json!({"kind": kind, "what": msg}));
    }
    macro_rules! v {
        ($k:expr, $m:expr) => {
            v_push(&mut violations, $k, $m)
        };
    }
    let declared_window = zspec::frame::parse_frame_header(&c.frame).map(|h| h.window_size as usize).unwrap_or(0);
    // "together with the window limit": whatever the frame declares, the decoder may not hold more than the limit allows
    let window = match c.limit {
        Some(l) => declared_window.min(l),
        None => declared_window,
    };
    let mut max_held = 0usize;
    let mut max_delta = 0usize;
    let mut calls = 0u64;
    let mut outcome = "finished";
    calloc::set_cap(CAP);
    calloc::track(true);
    calloc::reset_peak();
    let live0 = calloc::stats().live;
    let mut budget_for_heap = 0usize;
    let reused = c.reuse_after.is_some();
    let res = catch(|| -> Result<(), String> {
        let mut d = FrameDecoder::new();
        if let (Some(l), false) = (c.limit, c.limit_late) {
            d.set_max_window_size(l as u64);
        }
        if let Some(first) = &c.reuse_after {
            let mut src = &first[..];
            d.reset(&mut src).map_err(|e| format!("HARNESS first frame: {e}"))?;
            d.decode_blocks(&mut src, BlockDecodingStrategy::All).map_err(|e| format!("HARNESS first frame: {e}"))?;
            let _ = d.collect();
        }
        if let (Some(l), true) = (c.limit, c.limit_late) {
            d.set_max_window_size(l as u64);
        }
        match c.driver {
            0..=2 => {
                let mut src = &c.frame[..];
                d.reset(&mut src).map_err(|e| format!("reset: {e}"))?;
                loop {
                    let (strat, budget) = match c.driver {
                        0 => (BlockDecodingStrategy::UptoBlocks(1), BLOCK),
                        1 => (BlockDecodingStrategy::UptoBytes(c.param), c.param + BLOCK),
                        _ => (BlockDecodingStrategy::UptoBlocks(c.param), c.param * BLOCK),
                    };
                    budget_for_heap = budget;
                    let before = d.verif_buffer_len();
                    let r = d.decode_blocks(&mut src, strat);
                    calls += 1;
                    let after = d.verif_buffer_len();
                    max_held = max_held.max(after);
                    let delta = after.saturating_sub(before);
                    max_delta = max_delta.max(delta);
                    // the rule: held grows by at most what was asked for plus one block (also when the call fails)
                    let allowed = if c.driver == 1 { c.param + BLOCK } else { budget };
                    // absolute form: the caller collected everything collectable before this call, so at most the window was held
                    if after > window + allowed {
                        return Err(format!("BOUND after one {} call the decoder holds {after} bytes although the caller collected before the call (window {window} + allowed {allowed})", DRIVERS[c.driver]));
                    }
                    if delta > allowed {
                        return Err(format!("BOUND one {} call grew the held decoded data by {delta} bytes (allowed {allowed}; result {})", DRIVERS[c.driver], if r.is_ok() { "Ok" } else { "Err" }));
                    }
                    r.map_err(|e| format!("decode: {e}"))?;
                    // the caller takes what it can
                    let _ = d.collect();
                    if d.is_finished() {
                        break;
                    }
                }
                Ok(())
            }
            3 => {
                let mut s = StreamingDecoder::new_with_decoder(&c.frame[..], &mut d).map_err(|e| format!("init: {e}"))?;
                let mut buf = vec![0u8; c.param];
                budget_for_heap = c.param;
                loop {
                    let r = s.read(&mut buf);
                    calls += 1;
                    let held = s.decoder.verif_buffer_len();
                    max_held = max_held.max(held);
                    let allowed = window + c.param + BLOCK;
                    if held > allowed {
                        return Err(format!("BOUND after StreamingDecoder::read({}) the decoder holds {held} bytes (window {window} + request + one block = {allowed})", c.param));
                    }
                    match r {
                        Ok(0) => break,
                        Ok(_) => {}
                        Err(e) => return Err(format!("read: {e}")),
                    }
                }
                Ok(())
            }
            _ => {
                // decode_all asks for 1 MiB at a time internally
                budget_for_heap = 1 << 20;
                let mut out = vec![0u8; 9 << 20];
                calloc::track(false);
                let r = {
                    calloc::track(true);
                    d.decode_all(&c.frame, &mut out)
                };
                calls += 1;
                max_held = d.verif_buffer_len();
                r.map(|_| ()).map_err(|e| format!("decode_all: {e}"))
            }
        }
    });
    let st = calloc::stats();
    calloc::track(false);
    calloc::set_cap(0);
    let peak = (st.peak - live0).max(0) as usize;
    let err_text = match res {
        Err(p) => {
            outcome = "panic";
            v!("panic", format!("{} (site {})", p.what, p.site()));
            None
        }
        Ok(Ok(())) => None,
        Ok(Err(e)) => {
            outcome = "error";
            if let Some(b) = e.strip_prefix("BOUND ") {
                v!("held_bound", b.to_string());
            }
            Some(e)
        }
    };
    if c.limit.map(|l| declared_window > l).unwrap_or(false) && outcome == "finished" {
        v!("window_above_limit_accepted", format!("a frame declaring a {declared_window} byte window was decoded to the end with the limit set to {}", c.limit.unwrap_or(0)));
    }
    if c.oversized_block && outcome == "finished" {
        v!("oversized_block_accepted", "a frame containing a block that regenerates more than 128 KiB was decoded without an error".to_string());
    }
    if c.valid && outcome == "error" && !violations.iter().any(|x| x["kind"] == "held_bound") {
        v!("valid_frame_rejected", err_text.clone().unwrap_or_default());
    }
    let envelope = 4 * (window + budget_for_heap + 256 * 1024) + (16 << 20);
    // a reused decoder legitimately keeps the ring capacity of the largest earlier frame: heap envelope on fresh decoders only
    if calloc::ENABLED && peak > envelope && !reused {
        v!("heap_envelope", format!("peak live heap {peak} bytes, envelope 4*(window {window} + budget {budget_for_heap} + 256 KiB) + 16 MiB = {envelope}"));
    }
    json!({"violations": violations, "outcome": outcome, "max_held": max_held, "max_delta": max_delta, "calls": calls, "peak_heap": peak, "window": window, "error": err_text})
}

/// child: run the cases of one shard, one after the other
pub fn run_child(args: &Args) -> i32 {
    let shard = args.extra_u64("shard", 0) as usize;
    let shards = args.extra_u64("shards", 1) as usize;
    let start = args.extra_u64("start", 0) as usize;
    let cases = build_cases(args);
    use std::io::Write;
    let out = std::io::stdout();
    for (k, c) in cases.iter().enumerate() {
        if k % shards != shard || k < start {
            continue;
        }
        {
            let mut o = out.lock();
            let _ = writeln!(o, "C05CASE {k} BEGIN");
            let _ = o.flush();
        }
        let res = run_case(c);
        let mut o = out.lock();
        let _ = writeln!(o, "C05CASE {k} END {res}");
        let _ = o.flush();
    }
    0
}

pub fn run(args: &Args) -> i32 {
    let rec = Recorder::new("C05", "exploration", args);
    rec.set_rule("one evaluation = one (frame, driver) case: the frame is decoded call by call in a capped child process while the held decoded bytes (hook), the outcome and the peak live heap (counting allocator) are recorded per call; distinct_nontrivial = distinct (frame kind, driver, parameter, outcome) tuples");
    rec.assume("budget = n for UptoBytes(n), k*128 KiB for UptoBlocks(k), buf.len() for StreamingDecoder::read; the heap envelope 4*(window + budget + 256 KiB) + 16 MiB is checked on fresh decoders only");
    if let Err(e) = frames::self_test(args.seed) {
        rec.inconclusive(&e);
        return rec.finish();
    }
    let cases = build_cases(args);
    rec.count("cases", cases.len() as u64);
    let shards = 16usize;
    use rayon::prelude::*;
    let exe = std::env::current_exe().unwrap();
    let results: Vec<Vec<(usize, Result<Value, String>)>> = (0..shards)
        .into_par_iter()
        .map(|shard| {
            let mut out: Vec<(usize, Result<Value, String>)> = Vec::new();
            let mut start = 0usize;
            // restart the child behind a case that killed it
            for _attempt in 0..40 {
                let child = Command::new(&exe)
                    .args(["c05child", "--seed", &args.seed.to_string(), "--tier", &args.tier, "--shard", &shard.to_string(), "--shards", &shards.to_string(), "--start", &start.to_string(), "--threads", "1"])
                    .args(args.extra.get("scale").map(|s| vec!["--scale".to_string(), s.clone()]).unwrap_or_default())
                    .stdin(Stdio::null())
                    .stdout(Stdio::piped())
                    .stderr(Stdio::piped())
                    .output();
                let Ok(o) = child else {
                    out.push((usize::MAX, Err("could not spawn child".into())));
                    break;
                };
                let text = String::from_utf8_lossy(&o.stdout);
                let mut open: Option<usize> = None;
                for line in text.lines() {
                    let mut it = line.splitn(4, ' ');
                    if it.next() != Some("C05CASE") {
                        continue;
                    }
                    let k: usize = it.next().and_then(|s| s.parse().ok()).unwrap_or(usize::MAX);
                    match it.next() {
                        Some("BEGIN") => open = Some(k),
                        Some("END") => {
                            open = None;
                            let v: Value = serde_json::from_str(it.next().unwrap_or("null")).unwrap_or(Value::Null);
                            out.push((k, Ok(v)));
                        }
                        _ => {}
                    }
                }
                match open {
                    None => break,
                    Some(k) => {
                        let why = if o.status.code() == Some(97) { format!("allocation cap of {} MiB exceeded", CAP >> 20) } else { format!("child died: {:?} {}", o.status, String::from_utf8_lossy(&o.stderr).chars().rev().take(200).collect::<String>().chars().rev().collect::<String>()) };
                        out.push((k, Err(why)));
                        start = k + 1;
                    }
                }
            }
            out
        })
        .collect();
    let mut done = 0;
    for (k, res) in results.into_iter().flatten() {
        if k == usize::MAX {
            rec.inconclusive("could not spawn a child process");
            continue;
        }
        let c = &cases[k];
        rec.eval();
        done += 1;
        let kind_of_frame = c.name.split(':').next().unwrap_or("?").to_string();
        let site = format!("{} {}", DRIVERS[c.driver], if c.param > 0 { c.param.to_string() } else { String::new() });
        let replay = json!({"frame": if c.frame.len() <= 200_000 { hex(&c.frame) } else { format!("(len {})", c.frame.len()) }, "name": c.name, "driver": DRIVERS[c.driver], "param": c.param});
        match res {
            Err(why) => {
                if why.starts_with("allocation cap") {
                    rec.violation(Sig::new("memory_cap_exceeded", &site, &kind_of_frame), json!({"what": why, "frame": c.name, "frame_len": c.frame.len()}), replay);
                } else {
                    rec.violation(Sig::new("abort", &site, &kind_of_frame), json!({"what": why, "frame": c.name}), replay);
                }
            }
            Ok(v) => {
                for viol in v["violations"].as_array().cloned().unwrap_or_default() {
                    let kind = viol["kind"].as_str().unwrap_or("?").to_string();
                    rec.violation(Sig::new(&kind, &site, &kind_of_frame), json!({"what": viol["what"], "frame": c.name, "frame_len": c.frame.len(), "max_held": v["max_held"], "peak_heap": v["peak_heap"], "window": v["window"]}), replay.clone());
                }
                rec.distinct(fnv_str(&format!("{kind_of_frame}|{site}|{}", v["outcome"])));
                rec.count(&format!("outcome_{}_{}", if c.oversized_block { "oversized" } else { "benign" }, v["outcome"].as_str().unwrap_or("?")), 1);
                if k % 37 == 0 {
                    rec.sample(json!({"frame": c.name, "driver": site, "outcome": v["outcome"], "max_held": v["max_held"], "max_delta_per_call": v["max_delta"], "peak_heap": v["peak_heap"], "window": v["window"], "calls": v["calls"]}));
                }
            }
        }
    }
    if done != cases.len() {
        rec.inconclusive(&format!("only {done} of {} cases reported", cases.len()));
    }
    rec.set_extra("exhaustive", json!(false));
    rec.set_extra("heap_measured", json!(calloc::ENABLED));
    rec.finish()
}
