//! C20 Dictionary builder terminates without panic and respects the requested size.
//!
//! Every case runs `create_raw_dict_from_source` in a child process of this binary so that a hang
//! can be killed and a panic or abort cannot take the monitor down. The child reports output
//! length, panic location and its CPU time.

use crate::common::*;
use serde_json::{json, Value};
use std::io::Read;
use std::process::{Command, Stdio};
use std::time::{Duration, Instant};

fn gen_source(r: &mut Rng, shape: u64, len: usize) -> Vec<u8> {
    let mut v = vec![0u8; len];
    match shape {
        0 => {}
        1 => r.fill(&mut v),
        2 => {
            let words: [&[u8]; 6] = [b"alpha ", b"beta ", b"gamma ", b"delta ", b"{\"key\": \"value\"}, ", b"\n"];
            let mut i = 0;
            while i < len {
                let w = *r.pick(&words);
                let n = w.len().min(len - i);
                v[i..i + n].copy_from_slice(&w[..n]);
                i += n;
            }
        }
        3 => {
            for (i, b) in v.iter_mut().enumerate() {
                *b = (i % 16) as u8;
            }
        }
        _ => {
            // records with a shared prefix
            let mut i = 0;
            while i < len {
                let rec = format!("user={:05};status=ok;payload={:x}\n", r.below(1000), r.next());
                let n = rec.len().min(len - i);
                v[i..i + n].copy_from_slice(&rec.as_bytes()[..n]);
                i += n;
            }
        }
    }
    v
}

/// the child: run one case, print one line
pub fn run_case_child(args: &Args) -> i32 {
    let g = |k: &str| args.extra_u64(k, 0);
    let (shape, case_seed, source_len, est, dict_size, chunk) = (g("shape"), g("case-seed"), g("source-len") as usize, g("estimate") as usize, g("dict-size") as usize, g("chunk") as usize);
    let mut r = Rng::new(case_seed);
    let src = gen_source(&mut r, shape, source_len);
    fastrand::seed(case_seed);
    struct Chunked<'a>(&'a [u8], usize);
    impl std::io::Read for Chunked<'_> {
        fn read(&mut self, buf: &mut [u8]) -> std::io::Result<usize> {
            let n = buf.len().min(self.0.len()).min(self.1);
            buf[..n].copy_from_slice(&self.0[..n]);
            self.0 = &self.0[n..];
            Ok(n)
        }
    }
    let mut out: Vec<u8> = Vec::new();
    let t0 = thread_cpu_s();
    let res = catch(|| {
        ruzstd::dictionary::create_raw_dict_from_source(Chunked(&src, if chunk == 0 { usize::MAX } else { chunk }), est, &mut out, dict_size);
    });
    let cpu = thread_cpu_s() - t0;
    let doc = match res {
        Ok(()) => json!({"out_len": out.len(), "cpu_s": cpu, "panic": Value::Null, "site": Value::Null}),
        Err(p) => json!({"out_len": out.len(), "cpu_s": cpu, "panic": p.what, "site": p.site(), "in_harness": p.in_harness()}),
    };
    println!("C20CASE {doc}");
    0
}

struct Case {
    shape: u64,
    case_seed: u64,
    source_len: usize,
    estimate: usize,
    dict_size: usize,
    chunk: usize,
}

enum ChildResult {
    Done(Value),
    Timeout,
    Died(String),
}

fn spawn_case(c: &Case, timeout: Duration) -> ChildResult {
    let exe = std::env::current_exe().unwrap();
    let mut child = match Command::new(exe)
        .args([
            "c20case",
            "--shape",
            &c.shape.to_string(),
            "--case-seed",
            &c.case_seed.to_string(),
            "--source-len",
            &c.source_len.to_string(),
            "--estimate",
            &c.estimate.to_string(),
            "--dict-size",
            &c.dict_size.to_string(),
            "--chunk",
            &c.chunk.to_string(),
            "--threads",
            "1",
        ])
        .stdin(Stdio::null())
        .stdout(Stdio::piped())
        .stderr(Stdio::null())
        .spawn()
    {
        Ok(c) => c,
        Err(e) => return ChildResult::Died(format!("spawn: {e}")),
    };
    let mut stdout = child.stdout.take().unwrap();
    let reader = std::thread::spawn(move || {
        let mut s = String::new();
        let _ = stdout.read_to_string(&mut s);
        s
    });
    let start = Instant::now();
    loop {
        match child.try_wait() {
            Ok(Some(st)) => {
                let out = reader.join().unwrap_or_default();
                if let Some(line) = out.lines().find(|l| l.starts_with("C20CASE ")) {
                    if let Ok(v) = serde_json::from_str::<Value>(&line[8..]) {
                        return ChildResult::Done(v);
                    }
                }
                return ChildResult::Died(format!("status {st:?}"));
            }
            Ok(None) => {
                if start.elapsed() > timeout {
                    let _ = child.kill();
                    let _ = child.wait();
                    return ChildResult::Timeout;
                }
                std::thread::sleep(Duration::from_millis(2));
            }
            Err(e) => return ChildResult::Died(format!("{e}")),
        }
    }
}

pub fn run(args: &Args) -> i32 {
    let rec = Recorder::new("C20", "exploration", args);
    rec.set_rule("one evaluation = one call of create_raw_dict_from_source in a child process with a generated (source, size estimate, dictionary size); distinct_nontrivial = distinct (source shape, source length class, estimate class, dictionary size class, segmentation of the sample) tuples that reached the sampling / epoch code (estimate >= 16)");
    rec.assume("sources are kept <= 200 KiB (plus a few of 512 KiB and more in the thorough tier) because the current epoch loop is quadratic; estimates go up to 4 MiB; a case is 'non terminating' only if it exceeds a flat CPU budget and does so again when re-run alone with four times the budget");

    let cpu_budget = 120.0f64;
    let mut cases: Vec<Case> = Vec::new();
    let mut r = Rng::for_case(args.seed, 20, 0);
    // directed: boundaries of the k-mer (16) and segment (2048) sizes, estimates exact / under / over, empty source
    let lens = [0usize, 1, 15, 16, 17, 31, 32, 100, 2047, 2048, 2049, 4096, 10_000, 50_000];
    for &len in &lens {
        for est_kind in 0..4 {
            let estimate = match est_kind {
                0 => len,
                1 => len / 2,
                2 => len * 2 + 1,
                _ => [0usize, 15, 16, 100, 2048][r.usize(0, 4)],
            };
            for &ds in &[0usize, 1, 15, 16, 17, 64, 2047, 2048, 2049, 4096, 100_000] {
                if len >= 10_000 && ds != 64 && ds != 4096 && ds != 2048 {
                    continue;
                }
                cases.push(Case { shape: r.below(5), case_seed: r.next(), source_len: len, estimate, dict_size: ds, chunk: *r.pick(&[0usize, 0, 1, 100, 4096]) });
            }
        }
    }
    let n = args.vol(500, 20_000);
    for _ in 0..n {
        let len = r.size(0, if args.thorough() { 200 * 1024 } else { 80 * 1024 });
        let estimate = match r.below(4) {
            0 => len,
            1 => r.usize(0, len),
            2 => len + r.usize(0, len + 20),
            _ => r.usize(0, 40),
        };
        let ds = match r.below(4) {
            0 => r.usize(0, 40),
            1 => r.usize(0, len.max(1)),
            2 => *r.pick(&[2048usize, 4096, 16384, 65536, 112640]),
            _ => r.usize(0, 5000),
        };
        cases.push(Case { shape: r.below(5), case_seed: r.next(), source_len: len, estimate, dict_size: ds, chunk: *r.pick(&[0usize, 0, 1, 100, 4096]) });
    }
    // estimates of 512 KiB and more: the sample (estimate / 256 bytes) then spans several 2048 byte segments, the last of
    // which can have any length, also one below a k-mer. The true source is kept just a few epochs longer than the
    // sample (estimates may differ from the true length), which keeps these cases cheap.
    let n_big = args.vol(260, 3000);
    for j in 0..n_big as usize {
        let tail = match j % 4 {
            0 => (j / 4) % 40,           // 0..=39: around one k-mer
            1 => 2048 - 1 - (j / 4) % 20, // just below a full segment
            _ => r.usize(0, 2047),
        };
        let full_segments = 1 + r.usize(0, if args.thorough() { 7 } else { 3 });
        let sample = full_segments * 2048 + tail;
        let estimate = sample * 256 + r.usize(0, 255);
        let len = sample + r.usize(1, 1500);
        let ds = *r.pick(&[0usize, 15, 100, 2047, 2048, 4096, 10_000, 112_640]);
        cases.push(Case { shape: r.below(5), case_seed: r.next(), source_len: len, estimate, dict_size: ds, chunk: *r.pick(&[0usize, 0, 1, 100, 4096]) });
    }
    // estimates around 2^32 (a collection of 4 GiB is not unusual; the estimate is a usize): the source itself stays small
    #[cfg(target_pointer_width = "64")]
    for est in [(1usize << 32) - 1, 1 << 32, (1 << 32) + 1, (1 << 32) + 4096, 2 << 32] {
        for (len, ds) in [(5000usize, 4096usize), (100, 64), (70_000, 2048)] {
            cases.push(Case { shape: r.below(5), case_seed: r.next(), source_len: len, estimate: est, dict_size: ds, chunk: 0 });
        }
    }
    if args.thorough() {
        // true length and estimate both above 512 KiB (thousands of epochs each: few cases)
        for j in 0..3usize {
            let len = 524_288 + 256 * (3 + j * 401) + j;
            cases.push(Case { shape: 2 + (j as u64 % 3), case_seed: r.next(), source_len: len, estimate: len, dict_size: 16_384, chunk: 0 });
        }
    }
    rec.count("cases", cases.len() as u64);

    use rayon::prelude::*;
    let max_cpu = std::sync::Mutex::new(0.0f64);
    let confirmed_hangs = std::sync::atomic::AtomicUsize::new(0);
    cases.par_iter().enumerate().for_each(|(i, c)| {
        if confirmed_hangs.load(std::sync::atomic::Ordering::SeqCst) >= 3 {
            // the verdict is decided; every further hanging case would cost minutes
            rec.count("cases_not_run_after_three_non_terminations", 1);
            return;
        }
        rec.eval();
        let replay = json!({"shape": c.shape, "case_seed": c.case_seed, "source_len": c.source_len, "estimate": c.estimate, "dict_size": c.dict_size, "chunk": c.chunk});
        let site_class = if c.estimate < 16 { "small_source_shortcut" } else { "epoch_loop" };
        let len_class = match c.source_len {
            0 => "empty",
            1..=15 => "<16",
            16..=2047 => "<2048",
            _ => ">=2048",
        };
        // wall limit per child: five times the CPU budget a case may use (quick cases need well under a second)
        let big = c.source_len > 300_000;
        let res = spawn_case(c, Duration::from_secs(if big { 3600 } else if args.thorough() { 600 } else { 120 }));
        let v = match res {
            ChildResult::Done(v) => v,
            ChildResult::Died(why) => {
                // the child died without a report: abort / stack overflow / OOM inside the builder
                rec.violation(Sig::new("abort", site_class, &format!("source={len_class}")), json!({"child": why}), replay);
                return;
            }
            ChildResult::Timeout => {
                // reproduce with four times the time before calling it non-termination; at most three cases are
                // confirmed that way (a builder that hangs on many inputs must not cost hours), the rest is counted
                let already = confirmed_hangs.fetch_add(1, std::sync::atomic::Ordering::SeqCst);
                if already >= 3 {
                    rec.count("further_cases_that_timed_out_after_three_confirmed_non_terminations", 1);
                    return;
                }
                let limit = if big { 7200 } else if args.thorough() { 2400 } else { 400 };
                match spawn_case(c, Duration::from_secs(limit)) {
                    ChildResult::Timeout => rec.violation(Sig::new("non_termination", site_class, &format!("source={len_class}")), json!({"wall_limit_s": limit, "source_len": c.source_len, "estimate": c.estimate, "dict_size": c.dict_size, "chunk": c.chunk}), replay),
                    _ => {
                        confirmed_hangs.fetch_sub(1, std::sync::atomic::Ordering::SeqCst);
                        rec.inconclusive(&format!("case {i} timed out once but finished when re-run alone"))
                    }
                }
                return;
            }
        };
        let out_len = v["out_len"].as_u64().unwrap_or(0) as usize;
        let cpu = v["cpu_s"].as_f64().unwrap_or(0.0);
        {
            let mut m = max_cpu.lock().unwrap();
            if cpu > *m {
                *m = cpu;
            }
        }
        if let Some(p) = v["panic"].as_str() {
            if v["in_harness"].as_bool() == Some(true) {
                rec.inconclusive(&format!("harness panic {p}"));
            } else {
                rec.violation(
                    Sig::new("panic", v["site"].as_str().unwrap_or("?"), &format!("source={len_class} estimate{}16", if c.estimate < 16 { "<" } else { ">=" })),
                    json!({"panic": p, "source_len": c.source_len, "estimate": c.estimate, "dict_size": c.dict_size}),
                    replay,
                );
            }
            return;
        }
        if out_len > c.dict_size {
            rec.violation(
                Sig::new("oversize", site_class, &format!("source={len_class}")),
                json!({"written": out_len, "dict_size": c.dict_size, "source_len": c.source_len, "estimate": c.estimate}),
                replay,
            );
            return;
        }
        // the epoch loop is quadratic in the source length (one pass over the sample per 100 bytes read): a flat budget
        // would call the few large thorough cases "non terminating". Builds with overflow checks are several times slower.
        let slow_build = if args.build.starts_with("chk") { 5.0 } else { 1.0 };
        let cpu_budget = (cpu_budget + 20.0 * (c.source_len as f64 / 100_000.0).powi(2)) * slow_build;
        if cpu > cpu_budget {
            rec.violation(Sig::new("cpu_budget", site_class, &format!("source={len_class}")), json!({"cpu_s": cpu, "budget_s": cpu_budget, "source_len": c.source_len}), replay);
            return;
        }
        if c.estimate >= 16 {
            let ds_class = match c.dict_size {
                0 => "0",
                1..=15 => "<16",
                16..=2047 => "<2048",
                _ => ">=2048",
            };
            let est_class = if c.estimate == c.source_len { "exact" } else if c.estimate < c.source_len { "under" } else { "over" };
            // how the sample is cut into segments
            let sample = if c.estimate >= 2048 * 512 / 2 { c.estimate / 256 } else { 0 };
            let seg_class = if sample <= 2048 {
                "one_segment"
            } else if sample % 2048 == 0 {
                "full_segments"
            } else if sample % 2048 < 16 {
                rec.count("samples_with_last_segment_below_one_kmer", 1);
                "last_segment<16"
            } else {
                "last_segment>=16"
            };
            rec.distinct(fnv_str(&format!("{}|{len_class}|{est_class}|{ds_class}|{seg_class}", c.shape)));
        }
        if i % 97 == 0 {
            rec.sample(json!({"source_len": c.source_len, "shape": c.shape, "estimate": c.estimate, "dict_size": c.dict_size, "written": out_len, "cpu_s": cpu}));
        }
    });
    rec.set_extra("max_case_cpu_s", json!(*max_cpu.lock().unwrap()));
    rec.set_extra("exhaustive", json!(false));
    rec.finish()
}
