//! C14 Sequence codes, repeat-offset rules and section headers match the specification.
//!
//! Exhaustive comparison of ruzstd's (crate private, hooked) mapping functions and header
//! parsers/writers with a transcription of RFC 8878. The LL/ML base and bits tables are the
//! reference implementation's literal tables (ref_tables.rs, generated from the libzstd C source).

use crate::common::*;
use crate::ref_tables::*;
use rayon::prelude::*;
use ruzstd::verif::{dec, enc};
use serde_json::json;

const MAX_BLOCK: u32 = 128 * 1024;
const MAX_WINDOW: u64 = (1u64 << 41) + 7 * (1u64 << 38);

// ------------------------------------------------------------------ the specification side

fn spec_code(base: &[u32], bits: &[u8], v: u32) -> (u8, u32, u8) {
    // highest code whose base value is <= v
    let mut c = 0;
    for (i, b) in base.iter().enumerate() {
        if *b <= v {
            c = i;
        }
    }
    debug_assert!(v - base[c] < (1u32 << bits[c]));
    (c as u8, v - base[c], bits[c])
}

pub fn spec_repeat_offset(h: &mut [u32; 3], offset_value: u32, ll: u32) -> u32 {
    // RFC 8878 3.1.1.5
    if offset_value > 3 {
        let actual = offset_value - 3;
        *h = [actual, h[0], h[1]];
        return actual;
    }
    let idx = if ll > 0 {
        offset_value - 1
    } else {
        offset_value
    };
    match idx {
        0 => h[0],
        1 => {
            let a = h[1];
            *h = [a, h[0], h[2]];
            a
        }
        2 => {
            let a = h[2];
            *h = [a, h[0], h[1]];
            a
        }
        _ => {
            // ll == 0 and offset_value == 3: Repeated_Offset1 - 1 (0 means the data is corrupt)
            let a = h[0].wrapping_sub(1);
            *h = [a, h[0], h[1]];
            a
        }
    }
}

/// (header_len without the modes byte, number of sequences, has modes byte)
fn spec_parse_seq_count(b: &[u8]) -> (usize, u32, bool) {
    match b[0] {
        0 => (1, 0, false),
        1..=127 => (1, u32::from(b[0]), true),
        128..=254 => {
            let n = ((u32::from(b[0]) - 128) << 8) + u32::from(b[1]);
            (2, n, n != 0)
        }
        255 => (3, u32::from(b[1]) + (u32::from(b[2]) << 8) + 0x7F00, true),
    }
}

#[derive(Debug, PartialEq, Eq, Clone, Copy)]
struct LitHdr {
    len: u8,
    ty: u8,
    regen: u32,
    comp: Option<u32>,
    streams: Option<u8>,
}

fn spec_parse_lit_header(b: &[u8]) -> LitHdr {
    let ty = b[0] & 3;
    let sf = (b[0] >> 2) & 3;
    if ty < 2 {
        match sf {
            0 | 2 => LitHdr {
                len: 1,
                ty,
                regen: u32::from(b[0] >> 3),
                comp: None,
                streams: None,
            },
            1 => LitHdr {
                len: 2,
                ty,
                regen: u32::from(b[0] >> 4) + (u32::from(b[1]) << 4),
                comp: None,
                streams: None,
            },
            _ => LitHdr {
                len: 3,
                ty,
                regen: u32::from(b[0] >> 4) + (u32::from(b[1]) << 4) + (u32::from(b[2]) << 12),
                comp: None,
                streams: None,
            },
        }
    } else {
        let (len, bits) = match sf {
            0 | 1 => (3u8, 10u32),
            2 => (4, 14),
            _ => (5, 18),
        };
        let mut v: u64 = 0;
        for i in 0..len as usize {
            v |= u64::from(b[i]) << (8 * i);
        }
        let regen = ((v >> 4) & ((1 << bits) - 1)) as u32;
        let comp = ((v >> (4 + bits)) & ((1 << bits) - 1)) as u32;
        LitHdr {
            len,
            ty,
            regen,
            comp: Some(comp),
            streams: Some(if sf == 0 { 1 } else { 4 }),
        }
    }
}

fn spec_write_lit_header(ty: u8, sf: u8, regen: u32, comp: u32) -> Vec<u8> {
    if ty < 2 {
        match sf {
            0 | 2 => vec![ty | (sf << 2) | ((regen as u8) << 3)],
            1 => {
                let v = u32::from(ty) | (1 << 2) | (regen << 4);
                v.to_le_bytes()[..2].to_vec()
            }
            _ => {
                let v = u32::from(ty) | (3 << 2) | (regen << 4);
                v.to_le_bytes()[..3].to_vec()
            }
        }
    } else {
        let (len, bits) = match sf {
            0 | 1 => (3usize, 10u32),
            2 => (4, 14),
            _ => (5, 18),
        };
        let v: u64 = u64::from(ty)
            | (u64::from(sf) << 2)
            | (u64::from(regen) << 4)
            | (u64::from(comp) << (4 + bits));
        v.to_le_bytes()[..len].to_vec()
    }
}

fn spec_window(wd: u8) -> u64 {
    let exp = u64::from(wd >> 3);
    let mant = u64::from(wd & 7);
    let base = 1u64 << (10 + exp);
    base + (base / 8) * mant
}

// ------------------------------------------------------------------ the monitor

fn mismatch(rec: &Recorder, domain: &str, what: &str, input: serde_json::Value, got: String, want: String) {
    rec.violation(
        Sig::new("spec_mismatch", domain, what),
        json!({"input": input, "ruzstd": got, "spec": want}),
        json!({"domain": domain, "input": input}),
    );
}

pub fn run(args: &Args) -> i32 {
    let rec = Recorder::new("C14", "exploration", args);
    rec.set_rule("every point of the enumerated finite domains is one evaluation; distinct_nontrivial = distinct (sub-domain, outcome class) pairs seen: code values, byte forms, header kinds; see coverage.subdomains for which sub-domains were enumerated completely");
    rec.assume("LL/ML base+bits tables are the reference implementation's (generated from libzstd 1.5.7 C source); all other rules are a transcription of RFC 8878 in c14.rs");
    let mut sub = serde_json::Map::new();

    // replay: just rerun the one domain
    let only = args.extra.get("domain").cloned();
    let want = |d: &str| only.as_deref().map(|o| o == d).unwrap_or(true);

    // --- decoder lookup tables (all codes)
    if want("lookup") {
        for c in 0..36u8 {
            rec.eval();
            let got = catch(|| dec::lookup_ll_code(c));
            let want = (LL_BASE[c as usize], LL_BITS[c as usize]);
            if got.as_ref().ok() != Some(&want) {
                mismatch(&rec, "lookup_ll_code", &format!("code={c}"), json!(c), format!("{got:?}"), format!("{want:?}"));
            }
            rec.distinct(fnv_str(&format!("llc{c}")));
        }
        for c in 0..53u8 {
            rec.eval();
            let got = catch(|| dec::lookup_ml_code(c));
            let want = (ML_BASE[c as usize], ML_BITS[c as usize]);
            if got.as_ref().ok() != Some(&want) {
                mismatch(&rec, "lookup_ml_code", &format!("code={c}"), json!(c), format!("{got:?}"), format!("{want:?}"));
            }
            rec.distinct(fnv_str(&format!("mlc{c}")));
        }
        sub.insert("lookup_ll_ml_codes".into(), json!({"exhaustive": true, "points": 89}));
    }

    // --- literal length 0..=131071 (all)
    if want("ll") {
        let bad: Vec<_> = (0u32..=131071)
            .into_par_iter()
            .filter_map(|v| {
                let want = spec_code(&LL_BASE, &LL_BITS, v);
                let got = catch(|| enc::encode_literal_length(v));
                let ok = match &got {
                    Ok((c, add, nb)) => {
                        (*c, *add, *nb as u8) == want && {
                            let (base, bits) = dec::lookup_ll_code(*c);
                            base + add == v && usize::from(bits) == *nb
                        }
                    }
                    Err(_) => false,
                };
                if ok {
                    None
                } else {
                    Some((v, format!("{got:?}"), format!("{want:?}")))
                }
            })
            .collect();
        rec.evals(131072);
        for c in 0..36 {
            rec.distinct(fnv_str(&format!("ll{c}")));
        }
        for (v, got, want) in bad.into_iter().take(5) {
            mismatch(&rec, "encode_literal_length", &format!("value={v}"), json!(v), got, want);
        }
        sub.insert("literal_length".into(), json!({"exhaustive": true, "points": 131072}));
    }

    // --- match length 3..=131074 (all)
    if want("ml") {
        let bad: Vec<_> = (3u32..=131074)
            .into_par_iter()
            .filter_map(|v| {
                let want = spec_code(&ML_BASE, &ML_BITS, v);
                let got = catch(|| enc::encode_match_len(v));
                let ok = match &got {
                    Ok((c, add, nb)) => {
                        (*c, *add, *nb as u8) == want && {
                            let (base, bits) = dec::lookup_ml_code(*c);
                            base + add == v && usize::from(bits) == *nb
                        }
                    }
                    Err(_) => false,
                };
                if ok {
                    None
                } else {
                    Some((v, format!("{got:?}"), format!("{want:?}")))
                }
            })
            .collect();
        rec.evals(131072);
        for c in 0..53 {
            rec.distinct(fnv_str(&format!("ml{c}")));
        }
        for (v, got, want) in bad.into_iter().take(5) {
            mismatch(&rec, "encode_match_len", &format!("value={v}"), json!(v), got, want);
        }
        sub.insert("match_length".into(), json!({"exhaustive": true, "points": 131072}));
    }

    // --- offset values: all 2^32 in thorough, boundaries + random in quick
    if want("of") {
        let check = |v: u32| -> Option<(u32, String, String)> {
            let code = 31 - v.leading_zeros();
            let want = (code as u8, v - (1u32 << code), code as usize);
            let got = catch(|| enc::encode_offset(v));
            if got.as_ref().ok() == Some(&want) {
                None
            } else {
                Some((v, format!("{got:?}"), format!("{want:?}")))
            }
        };
        let mut bad: Vec<(u32, String, String)> = Vec::new();
        let mut points: u64 = 0;
        // boundaries of every code
        for c in 0..32u32 {
            for d in -2i64..=2 {
                for base in [1i64 << c, (1i64 << c) + (1i64 << c) / 2, (1i64 << (c + 1)) - 1] {
                    let v = base + d;
                    if (1..=u32::MAX as i64).contains(&v) {
                        points += 1;
                        bad.extend(check(v as u32));
                    }
                }
            }
            rec.distinct(fnv_str(&format!("of{c}")));
        }
        let exhaustive = args.thorough();
        if exhaustive {
            let b: Vec<_> = (0u64..(1 << 16))
                .into_par_iter()
                .flat_map_iter(|hi| {
                    let mut out = Vec::new();
                    for lo in 0u64..(1 << 16) {
                        let v = (hi << 16) | lo;
                        if v == 0 {
                            continue;
                        }
                        if let Some(x) = check(v as u32) {
                            if out.len() < 2 {
                                out.push(x);
                            }
                        }
                    }
                    out
                })
                .collect();
            points += (1u64 << 32) - 1;
            bad.extend(b);
        } else {
            let n = args.vol(10_000_000, 10_000_000);
            let b: Vec<_> = (0..n)
                .into_par_iter()
                .filter_map(|i| {
                    let mut r = Rng::for_case(args.seed, 14, i);
                    // uniform over codes, then over the code's range
                    let c = r.below(32) as u32;
                    let v = (1u32 << c) + (r.below(1u64 << c) as u32);
                    check(v)
                })
                .collect();
            points += n;
            bad.extend(b);
        }
        rec.evals(points);
        for (v, got, want) in bad.into_iter().take(5) {
            mismatch(&rec, "encode_offset", &format!("value={v}"), json!(v), got, want);
        }
        sub.insert("offset_value".into(), json!({"exhaustive": exhaustive, "points": points}));
    }

    // --- out of range codes in RLE mode must be refused by the sequences decoder
    if want("rle_range") {
        // one sequence, modes: which of ll/of/ml is RLE with symbol s, the others predefined
        for (which, max) in [(0usize, 35u8), (1, 31), (2, 52)] {
            for s in 0..=255u8 {
                rec.eval();
                let modes = [1u8 << 6, 1 << 4, 1 << 2][which];
                // bitstream: enough bytes, final marker
                let mut raw = vec![1u8, modes, s];
                raw.extend_from_slice(&[0, 0, 0, 0, 0, 0, 0, 0x80]);
                let mut scratch = dec::FseScratch::new();
                let got = catch(|| dec::decode_sequences_section(&raw, &mut scratch));
                let accepted_symbol = match &got {
                    Ok(Ok(_)) => true,
                    Ok(Err(e)) => {
                        // errors about the bitstream are fine, the symbol itself was accepted then
                        !(e.contains("RLE") || e.contains("Rle") || e.contains("rle") || e.contains("offset") || e.contains("Offset"))
                            && s <= max
                    }
                    Err(_) => false,
                };
                if let Err(p) = &got {
                    rec.violation(
                        Sig::new("panic", &p.site(), &format!("rle_symbol which={which}")),
                        json!({"which": which, "symbol": s, "panic": p.what}),
                        json!({"domain": "rle_range", "which": which, "symbol": s}),
                    );
                    continue;
                }
                if s > max && matches!(&got, Ok(Ok(_))) {
                    mismatch(&rec, "rle_symbol_range", &format!("which={which} symbol={s}"), json!([which, s]), "accepted".into(), "must be refused".into());
                }
                let _ = accepted_symbol;
                rec.distinct(fnv_str(&format!("rle{which}{}", s > max)));
            }
        }
        sub.insert("rle_symbol_range".into(), json!({"exhaustive": true, "points": 768}));
    }

    // --- repeat offset state machine
    if want("repeat") {
        let vals: [u32; 9] = [0, 1, 2, 3, 4, 5, 8, 1000, u32::MAX];
        let ovs: [u32; 12] = [1, 2, 3, 4, 5, 6, 7, 11, 1003, 65539, 1 << 31, u32::MAX];
        let mut n = 0u64;
        for &a in &vals {
            for &b in &vals {
                for &c in &vals {
                    for &ov in &ovs {
                        for ll in [0u32, 1, 7, 131071] {
                            n += 1;
                            let mut hs = [a, b, c];
                            let mut hr = [a, b, c];
                            let want = spec_repeat_offset(&mut hs, ov, ll);
                            let got = catch(|| dec::do_offset_history(ov, ll, &mut hr));
                            let ok = match &got {
                                // an actual offset of 0 is "corrupt": the history does not matter then.
                                // (h0 - 1 with h0 == 0 may be reported as 0, it must be refused either way)
                                Ok(g) => {
                                    if want == 0 || (ll == 0 && ov == 3 && a == 0) {
                                        *g == 0
                                    } else {
                                        *g == want && hr == hs
                                    }
                                }
                                Err(_) => false,
                            };
                            if !ok {
                                mismatch(
                                    &rec,
                                    "do_offset_history",
                                    &format!("ov={} ll0={}", ov.min(4), ll == 0),
                                    json!({"hist": [a, b, c], "offset_value": ov, "ll": ll}),
                                    format!("{got:?} hist {hr:?}"),
                                    format!("{want} hist {hs:?}"),
                                );
                            }
                            rec.distinct(fnv_str(&format!("rep{}{}", ov.min(4), ll == 0)));
                        }
                    }
                }
            }
        }
        rec.evals(n);
        sub.insert("repeat_offsets".into(), json!({"exhaustive": true, "points": n, "note": "all histories over a 9 value set incl. equal entries and zeros x 12 offset values x 4 literal lengths"}));
    }

    // --- sequence counts: writer then parser (all), and the parser over all 2^24 prefixes
    if want("seqcount") {
        let bad: Vec<_> = (1usize..=98047)
            .into_par_iter()
            .filter_map(|n| {
                let got = catch(|| enc::encode_seqnum(n));
                let res = match &got {
                    Ok(bytes) => {
                        let mut b = bytes.clone();
                        b.extend_from_slice(&[0, 0, 0]);
                        let (len, parsed, _) = spec_parse_seq_count(&b);
                        // valid iff the specification parser reads back n from exactly these bytes
                        if len == bytes.len() && parsed as usize == n {
                            // and ruzstd's own parser agrees
                            let mut with_modes = bytes.clone();
                            with_modes.push(0);
                            match catch(|| dec::parse_sequences_header(&with_modes)) {
                                Ok(Ok((hl, pn, Some(0)))) if pn as usize == n && hl as usize == bytes.len() + 1 => None,
                                other => Some(format!("bytes {} parse back as {other:?}", hex(bytes))),
                            }
                        } else {
                            Some(format!("bytes {} mean (len {len}, n {parsed}) in the specification", hex(bytes)))
                        }
                    }
                    Err(p) => Some(format!("panic {}", p.what)),
                };
                res.map(|r| (n, r))
            })
            .collect();
        rec.evals(98047);
        for f in ["1byte", "2byte", "3byte"] {
            rec.distinct(fnv_str(&format!("seqnum{f}")));
        }
        // group: report the first of each byte form
        let mut seen = std::collections::HashSet::new();
        for (n, r) in bad {
            let class = if n < 128 { "1byte" } else if n < 0x7F00 { "2byte" } else { "3byte" };
            if seen.insert(class) {
                mismatch(&rec, "encode_seqnum", &format!("form={class}"), json!(n), r, format!("n={n}"));
            } else {
                rec.count("violations_total", 1);
            }
        }
        sub.insert("sequence_count_writer".into(), json!({"exhaustive": true, "points": 98047}));

        let bad: Vec<_> = (0u32..(1 << 24))
            .into_par_iter()
            .filter_map(|x| {
                let b = [x as u8, (x >> 8) as u8, (x >> 16) as u8, 0xA8];
                let (len, n, has_modes) = spec_parse_seq_count(&b);
                // hand ruzstd exactly the header + the modes byte
                let mut raw = b[..len].to_vec();
                if has_modes {
                    raw.push(0xA8);
                }
                let got = catch(|| dec::parse_sequences_header(&raw));
                let ok = match &got {
                    Ok(Ok((hl, pn, modes))) => {
                        *pn == n
                            && *hl as usize == raw.len()
                            && *modes == if has_modes { Some(0xA8) } else { None }
                    }
                    _ => false,
                };
                // only the bytes that matter make a distinct case
                if ok {
                    None
                } else {
                    Some((b[..len].to_vec(), format!("{got:?}"), format!("n={n} len={len} modes={has_modes}")))
                }
            })
            .collect();
        rec.evals(1 << 24);
        rec.distinct(fnv_str("seqhdr_parse"));
        for (b, got, want) in bad.into_iter().take(3) {
            mismatch(&rec, "parse_sequences_header", &format!("first_byte_class={}", match b[0] {0=>0,1..=127=>1,128..=254=>2,_=>3}), json!(hex(&b)), got, want);
        }
        sub.insert("sequence_count_parser".into(), json!({"exhaustive": true, "points": 1u64 << 24}));
    }

    // --- block headers: all 2^24 through the parser; the writer for every legal header
    if want("block") {
        let bad: Vec<_> = (0u32..(1 << 24))
            .into_par_iter()
            .filter_map(|x| {
                let b = [x as u8, (x >> 8) as u8, (x >> 16) as u8];
                let last = x & 1 == 1;
                let ty = ((x >> 1) & 3) as u8;
                let size = x >> 3;
                let want: Result<(bool, u8, u32, u32), ()> = if ty == 3 || size > MAX_BLOCK {
                    Err(())
                } else {
                    Ok(match ty {
                        0 => (last, 0, size, size),
                        1 => (last, 1, size, 1),
                        _ => (last, 2, 0, size),
                    })
                };
                let got = catch(|| dec::parse_block_header(&b));
                let ok = match (&got, &want) {
                    (Ok(Ok(g)), Ok(w)) => g == w,
                    (Ok(Err(_)), Err(())) => true,
                    _ => false,
                };
                if ok {
                    None
                } else {
                    Some((x, format!("{got:?}"), format!("{want:?}")))
                }
            })
            .collect();
        rec.evals(1 << 24);
        for t in 0..4 {
            rec.distinct(fnv_str(&format!("blk{t}")));
        }
        rec.distinct(fnv_str("blk_too_big"));
        for (x, got, want) in bad.into_iter().take(3) {
            mismatch(&rec, "parse_block_header", &format!("type={} size_gt_max={}", (x >> 1) & 3, (x >> 3) > MAX_BLOCK), json!(x), got, want);
        }
        sub.insert("block_header_parser".into(), json!({"exhaustive": true, "points": 1u64 << 24}));

        let bad: Vec<_> = (0u32..=MAX_BLOCK)
            .into_par_iter()
            .flat_map_iter(|size| {
                let mut out = Vec::new();
                for ty in 0..3u8 {
                    for last in [false, true] {
                        let got = catch(|| enc::serialize_block_header(last, ty, size));
                        let ok = match &got {
                            Ok(b) if b.len() == 3 => {
                                let x = u32::from(b[0]) | u32::from(b[1]) << 8 | u32::from(b[2]) << 16;
                                (x & 1 == 1) == last && ((x >> 1) & 3) as u8 == ty && (x >> 3) == size
                            }
                            _ => false,
                        };
                        if !ok {
                            out.push((size, ty, last, format!("{got:?}")));
                        }
                    }
                }
                out
            })
            .collect();
        rec.evals(6 * (u64::from(MAX_BLOCK) + 1));
        rec.distinct(fnv_str("blk_write"));
        for (size, ty, last, got) in bad.into_iter().take(3) {
            mismatch(&rec, "serialize_block_header", &format!("type={ty}"), json!([size, ty, last]), got, "3 bytes per RFC".into());
        }
        sub.insert("block_header_writer".into(), json!({"exhaustive": true, "points": 6 * (u64::from(MAX_BLOCK) + 1)}));
    }

    // --- frame headers: every frame descriptor x window descriptor, field contents sampled per width
    if want("frame") {
        let samples: u64 = args.vol(6, 24);
        let bad: Vec<_> = (0u32..65536)
            .into_par_iter()
            .flat_map_iter(|x| {
                let fhd = x as u8;
                let wd = (x >> 8) as u8;
                let mut out = Vec::new();
                let mut r = Rng::for_case(args.seed, 141, u64::from(x));
                for s in 0..samples {
                    let ss = fhd & 0x20 != 0;
                    let did_len = [0usize, 1, 2, 4][(fhd & 3) as usize];
                    let fcs_len = match fhd >> 6 {
                        0 => usize::from(ss),
                        1 => 2,
                        2 => 4,
                        _ => 8,
                    };
                    let mut raw = vec![0x28, 0xB5, 0x2F, 0xFD, fhd];
                    if !ss {
                        raw.push(wd);
                    }
                    // field contents: boundary values first, then random
                    let pick = |r: &mut Rng, len: usize, s: u64| -> Vec<u8> {
                        let mut v = vec![0u8; len];
                        match s {
                            0 => {}
                            1 => v.iter_mut().for_each(|b| *b = 0xFF),
                            2 => {
                                if len > 0 {
                                    v[0] = 1
                                }
                            }
                            _ => r.fill(&mut v),
                        }
                        v
                    };
                    let did = pick(&mut r, did_len, s);
                    let fcs = pick(&mut r, fcs_len, (s + 1) % samples.max(4));
                    raw.extend_from_slice(&did);
                    raw.extend_from_slice(&fcs);
                    let header_len = raw.len();
                    raw.extend_from_slice(&[1, 0, 0]); // something behind the header
                    let mut did_v = 0u32;
                    for (i, b) in did.iter().enumerate() {
                        did_v |= u32::from(*b) << (8 * i);
                    }
                    let mut fcs_v = 0u64;
                    for (i, b) in fcs.iter().enumerate() {
                        fcs_v |= u64::from(*b) << (8 * i);
                    }
                    if fcs_len == 2 {
                        fcs_v += 256;
                    }
                    let want_window: Result<u64, ()> = if ss {
                        Ok(fcs_v)
                    } else {
                        let w = spec_window(wd);
                        if (1024..=MAX_WINDOW).contains(&w) {
                            Ok(w)
                        } else {
                            Err(())
                        }
                    };
                    let got = catch(|| dec::parse_frame_header(&raw));
                    let mut problems = Vec::new();
                    match &got {
                        Ok(Ok(h)) => {
                            if h.header_len as usize != header_len {
                                problems.push(("header_len", format!("{}", h.header_len), format!("{header_len}")));
                            }
                            if h.single_segment != ss || h.checksum != (fhd & 4 != 0) {
                                problems.push(("flags", format!("ss {} cks {}", h.single_segment, h.checksum), format!("ss {} cks {}", ss, fhd & 4 != 0)));
                            }
                            let want_did = if did_len == 0 || did_v == 0 { None } else { Some(did_v) };
                            if h.dict_id != want_did {
                                problems.push(("dict_id", format!("{:?}", h.dict_id), format!("{want_did:?}")));
                            }
                            let want_fcs = if fcs_len == 0 { 0 } else { fcs_v };
                            if h.frame_content_size != want_fcs {
                                problems.push(("fcs", format!("{}", h.frame_content_size), format!("{want_fcs}")));
                            }
                            match (&h.window_size, &want_window) {
                                (Ok(a), Ok(b)) if a == b => {}
                                (Err(_), Err(())) => {}
                                (a, b) => problems.push(("window", format!("{a:?}"), format!("{b:?}"))),
                            }
                        }
                        other => problems.push(("parse", format!("{other:?}"), "a parsed header".into())),
                    }
                    for (what, g, w) in problems {
                        out.push((hex(&raw[4..header_len]), what, g, w, wd, ss));
                    }
                }
                out
            })
            .collect();
        rec.evals(65536 * samples);
        for f in 0..=255u32 {
            rec.distinct(fnv_str(&format!("fhd{f}")));
        }
        let mut seen = std::collections::HashSet::new();
        for (raw, what, got, want, wd, ss) in bad {
            let disc = if what == "window" && !ss { format!("window wd={wd:#04x}") } else { what.to_string() };
            if seen.insert(disc.clone()) {
                mismatch(&rec, "parse_frame_header", &disc, json!(raw), got, want);
            } else {
                rec.count("violations_total", 1);
            }
        }
        sub.insert("frame_header_parser".into(), json!({"exhaustive": true, "points": 65536 * samples, "note": "all 65536 (frame descriptor, window descriptor) pairs, field contents sampled per width (all zero, all ones, one, random)"}));

        // what FrameCompressor can write: window from the matcher, checksum flag, nothing else
        let mut wins: Vec<u64> = Vec::new();
        for e in 0..=41u32 {
            for d in [-1i64, 0, 1] {
                let w = (1i64 << e) + d;
                if w >= 1 {
                    wins.push(w as u64);
                }
            }
            wins.push((1u64 << e) + (1u64 << e) / 2);
        }
        wins.retain(|w| *w <= (1u64 << 41));
        let mut r = Rng::for_case(args.seed, 142, 0);
        for _ in 0..2000 {
            wins.push(r.range(1, 1u64 << 41));
        }
        for w in wins {
            for cks in [false, true] {
                rec.eval();
                let got = catch(|| enc::serialize_frame_header(None, false, cks, None, Some(w)));
                let ok = match &got {
                    Ok(bytes) => match catch(|| dec::parse_frame_header(bytes)) {
                        Ok(Ok(h)) => {
                            // the decoder must be told a window that covers the matcher's window
                            // (rounding up is valid), and nothing else may appear in the header
                            h.header_len as usize == bytes.len()
                                && h.checksum == cks
                                && !h.single_segment
                                && h.dict_id.is_none()
                                && h.frame_content_size == 0
                                && bytes.len() == 6
                                && matches!(&h.window_size, Ok(pw) if *pw >= w && (*pw < 2 * w.max(1024) || *pw == 2048))
                                && spec_window(bytes[5]) == *h.window_size.as_ref().unwrap()
                        }
                        _ => false,
                    },
                    Err(_) => false,
                };
                if !ok {
                    mismatch(&rec, "serialize_frame_header", &format!("window_log={}", 63 - w.leading_zeros()), json!([w, cks]), format!("{got:?}"), "window >= requested, same flags".into());
                }
            }
        }
        rec.distinct(fnv_str("fh_write"));
        sub.insert("frame_header_writer".into(), json!({"exhaustive": false, "note": "windows 1..=2^41 at every power of two +-1 and 1.5x, plus 2000 random, x checksum flag: the only headers FrameCompressor emits"}));
    }

    // --- literals section headers
    if want("lit") {
        let check_hdr = |ty: u8, sf: u8, regen: u32, comp: u32| -> Option<(String, String, String)> {
            let mut raw = spec_write_lit_header(ty, sf, regen, comp);
            let want = spec_parse_lit_header(&raw);
            // (a sampled value wider than its field spills into the next one: `want` is what the bytes mean, which is what counts)
            raw.extend_from_slice(&[0; 3]);
            let got = catch(|| dec::parse_literals_header(&raw));
            let ok = match &got {
                Ok(Ok(h)) => {
                    h.header_len == want.len
                        && h.ls_type == want.ty
                        && h.regenerated_size == want.regen
                        && (want.ty < 2 || (h.compressed_size == want.comp && h.num_streams == want.streams))
                }
                _ => false,
            };
            if ok {
                None
            } else {
                Some((hex(&raw[..want.len as usize]), format!("{got:?}"), format!("{want:?}")))
            }
        };
        let mut bad: Vec<(String, (String, String, String))> = Vec::new();
        let mut points = 0u64;
        // raw / rle: all three widths, all values
        for ty in 0..2u8 {
            for (sf, bits) in [(0u8, 5u32), (2, 5), (1, 12), (3, 20)] {
                let b: Vec<_> = (0u32..(1 << bits))
                    .into_par_iter()
                    .filter_map(|regen| check_hdr(ty, sf, regen, 0))
                    .collect();
                points += 1 << bits;
                rec.distinct(fnv_str(&format!("lit{ty}{sf}")));
                bad.extend(b.into_iter().take(2).map(|x| (format!("type={ty} sf={sf}"), x)));
            }
        }
        // compressed / treeless: 10+10 all
        for ty in 2..4u8 {
            for sf in 0..2u8 {
                let b: Vec<_> = (0u32..(1 << 20))
                    .into_par_iter()
                    .filter_map(|x| check_hdr(ty, sf, x & 1023, x >> 10))
                    .collect();
                points += 1 << 20;
                rec.distinct(fnv_str(&format!("lit{ty}{sf}")));
                bad.extend(b.into_iter().take(2).map(|x| (format!("type={ty} sf={sf}"), x)));
            }
            // 14+14: all in thorough, marginals + sample in quick
            let full14 = args.thorough();
            if full14 {
                let b: Vec<_> = (0u32..(1 << 14))
                    .into_par_iter()
                    .flat_map_iter(|regen| (0u32..(1 << 14)).filter_map(move |comp| check_hdr(ty, 2, regen, comp)).take(1))
                    .collect();
                points += 1 << 28;
                bad.extend(b.into_iter().take(2).map(|x| (format!("type={ty} sf=2"), x)));
            } else {
                let b: Vec<_> = (0u32..(1 << 14))
                    .into_par_iter()
                    .flat_map_iter(|v| {
                        let mut r = Rng::for_case(args.seed, 143, u64::from(v));
                        let mut o = Vec::new();
                        for (a, b) in [(v, 0), (v, (1 << 14) - 1), (0, v), ((1 << 14) - 1, v), (v, r.below(1 << 14) as u32), (r.below(1 << 14) as u32, v)] {
                            o.extend(check_hdr(ty, 2, a, b));
                        }
                        o
                    })
                    .collect();
                points += 6 << 14;
                bad.extend(b.into_iter().take(2).map(|x| (format!("type={ty} sf=2"), x)));
            }
            rec.distinct(fnv_str(&format!("lit{ty}2")));
            // 18+18: marginals + sample
            let b: Vec<_> = (0u32..(1 << 18))
                .into_par_iter()
                .flat_map_iter(|v| {
                    let mut r = Rng::for_case(args.seed, 144, u64::from(v));
                    let mut o = Vec::new();
                    for (a, b) in [(v, 0), (v, (1 << 18) - 1), (0, v), ((1 << 18) - 1, v), (v, r.below(1 << 18) as u32), (r.below(1 << 18) as u32, v)] {
                        o.extend(check_hdr(ty, 3, a, b));
                    }
                    o
                })
                .collect();
            points += 6 << 18;
            rec.distinct(fnv_str(&format!("lit{ty}3")));
            bad.extend(b.into_iter().take(2).map(|x| (format!("type={ty} sf=3"), x)));
        }
        rec.evals(points);
        let mut seen = std::collections::HashSet::new();
        for (disc, (raw, got, want)) in bad {
            if seen.insert(disc.clone()) {
                mismatch(&rec, "parse_literals_header", &disc, json!(raw), got, want);
            }
        }
        sub.insert("literals_header_parser".into(), json!({"exhaustive_5_12_20_bit_and_10_10": true, "exhaustive_14_14": args.thorough(), "exhaustive_18_18": false, "points": points}));

        // the headers the compressor writes: raw literals for every length, compressed ones sampled
        let step = if args.thorough() { 1 } else { 7 };
        let lens: Vec<usize> = (0..=MAX_BLOCK as usize).step_by(step).chain([MAX_BLOCK as usize]).collect();
        let b: Vec<_> = lens
            .par_iter()
            .filter_map(|&len| {
                let lits = vec![0x5Au8; len];
                let got = catch(|| enc::raw_literals(&lits));
                let ok = match &got {
                    Ok(sec) if sec.len() >= 3 => {
                        let h = spec_parse_lit_header(&{
                            let mut s = sec.clone();
                            s.extend_from_slice(&[0; 5]);
                            s
                        });
                        h.ty == 0 && h.regen as usize == len && sec.len() == h.len as usize + len
                    }
                    _ => false,
                };
                if ok {
                    None
                } else {
                    Some((len, format!("{:?}", got.map(|s| hex_brief(&s)))))
                }
            })
            .collect();
        rec.evals(lens.len() as u64);
        rec.distinct(fnv_str("lit_write_raw"));
        for (len, got) in b.into_iter().take(2) {
            mismatch(&rec, "raw_literals", "writer", json!(len), got, format!("raw literals header with regenerated size {len}"));
        }
        let n = args.vol(600, 6000);
        let b: Vec<_> = (0..n)
            .into_par_iter()
            .filter_map(|i| {
                let mut r = Rng::for_case(args.seed, 145, i);
                // lengths around the size format thresholds, alphabets that do and do not compress
                let len = match r.below(6) {
                    0 => r.usize(1025, 1100),
                    1 => r.usize(16300, 16500),
                    2 => r.usize(1025, 131072),
                    3 => *r.pick(&[1025usize, 16383, 16384, 16385, 65535, 65536, 131071, 131072]),
                    _ => r.usize(1025, 40000),
                };
                let alpha = *r.pick(&[2u64, 3, 5, 16, 17, 60, 128, 200, 255, 256]);
                let skew = r.below(3);
                let lits: Vec<u8> = (0..len)
                    .map(|_| {
                        let x = r.below(alpha);
                        (if skew == 0 { x } else { x * r.below(alpha) / alpha }) as u8
                    })
                    .collect();
                // a single distinct byte is outside this sub-domain (the Huffman coder needs two symbols;
                // that case is judged by C16 where a user matcher can produce it)
                let mut lits = lits;
                if lits.iter().all(|b| *b == lits[0]) {
                    lits[1] = lits[0] ^ 1;
                }
                let got = catch(|| enc::compress_literals(&lits, None));
                let res = match &got {
                    Ok((sec, _)) => {
                        let mut s = sec.clone();
                        s.extend_from_slice(&[0; 5]);
                        let h = spec_parse_lit_header(&s);
                        let body = sec.len() - h.len as usize;
                        let size_ok = match h.ty {
                            0 => body == len,
                            2 => h.comp == Some(body as u32),
                            _ => false,
                        };
                        // the regenerated size must fit the chosen size format
                        if h.regen as usize == len && size_ok {
                            None
                        } else {
                            Some(format!("header {:?} body {} for {} literals", h, body, len))
                        }
                    }
                    Err(p) => Some(format!("panic {}", p.what)),
                };
                res.map(|e| (len, alpha, e))
            })
            .collect();
        rec.evals(n);
        rec.distinct(fnv_str("lit_write_compressed"));
        for (len, alpha, got) in b.into_iter().take(2) {
            mismatch(&rec, "compress_literals", "writer", json!({"len": len, "alphabet": alpha}), got, "self consistent literals header".into());
        }
        sub.insert("literals_header_writer".into(), json!({"raw_lengths": lens.len(), "compressed_samples": n}));
    }

    // --- boundary sizes through the whole decoder (the parsers above are checked in isolation; the limits of the
    //     format are enforced, and the largest legal sizes accepted, only by the block decoder around them)
    if want("boundary") {
        use std::io::Read as _;
        let frame_of = |block_type: u8, declared: u32, body: &[u8]| -> Vec<u8> {
            // window descriptor 0x38 = 128 KiB, no checksum, no content size
            let mut f = vec![0x28, 0xB5, 0x2F, 0xFD, 0x00, 0x38];
            let bh: u32 = 1 | (u32::from(block_type) << 1) | (declared << 3);
            f.extend_from_slice(&bh.to_le_bytes()[..3]);
            f.extend_from_slice(body);
            f
        };
        let decode = |frame: &[u8]| -> Result<Result<Vec<u8>, String>, Panicked> {
            catch(|| {
                let mut out = Vec::new();
                match ruzstd::decoding::StreamingDecoder::new(frame) {
                    Err(e) => Err(format!("{e:?}")),
                    Ok(mut d) => d.read_to_end(&mut out).map(|_| out).map_err(|e| format!("{e:?}")),
                }
            })
        };
        // (what, frame, Some(expected content) | None = must be refused)
        let mut cases: Vec<(String, Vec<u8>, Option<Vec<u8>>)> = Vec::new();
        // literals written by the compressor's own literals encoder, at the edges of every size format and at the block maximum
        let mut r = Rng::for_case(args.seed, 14, 99);
        for &n in &[6usize, 31, 32, 1023, 1024, 1025, 4095, 4096, 16383, 16384, 16385, 65535, 65536, 131070, 131071, 131072] {
            for alpha in [2u32, 5, 40] {
                let mut lits: Vec<u8> = (0..n).map(|_| {
                    // skewed so that Huffman coding always pays off
                    let x = r.below(u64::from(alpha) * u64::from(alpha)) as f64;
                    x.sqrt() as u8
                }).collect();
                lits[0] = 0;
                lits[1] = 1;
                let sec = match catch(|| enc::compress_literals(&lits, None)) {
                    Ok((sec, _)) => sec,
                    Err(p) => {
                        mismatch(&rec, "boundary", "compress_literals", json!({"len": n, "alphabet": alpha}), format!("panic {}", p.what), "a literals section".into());
                        continue;
                    }
                };
                let mut body = sec;
                body.push(0); // no sequences
                if body.len() <= MAX_BLOCK as usize {
                    cases.push((format!("compressor literals n={n} alphabet={alpha}"), frame_of(2, body.len() as u32, &body), Some(lits)));
                }
            }
        }
        // RLE literals: every size format at its edges, the block maximum, and just above it
        for &(sf, n) in &[(0u8, 0u32), (0, 31), (1, 32), (1, 4095), (3, 4096), (3, 131071), (3, 131072), (3, 131073), (3, 262144), (3, 1048575), (1, 0), (3, 0), (3, 31)] {
            let mut body = spec_write_lit_header(1, sf, n, 0);
            body.push(0x5A);
            body.push(0);
            let want = if n <= MAX_BLOCK { Some(vec![0x5A; n as usize]) } else { None };
            cases.push((format!("rle literals sf={sf} n={n}"), frame_of(2, body.len() as u32, &body), want));
        }
        // raw literals filling the block exactly (block content = 128 KiB: 3 header + n + 1)
        for &n in &[MAX_BLOCK - 4, MAX_BLOCK - 5] {
            let lits: Vec<u8> = (0..n).map(|i| (i * 7 + i / 251) as u8).collect();
            let mut body = spec_write_lit_header(0, 3, n, 0);
            body.extend_from_slice(&lits);
            body.push(0);
            cases.push((format!("raw literals n={n} block={}", body.len()), frame_of(2, body.len() as u32, &body), Some(lits)));
        }
        // raw and RLE blocks at and above the block maximum
        for &n in &[0u32, 1, MAX_BLOCK - 1, MAX_BLOCK, MAX_BLOCK + 1, (1 << 21) - 1] {
            let data: Vec<u8> = (0..n).map(|i| (i * 13 + i / 255) as u8).collect();
            cases.push((format!("raw block n={n}"), frame_of(0, n, &data), if n <= MAX_BLOCK { Some(data) } else { None }));
            cases.push((format!("rle block n={n}"), frame_of(1, n, &[0xA5]), if n <= MAX_BLOCK { Some(vec![0xA5; n as usize]) } else { None }));
        }
        // a compressed block declared above the maximum, and the reserved type
        {
            let mut body = spec_write_lit_header(1, 0, 5, 0);
            body.push(1);
            body.push(0);
            body.resize(MAX_BLOCK as usize + 1, 0);
            cases.push(("compressed block declared 128 KiB + 1".into(), frame_of(2, MAX_BLOCK + 1, &body), None));
            cases.push(("reserved block type".into(), frame_of(3, 3, &[0, 0, 0]), None));
        }
        // literals + one match regenerating exactly the block maximum / one byte more (RLE literals, RLE tables)
        for &total in &[MAX_BLOCK, MAX_BLOCK + 1] {
            // 1000 literals then a match of (total - 1000) at offset 1: ML code 52 (base 65539, 16 bits), LL code 0.., via RLE tables
            let ll = 1000u32;
            let ml = total - ll;
            let (llc, llx, llb) = spec_code(&LL_BASE, &LL_BITS, ll);
            let (mlc, mlx, mlb) = spec_code(&ML_BASE, &ML_BITS, ml);
            let mut body = spec_write_lit_header(1, 3, ll, 0);
            body.push(0x11);
            body.push(1); // one sequence
            body.push(0b01_01_01_00); // RLE, RLE, RLE
            body.push(llc);
            body.push(2); // offset code 2: value 4 + 2 bits -> offset value 4 = offset 1
            body.push(mlc);
            // bitstream, read backwards: (states have 0 bits) offset extra (2 bits = 0), match extra, literal extra, then the end mark
            let mut acc: u128 = 0;
            let mut nb = 0u32;
            let mut put = |v: u32, n: u8| {
                acc |= u128::from(v) << nb;
                nb += u32::from(n);
            };
            put(llx, llb);
            put(mlx, mlb);
            put(0, 2);
            put(1, 1);
            let nbytes = nb.div_ceil(8) as usize;
            body.extend_from_slice(&acc.to_le_bytes()[..nbytes]);
            let want = if total <= MAX_BLOCK { Some(vec![0x11; total as usize]) } else { None };
            cases.push((format!("rle literals {ll} + one match of {ml}: block regenerates {total}"), frame_of(2, body.len() as u32, &body), want));
        }
        let mut accepted = 0u64;
        let mut refused = 0u64;
        for (what, frame, want) in &cases {
            rec.eval();
            let got = decode(frame);
            let ok = match (&got, want) {
                (Ok(Ok(out)), Some(w)) => out == w,
                (Ok(Err(_)), None) => true,
                _ => false,
            };
            if ok {
                if want.is_some() {
                    accepted += 1;
                } else {
                    refused += 1;
                }
                rec.distinct(fnv_str(&format!("boundary {}", what.split(" n=").next().unwrap_or(what))));
            } else {
                let got_s = match &got {
                    Ok(Ok(out)) => format!("decoded {} bytes (fnv {:016x})", out.len(), fnv(out)),
                    Ok(Err(e)) => format!("refused: {}", e.chars().take(200).collect::<String>()),
                    Err(p) => format!("panic {}", p.what),
                };
                let want_s = match want {
                    Some(w) => format!("decoded {} bytes (fnv {:016x})", w.len(), fnv(w)),
                    None => "refused (size the format forbids)".into(),
                };
                mismatch(&rec, "boundary", what, json!({"frame_head": hex(&frame[..frame.len().min(32)]), "frame_len": frame.len()}), got_s, want_s);
            }
        }
        sub.insert("boundary_frames".into(), json!({"cases": cases.len(), "accepted_as_required": accepted, "refused_as_required": refused}));
    }

    rec.set_extra("subdomains", serde_json::Value::Object(sub));
    rec.set_extra("exhaustive", json!(false));
    rec.sample(json!({"domain": "ll", "input": 131071, "spec": format!("{:?}", spec_code(&LL_BASE, &LL_BITS, 131071))}));
    rec.sample(json!({"domain": "block", "input": "0x200005", "spec": "type 2 size 0x40000 > 128 KiB: refuse"}));
    rec.sample(json!({"domain": "frame", "input": "fhd=0x00 wd=0xff", "spec": format!("window {}", spec_window(0xFF))}));
    rec.finish()
}
