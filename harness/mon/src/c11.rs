//! C11 Frames declaring a window above the configured limit are rejected up front.
//!
//! Complete matrix: every window descriptor (and single segment content sizes in every field
//! width around every boundary) x limit classes x position of the frame in the decoder's history
//! x every front end. Expected outcome from the RFC window formula; a rejection must carry the
//! declared window and the effective limit and must not have requested window sized memory
//! (counting allocator).

use crate::calloc;
use crate::common::*;
use rayon::prelude::*;
use ruzstd::decoding::errors::FrameDecoderError;
use ruzstd::decoding::{FrameDecoder, StreamingDecoder, DEFAULT_MAX_WINDOW_SIZE};
use serde_json::json;

const FORMAT_MAX: u64 = (1u64 << 41) + 7 * (1u64 << 38);
/// on the reuse path an accepted window is reserved eagerly, so do not accept more than this there
const REUSE_ACCEPT_CAP: u64 = 1 << 30;

fn spec_window(wd: u8) -> u64 {
    let base = 1u64 << (10 + u64::from(wd >> 3));
    base + (base / 8) * u64::from(wd & 7)
}

#[derive(Clone, Copy, Debug, PartialEq, Eq)]
enum Decl {
    Descriptor(u8),
    /// single segment: (content size, field width)
    Single(u64, u8),
    /// window descriptor and a (small) Frame_Content_Size field: the window is the descriptor's, whatever the frame claims to contain
    DescriptorFcs(u8, u8, u8),
}

impl Decl {
    fn window(&self) -> u64 {
        match self {
            Decl::Descriptor(wd) | Decl::DescriptorFcs(wd, _, _) => spec_window(*wd),
            Decl::Single(fcs, _) => *fcs,
        }
    }
    /// header + an empty last raw block
    fn frame(&self) -> Vec<u8> {
        let mut f = vec![0x28, 0xB5, 0x2F, 0xFD];
        match self {
            Decl::Descriptor(wd) => {
                f.push(0x00);
                f.push(*wd);
            }
            Decl::DescriptorFcs(wd, fcs, width) => {
                f.push(if *width == 4 { 0x80 } else { 0xC0 });
                f.push(*wd);
                f.extend_from_slice(&u64::from(*fcs).to_le_bytes()[..*width as usize]);
            }
            Decl::Single(fcs, width) => {
                let flag = match width {
                    1 => 0u8,
                    2 => 1,
                    4 => 2,
                    _ => 3,
                };
                f.push(0x20 | (flag << 6));
                let v = if *width == 2 { fcs - 256 } else { *fcs };
                f.extend_from_slice(&v.to_le_bytes()[..*width as usize]);
            }
        }
        f.extend_from_slice(&[0x01, 0x00, 0x00]);
        f
    }
    fn class(&self) -> String {
        match self {
            Decl::Descriptor(wd) => format!("wd={wd:#04x}"),
            Decl::Single(_, w) => format!("single_segment fcs_width={w}"),
            Decl::DescriptorFcs(wd, _, w) => format!("wd={wd:#04x} with fcs_width={w}"),
        }
    }
}

#[derive(Clone, Copy, Debug, PartialEq, Eq)]
enum Position {
    First,
    AfterCompleted,
    AfterFailed,
    AfterRejected,
}

#[derive(Clone, Copy, Debug, PartialEq, Eq)]
enum Front {
    Reset,
    Init,
    DecodeAll,
    DecodeAllToVec,
    DecodeFromTo,
    StreamingNew,
    StreamingWithLimit,
    StreamingWithDecoder,
}

const FRONTS: [Front; 8] = [
    Front::Reset,
    Front::Init,
    Front::DecodeAll,
    Front::DecodeAllToVec,
    Front::DecodeFromTo,
    Front::StreamingNew,
    Front::StreamingWithLimit,
    Front::StreamingWithDecoder,
];

#[derive(Debug)]
enum Outcome {
    Accepted,
    TooBig { requested: u64, max: u64 },
    OtherError(String),
}

fn classify(e: FrameDecoderError) -> Outcome {
    match e {
        FrameDecoderError::WindowSizeTooBig { requested, max } => Outcome::TooBig { requested, max },
        other => Outcome::OtherError(format!("{other}")),
    }
}

/// a small valid frame that completes (raw block "abc")
fn small_frame() -> Vec<u8> {
    vec![0x28, 0xB5, 0x2F, 0xFD, 0x00, 0x00, 0x19, 0x00, 0x00, b'a', b'b', b'c']
}

/// bring a decoder with the given limit into the history position; returns None if the position does not exist for the front end
fn prepare(limit: Option<u64>, pos: Position) -> FrameDecoder {
    let mut d = FrameDecoder::new();
    // the history runs with the default limit; the limit under test is set before the probe frame
    match pos {
        Position::First => {}
        Position::AfterCompleted => {
            let f = small_frame();
            let mut out = [0u8; 16];
            let n = d.decode_all(&f, &mut out).expect("small frame decodes");
            assert_eq!(&out[..n], b"abc");
        }
        Position::AfterFailed => {
            // compressed block with a bad literals section: fails in the block body
            let f = [0x28, 0xB5, 0x2F, 0xFD, 0x00, 0x00, 0x25, 0x00, 0x00, 0xFF, 0xFF, 0xFF, 0xFF];
            let mut out = [0u8; 16];
            let _ = d.decode_all(&f, &mut out);
        }
        Position::AfterRejected => {
            // a frame above every limit used here except the format maximum
            let f = Decl::Descriptor(0xFF).frame();
            let mut out = [0u8; 16];
            let _ = d.decode_all(&f, &mut out);
        }
    }
    if let Some(l) = limit {
        d.set_max_window_size(l);
    }
    d
}

fn drive(front: Front, mut d: FrameDecoder, limit: Option<u64>, frame: &[u8]) -> Result<Outcome, String> {
    let finish = |d: &mut FrameDecoder, mut src: &[u8]| -> Result<Outcome, String> {
        // accepted at init: the empty frame must complete without output
        d.decode_blocks(&mut src, ruzstd::decoding::BlockDecodingStrategy::All)
            .map_err(|e| format!("accepted frame failed to decode: {e}"))?;
        if !d.is_finished() || d.can_collect() != 0 {
            return Err("accepted empty frame did not finish".into());
        }
        Ok(Outcome::Accepted)
    };
    match front {
        Front::Reset | Front::Init => {
            let mut src = frame;
            let r = if front == Front::Reset { d.reset(&mut src) } else { d.init(&mut src) };
            match r {
                Ok(()) => finish(&mut d, src),
                Err(e) => Ok(classify(e)),
            }
        }
        Front::DecodeAll => {
            let mut out = [0u8; 8];
            match d.decode_all(frame, &mut out) {
                Ok(0) => Ok(Outcome::Accepted),
                Ok(n) => Err(format!("decode_all produced {n} bytes from an empty frame")),
                Err(e) => Ok(classify(e)),
            }
        }
        Front::DecodeAllToVec => {
            let mut out = Vec::with_capacity(8);
            match d.decode_all_to_vec(frame, &mut out) {
                Ok(()) if out.is_empty() => Ok(Outcome::Accepted),
                Ok(()) => Err("decode_all_to_vec produced bytes from an empty frame".into()),
                Err(e) => Ok(classify(e)),
            }
        }
        Front::DecodeFromTo => {
            let mut out = [0u8; 8];
            match d.decode_from_to(frame, &mut out) {
                Ok((read, 0)) if read == frame.len() && d.is_finished() => Ok(Outcome::Accepted),
                Ok(x) => Err(format!("decode_from_to returned {x:?} for a complete empty frame of {} bytes", frame.len())),
                Err(e) => Ok(classify(e)),
            }
        }
        Front::StreamingNew => match StreamingDecoder::new(frame) {
            Ok(mut s) => {
                let mut buf = [0u8; 8];
                match std::io::Read::read(&mut s, &mut buf) {
                    Ok(0) => Ok(Outcome::Accepted),
                    other => Err(format!("streaming read gave {other:?}")),
                }
            }
            Err(e) => Ok(classify(e)),
        },
        Front::StreamingWithLimit => match StreamingDecoder::new_with_max_window_size(frame, limit.unwrap_or(DEFAULT_MAX_WINDOW_SIZE)) {
            Ok(mut s) => {
                let mut buf = [0u8; 8];
                match std::io::Read::read(&mut s, &mut buf) {
                    Ok(0) => Ok(Outcome::Accepted),
                    other => Err(format!("streaming read gave {other:?}")),
                }
            }
            Err(e) => Ok(classify(e)),
        },
        Front::StreamingWithDecoder => match StreamingDecoder::new_with_decoder(frame, &mut d) {
            Ok(mut s) => {
                let mut buf = [0u8; 8];
                match std::io::Read::read(&mut s, &mut buf) {
                    Ok(0) => Ok(Outcome::Accepted),
                    other => Err(format!("streaming read gave {other:?}")),
                }
            }
            Err(e) => Ok(classify(e)),
        },
    }
}

struct Case {
    decl: Decl,
    limit: Option<u64>,
    limit_class: &'static str,
    pos: Position,
    front: Front,
}

fn run_case(rec: &Recorder, c: &Case) {
    rec.eval();
    let window = c.decl.window();
    let effective = c.limit.unwrap_or(DEFAULT_MAX_WINDOW_SIZE).min(FORMAT_MAX);
    // StreamingDecoder::new has no way to pass a limit: it uses the default
    let effective = if c.front == Front::StreamingNew { DEFAULT_MAX_WINDOW_SIZE } else { effective };
    let legal = match c.decl {
        Decl::Descriptor(_) | Decl::DescriptorFcs(..) => (1024..=FORMAT_MAX).contains(&window),
        Decl::Single(..) => true,
    };
    let expect_accept = legal && window <= effective;
    let frame = c.decl.frame();
    let site = format!("{:?}/{:?}", c.front, c.pos);
    let disc = format!("{} limit={}", c.decl.class(), c.limit_class);
    let replay = json!({"frame": hex(&frame), "limit": c.limit, "position": format!("{:?}", c.pos), "front_end": format!("{:?}", c.front)});

    let res = catch(|| {
        let d = prepare(if c.front == Front::StreamingNew { None } else { c.limit }, c.pos);
        let getter = d.max_window_size();
        calloc::reset_peak();
        let out = calloc::scoped(|| drive(c.front, d, c.limit, &frame));
        let st = calloc::stats();
        (out, st, getter)
    });
    let (out, st, getter) = match res {
        Ok(x) => x,
        Err(p) => {
            rec.panic_violation(&p, &disc, json!({"front": site}), replay);
            return;
        }
    };
    if c.front != Front::StreamingNew && c.front != Front::StreamingWithLimit && getter != effective {
        rec.violation(Sig::new("limit_not_clamped", "max_window_size()", c.limit_class), json!({"getter": getter, "expected": effective}), replay.clone());
    }
    match out {
        Err(msg) => rec.violation(Sig::new("accepted_frame_misbehaves", &site, &disc), json!({"what": msg}), replay),
        Ok(Outcome::Accepted) => {
            if !expect_accept {
                rec.violation(Sig::new("acceptance", &site, &disc), json!({"window": window, "effective_limit": effective, "got": "accepted", "expected": "rejected"}), replay);
            }
        }
        Ok(Outcome::TooBig { requested, max }) => {
            if expect_accept {
                rec.violation(Sig::new("acceptance", &site, &disc), json!({"window": window, "effective_limit": effective, "got": "rejected", "expected": "accepted"}), replay);
            } else if !legal {
                // illegal windows may be refused with either error
            } else if requested != window || max != effective {
                rec.violation(Sig::new("error_fields", &site, &disc), json!({"requested": requested, "max": max, "declared_window": window, "effective_limit": effective}), replay);
            } else if calloc::ENABLED && (st.largest >= 64 * 1024 || st.requested > 256 * 1024) {
                rec.violation(Sig::new("allocation_before_rejection", &site, &disc), json!({"largest_request": st.largest, "total_requested": st.requested}), replay);
            }
        }
        Ok(Outcome::OtherError(e)) => {
            if expect_accept || legal {
                rec.violation(Sig::new("acceptance", &site, &disc), json!({"window": window, "effective_limit": effective, "got": format!("error {e}"), "expected": if expect_accept { "accepted" } else { "WindowSizeTooBig" }}), replay);
            }
        }
    }
    rec.distinct(fnv_str(&format!("{}|{}|{:?}|{:?}|{}", c.decl.class(), c.limit_class, c.pos, c.front, expect_accept)));
}

pub fn run(args: &Args) -> i32 {
    let rec = Recorder::new("C11", "exploration", args);
    rec.set_rule("one evaluation = one (declared window, limit, history position, front end) case run on the real decoder; distinct_nontrivial = distinct (descriptor or single-segment width, limit class, position, front end, expected outcome) tuples; the matrix is enumerated completely (coverage.exhaustive refers to descriptor x limit class x position x front end)");
    rec.assume("frames are a header followed by an empty last raw block, so that accepted frames complete; on the reuse path windows above 1 GiB are only exercised with limits that reject them (acceptance reserves the window eagerly there)");

    let mut decls: Vec<Decl> = (0..=255u8).map(Decl::Descriptor).collect();
    // every descriptor again in a header that also carries a content size (far below every limit)
    decls.extend((0..=255u8).map(|wd| Decl::DescriptorFcs(wd, [0u8, 5, 8][wd as usize % 3], if wd % 2 == 0 { 4 } else { 8 })));
    // single segment content sizes in every field width around every boundary
    let mut singles: Vec<(u64, u8)> = Vec::new();
    for v in [0u64, 1, 255] {
        singles.push((v, 1));
    }
    for v in [256u64, 257, 1023, 1024, 1025, 65535, 65536, 65791] {
        singles.push((v, 2));
    }
    let around = |x: u64| [x.saturating_sub(1), x, x.saturating_add(1)];
    for b in [0u64, 1024, 1 << 20, DEFAULT_MAX_WINDOW_SIZE, 1 << 30, (1 << 31) - 1, 1 << 31] {
        for v in around(b) {
            if v <= u32::MAX as u64 {
                singles.push((v, 4));
            }
            singles.push((v, 8));
        }
    }
    singles.push((u32::MAX as u64, 4));
    for b in [1u64 << 32, 1 << 41, FORMAT_MAX, 1 << 62, u64::MAX - 1] {
        for v in around(b) {
            singles.push((v, 8));
        }
    }
    singles.push((u64::MAX, 8));
    singles.sort();
    singles.dedup();
    decls.extend(singles.iter().map(|(v, w)| Decl::Single(*v, *w)));

    let positions = [Position::First, Position::AfterCompleted, Position::AfterFailed, Position::AfterRejected];
    let mut cases: Vec<Case> = Vec::new();
    for decl in &decls {
        let w = decl.window();
        let limits: Vec<(Option<u64>, &'static str)> = vec![
            (None, "default"),
            (Some(0), "0"),
            (Some(1024), "1KiB"),
            (Some(w.saturating_sub(1)), "W-1"),
            (Some(w), "W"),
            (Some(w.saturating_add(1)), "W+1"),
            (Some(1 << 31), "2^31"),
            (Some(FORMAT_MAX), "format_max"),
            (Some(u64::MAX), "u64_max"),
        ];
        for (limit, limit_class) in limits {
            for pos in positions {
                for front in FRONTS {
                    // fronts that always start from a fresh decoder have only the first position
                    let fresh_only = matches!(front, Front::StreamingNew | Front::StreamingWithLimit | Front::DecodeFromTo);
                    if fresh_only && pos != Position::First {
                        continue;
                    }
                    if front == Front::StreamingNew && limit.is_some() {
                        continue;
                    }
                    // eager reservation on reuse: do not accept giant windows there
                    let effective = limit.unwrap_or(DEFAULT_MAX_WINDOW_SIZE).min(FORMAT_MAX);
                    let reuse = matches!(pos, Position::AfterCompleted | Position::AfterFailed);
                    if reuse && w <= effective && w > REUSE_ACCEPT_CAP {
                        continue;
                    }
                    cases.push(Case { decl: *decl, limit, limit_class, pos, front });
                }
            }
        }
    }
    rec.count("cases", cases.len() as u64);
    rec.count("window_descriptors", 256);
    rec.count("single_segment_sizes", singles.len() as u64);
    // few threads: accepted large windows reserve (virtual) memory
    cases.par_iter().enumerate().for_each(|(k, c)| {
        let _g = case_guard(11, k as u64);
        run_case(&rec, c)
    });
    rec.absorb_feats();
    rec.set_extra("exhaustive", json!(true));
    rec.set_extra("allocation_check", json!(calloc::ENABLED));
    rec.sample(json!({"frame": hex(&Decl::Descriptor(0x88).frame()), "declared_window": spec_window(0x88), "limit": "default (128 MiB)", "position": "AfterCompleted", "front_end": "Reset", "expected": "WindowSizeTooBig{requested: 134217728+..., max: 134217728}"}));
    rec.sample(json!({"frame": hex(&Decl::Single(1 << 31, 8).frame()), "declared_window": 1u64 << 31, "limit": "W", "position": "First", "front_end": "DecodeAll", "expected": "accepted"}));
    rec.finish()
}
