//! C07 A reused decoder behaves exactly like a fresh one.
//!
//! For a history (frames that completed, were abandoned midway, or failed at some stage, with and
//! without dictionaries, big and small windows) and a probe frame, the probe is driven with the same
//! schedule on the decoder that went through the history and on a fresh decoder with the same
//! dictionaries registered; every observable must be identical. The probe set contains valid frames
//! and frames that *read* per-frame state before writing it (treeless first block, Repeat mode first,
//! repeat offsets first, offsets reaching before the start of the output, checksums).

use crate::common::*;
use crate::frames;
use ruzstd::decoding::{BlockDecodingStrategy, Dictionary, FrameDecoder};
use serde_json::json;
use std::sync::OnceLock;
use zspec::synth;

#[derive(Clone)]
struct Probe {
    name: String,
    class: &'static str,
    bytes: Vec<u8>,
}

#[derive(Clone)]
enum HistItem {
    /// decode completely and collect everything
    Complete(Vec<u8>, String),
    /// decode only `blocks` blocks, collect (or not), then walk away
    Abandon { frame: Vec<u8>, blocks: usize, collect: bool, name: String },
    /// a damaged frame: drive it until the error
    Fail(Vec<u8>, String),
    /// change the window limit (applied to the fresh decoder too)
    SetLimit(u64),
    /// an older version of one of the dictionaries (same id, same tables, other content) is registered with add_dict, a
    /// frame written against it is decoded, then the current version is registered again under the same id
    OldDictionaryEpisode { old_raw: Vec<u8>, frame: Vec<u8>, current_raw: Vec<u8>, idx: usize },
}

fn dicts() -> &'static Vec<(zspec::dict::Dict, Vec<u8>)> {
    static D: OnceLock<Vec<(zspec::dict::Dict, Vec<u8>)>> = OnceLock::new();
    D.get_or_init(|| {
        let mut z = zspec::rng::Rng::new(0xD1C7);
        (0..3)
            .map(|i| {
                let d = synth::make_dict(&mut z, 1000 + i, 300 + 700 * i as usize);
                let raw = zspec::dict::write_dict(&d);
                (d, raw)
            })
            .collect()
    })
}

fn new_decoder() -> FrameDecoder {
    let mut d = FrameDecoder::new();
    for (_, raw) in dicts() {
        let dd = Dictionary::decode_dict(raw).expect("model dictionary parses");
        d.add_dict(dd).unwrap();
    }
    d
}

fn probes() -> &'static Vec<Probe> {
    static P: OnceLock<Vec<Probe>> = OnceLock::new();
    P.get_or_init(|| {
        let mut out = Vec::new();
        // frames that read state before writing it, and other hostile plans: invalid frames are fine as probes,
        // a fresh decoder gives *some* deterministic outcome and the reused one must give the same
        for (name, plan) in synth::hostile_matrix() {
            let s = synth::synthesise(&plan);
            if s.bytes.len() <= 100_000 {
                let class = if name.contains("repeat_mode") {
                    "repeat mode without previous table"
                } else if name.contains("treeless") {
                    "treeless without previous table"
                } else if name.contains("offset") {
                    "offset before start of output"
                } else if name.contains("dict") {
                    "dictionary reach"
                } else {
                    "other hostile"
                };
                out.push(Probe { name: format!("hostile: {name}"), class, bytes: s.bytes });
            }
        }
        // valid frames of the feature matrix: repeat offsets first, RLE / FSE / repeat tables, checksums, dictionaries, small windows
        for (name, plan) in synth::feature_matrix() {
            let s = synth::synthesise(&plan);
            if s.bytes.len() <= 60_000 && s.expected.len() <= 300_000 {
                let class = if name.contains("rep") { "valid: repeat offsets" } else if name.contains("dict") { "valid: dictionary" } else { "valid: feature matrix" };
                out.push(Probe { name: format!("valid: {name}"), class, bytes: s.bytes });
            }
        }
        // frames that start from the dictionary's tables: Repeat mode / treeless in the first block
        let mut z = zspec::rng::Rng::new(0xC07);
        for (d, _) in dicts() {
            let mut n = 0;
            let mut tries = 0;
            while n < 12 && tries < 400 {
                tries += 1;
                let plan = synth::random_plan_with_dict(&mut z, d, 4000);
                let s = synth::synthesise(&plan);
                if !s.rule_violations.is_empty() {
                    continue;
                }
                // keep the ones whose first compressed block repeats a dictionary table
                if let Ok(info) = frames::walk(&s.bytes, Some(&zspec::dict::write_dict(d))) {
                    let uses = info.blocks.iter().find(|b| b.btype == 2).map(|b| b.sequences.as_ref().map(|q| q.ll_mode == 3 || q.of_mode == 3 || q.ml_mode == 3).unwrap_or(false) || b.literals.as_ref().map(|l| l.ltype == 3).unwrap_or(false)).unwrap_or(false);
                    if uses {
                        out.push(Probe { name: format!("valid: dictionary {} tables repeated in the first block #{n}", d.id), class: "valid: dictionary tables first", bytes: s.bytes });
                        n += 1;
                    }
                }
            }
        }
        out
    })
}

/// everything a caller can observe while driving `frame` with a fixed schedule
fn observe(d: &mut FrameDecoder, frame: &[u8], style: u64) -> Vec<String> {
    let mut obs = Vec::new();
    let mut src = frame;
    match d.reset(&mut src) {
        Err(e) => {
            // after a failed reset the state of the previous frame legitimately stays: nothing else is compared
            obs.push(format!("reset: Err {e}"));
            return obs;
        }
        Ok(()) => obs.push("reset: Ok".to_string()),
    }
    obs.push(format!("content_size {}", d.content_size()));
    let mut tape: Vec<u8> = Vec::new();
    let mut steps = 0;
    loop {
        steps += 1;
        if steps > 100_000 {
            obs.push("schedule did not end".into());
            break;
        }
        let strat = match style {
            0 => BlockDecodingStrategy::UptoBlocks(1),
            1 => BlockDecodingStrategy::All,
            _ => BlockDecodingStrategy::UptoBytes(1000),
        };
        match d.decode_blocks(&mut src, strat) {
            Ok(fin) => obs.push(format!("decode: Ok({fin}) blocks {} read {} can_collect {}", d.blocks_decoded(), d.bytes_read_from_source(), d.can_collect())),
            Err(e) => {
                obs.push(format!("decode: Err {e}"));
                // the caller may still drain and query
                if let Some(v) = d.collect() {
                    tape.extend_from_slice(&v);
                }
                obs.push(format!("after error: collected {} finished {} read {}", tape.len(), d.is_finished(), d.bytes_read_from_source()));
                break;
            }
        }
        if style == 2 {
            let mut buf = [0u8; 700];
            let n = std::io::Read::read(d, &mut buf).unwrap_or(usize::MAX);
            obs.push(format!("read -> {n}"));
            if n <= 700 {
                tape.extend_from_slice(&buf[..n]);
            }
        }
        if let Some(v) = d.collect() {
            obs.push(format!("collect -> {}", v.len()));
            tape.extend_from_slice(&v);
        }
        if d.is_finished() {
            break;
        }
    }
    obs.push(format!("tape {} bytes fnv {:016x}", tape.len(), fnv(&tape)));
    obs.push(format!("checksums calculated {:?} stored {:?}", d.get_calculated_checksum(), d.get_checksum_from_data()));
    obs.push(format!("finished {} read {} blocks {}", d.is_finished(), d.bytes_read_from_source(), d.blocks_decoded()));
    obs
}

fn apply_history(d: &mut FrameDecoder, h: &[HistItem]) {
    for item in h {
        match item {
            HistItem::Complete(f, _) => {
                let mut src = &f[..];
                if d.reset(&mut src).is_ok() {
                    let _ = d.decode_blocks(&mut src, BlockDecodingStrategy::All);
                    let _ = d.collect();
                }
            }
            HistItem::Abandon { frame, blocks, collect, .. } => {
                let mut src = &frame[..];
                if d.reset(&mut src).is_ok() {
                    let _ = d.decode_blocks(&mut src, BlockDecodingStrategy::UptoBlocks(*blocks));
                    if *collect {
                        let _ = d.collect();
                    }
                }
            }
            HistItem::Fail(f, _) => {
                let mut src = &f[..];
                if d.reset(&mut src).is_ok() {
                    let _ = d.decode_blocks(&mut src, BlockDecodingStrategy::All);
                    // legal after an error: drain and query
                    let _ = d.collect();
                    let _ = d.is_finished();
                }
            }
            HistItem::SetLimit(l) => d.set_max_window_size(*l),
            HistItem::OldDictionaryEpisode { old_raw, frame, current_raw, .. } => {
                if let Ok(dd) = Dictionary::decode_dict(old_raw) {
                    let _ = d.add_dict(dd);
                }
                let mut src = &frame[..];
                if d.reset(&mut src).is_ok() {
                    let _ = d.decode_blocks(&mut src, BlockDecodingStrategy::All);
                    let _ = d.collect();
                }
                if let Ok(dd) = Dictionary::decode_dict(current_raw) {
                    let _ = d.add_dict(dd);
                }
            }
        }
    }
}

fn describe(h: &[HistItem]) -> Vec<String> {
    h.iter()
        .map(|i| match i {
            HistItem::Complete(_, n) => format!("complete({n})"),
            HistItem::Abandon { blocks, collect, name, .. } => format!("abandon after {blocks} blocks{} ({name})", if *collect { ", collected" } else { "" }),
            HistItem::Fail(_, n) => format!("fail({n})"),
            HistItem::SetLimit(l) => format!("set_max_window_size({l})"),
            HistItem::OldDictionaryEpisode { idx, .. } => format!("add_dict(older version of dictionary {idx}, same id), complete(frame using it), add_dict(current version)"),
        })
        .collect()
}

fn hist_class(h: &[HistItem]) -> String {
    h.iter()
        .map(|i| match i {
            HistItem::Complete(_, n) => {
                if n.contains("dict") {
                    "Cd"
                } else {
                    "C"
                }
            }
            HistItem::Abandon { .. } => "A",
            HistItem::Fail(..) => "F",
            HistItem::SetLimit(_) => "L",
            HistItem::OldDictionaryEpisode { .. } => "D",
        })
        .collect::<Vec<_>>()
        .join("")
}

fn gen_history(r: &mut Rng) -> Vec<HistItem> {
    let n = r.usize(1, 3);
    let mut h = Vec::new();
    let matrix = frames::synth_matrix();
    for _ in 0..n {
        let pick_valid = |r: &mut Rng| -> (Vec<u8>, String) {
            match r.below(4) {
                0 => {
                    let c = frames::libzstd_frame(r, 400_000);
                    (c.bytes, c.origin)
                }
                1 => {
                    // frames that end with RLE / FSE / repeat tables, Huffman tables, dictionaries
                    let c = loop {
                        let c = r.pick(matrix);
                        if c.expected.len() <= 2_000_000 {
                            break c;
                        }
                    };
                    (c.bytes.clone(), c.origin.clone())
                }
                2 => {
                    let (d, _) = r.pick(dicts());
                    let mut z = frames::zrng(r);
                    let plan = synth::random_plan_with_dict(&mut z, d, 50_000);
                    let s = synth::synthesise(&plan);
                    (s.bytes, "synth: random plan with dict".to_string())
                }
                _ => match frames::synth_random(r, 200_000) {
                    Some(c) => (c.bytes, c.origin),
                    None => {
                        let c = frames::libzstd_frame(r, 50_000);
                        (c.bytes, c.origin)
                    }
                },
            }
        };
        match r.below(8) {
            0..=2 => {
                let (f, n) = pick_valid(r);
                h.push(HistItem::Complete(f, n));
            }
            3 | 4 => {
                let (f, n) = pick_valid(r);
                h.push(HistItem::Abandon { frame: f, blocks: r.usize(1, 3), collect: r.chance(1, 2), name: n });
            }
            5 | 6 => {
                let (mut f, n) = pick_valid(r);
                let what = match r.below(5) {
                    3 | 4 => {
                        // a block that ends at a structural point: the section parsers fail half way through
                        match frames::walk(&f, None).ok().and_then(|info| frames::shrink_block_at(r, &f, &info)) {
                            Some((g, what)) => {
                                f = g;
                                what
                            }
                            None => {
                                // frames with several compressed blocks from the feature matrix are good candidates
                                let c = r.pick(matrix);
                                match frames::walk(&c.bytes, c.dict.as_deref()).ok().and_then(|info| frames::shrink_block_at(r, &c.bytes, &info)) {
                                    Some((g, what)) => {
                                        f = g;
                                        what
                                    }
                                    None => "unchanged",
                                }
                            }
                        }
                    }
                    0 if f.len() > 8 => {
                        let cut = r.usize(6, f.len() - 1);
                        f.truncate(cut);
                        "truncated"
                    }
                    1 if f.len() > 8 => {
                        for _ in 0..r.usize(1, 4) {
                            let i = r.usize(6, f.len() - 1);
                            f[i] ^= 1 << r.below(8);
                        }
                        "bit flips"
                    }
                    _ => {
                        let p = r.pick(probes());
                        f = p.bytes.clone();
                        "hostile plan"
                    }
                };
                h.push(HistItem::Fail(f, format!("{what}: {n}")));
            }
            _ => {
                // failed resets: bad magic, window above the limit, unknown dictionary
                let f: Vec<u8> = match r.below(3) {
                    0 => vec![1, 2, 3, 4, 5, 6, 7, 8],
                    1 => vec![0x28, 0xB5, 0x2F, 0xFD, 0x00, 0xF0, 1, 0, 0],
                    _ => vec![0x28, 0xB5, 0x2F, 0xFD, 0x01, 0x00, 0x77, 1, 0, 0],
                };
                h.push(HistItem::Fail(f, "reset fails".into()));
            }
        }
        if r.chance(1, 8) {
            // the caller replaces a dictionary by a newer version under the same id
            let idx = r.usize(0, dicts().len() - 1);
            let (current, current_raw) = &dicts()[idx];
            let mut old = current.clone();
            for (k, b) in old.content.iter_mut().enumerate() {
                *b = b.wrapping_add(1 + (k % 7) as u8);
            }
            let reach = r.usize(1, old.content.len().min(200));
            let plan = zspec::synth::FramePlan {
                header: zspec::frame::HeaderSpec { window_descriptor: Some(0x20), dict_id: Some((old.id, 4)), ..Default::default() },
                blocks: vec![zspec::synth::BlockPlan::Compressed(zspec::synth::CompressedPlan {
                    literals: b"xyz".to_vec(),
                    lit: zspec::synth::LitPlan::Raw { size_format: None },
                    seqs: vec![zspec::synth::SeqPlan { ll: 3, ml: reach.min(40) as u32 + 3, offset: zspec::synth::OffsetPlan::Raw(3 + reach as u32) }],
                    ll_mode: zspec::synth::TableMode::Predefined,
                    of_mode: zspec::synth::TableMode::Predefined,
                    ml_mode: zspec::synth::TableMode::Predefined,
                    seq_count_form: zspec::synth::CountForm::Auto,
                })],
                dict: Some(old.clone()),
                checksum_override: None,
            };
            let frame = synth::synthesise(&plan).bytes;
            h.push(HistItem::OldDictionaryEpisode { old_raw: zspec::dict::write_dict(&old), frame, current_raw: current_raw.clone(), idx });
        }
        if r.chance(1, 10) {
            // never above 1 GiB: an accepted window is reserved eagerly on a reused decoder
            h.push(HistItem::SetLimit(*r.pick(&[1u64 << 20, 1 << 27, 1 << 30])));
        }
    }
    h
}

fn probe_once(rec: &Recorder, args: &Args, h: &[HistItem], probe: &Probe, style: u64, i: u64) {
    rec.eval();
    let res = catch(|| {
        let mut used = new_decoder();
        apply_history(&mut used, h);
        let mut fresh = new_decoder();
        for item in h {
            if let HistItem::SetLimit(l) = item {
                fresh.set_max_window_size(*l);
            }
        }
        let fp_used = used.verif_fingerprint();
        let fp_fresh = fresh.verif_fingerprint();
        let a = observe(&mut used, &probe.bytes, style);
        let b = observe(&mut fresh, &probe.bytes, style);
        (a, b, fp_used != fp_fresh, used.verif_fingerprint() == fresh.verif_fingerprint())
    });
    rec.absorb_feats();
    let replay = json!({"history": describe(h), "probe": probe.name, "probe_frame": hex(&probe.bytes), "style": style, "case": [args.seed, 7, i]});
    match res {
        Err(p) => rec.panic_violation(&p, &format!("probe class {}", probe.class), json!({"history": describe(h), "probe": probe.name}), replay),
        Ok((a, b, state_left, fp_equal_after)) => {
            if a != b {
                let k = a.iter().zip(b.iter()).position(|(x, y)| x != y).unwrap_or(a.len().min(b.len()));
                let what = a.get(k).map(|s| s.split(':').next().unwrap_or("").split(' ').next().unwrap_or("").to_string()).unwrap_or_else(|| "length".into());
                rec.violation(
                    Sig::new("reused_differs_from_fresh", probe.class, &format!("history={} first difference in '{}'", hist_class(h), what)),
                    json!({"history": describe(h), "probe": probe.name, "reused": a.get(k), "fresh": b.get(k), "step": k, "post_probe_fingerprints_equal": fp_equal_after}),
                    replay,
                );
            } else {
                if state_left {
                    rec.distinct(fnv_str(&format!("{}|{}|{style}", hist_class(h), probe.name)));
                }
                rec.count(&format!("probe_class_{}", probe.class), 1);
                rec.count(&format!("history_{}", hist_class(h)), 1);
                if !fp_equal_after {
                    // diagnostic only: internal state differs although nothing observable does
                    rec.count("diagnostic_post_probe_fingerprint_differs", 1);
                }
            }
        }
    }
}

pub fn run(args: &Args) -> i32 {
    let rec = Recorder::new("C07", "exploration", args);
    rec.set_rule("one evaluation = one (history, probe) pair: the probe frame is driven with the same schedule on the decoder that went through the history and on a fresh decoder with the same dictionaries, and the complete observation lists (reset result, every step's Ok/Err and error text, counters, tape, checksums) are compared; distinct_nontrivial = distinct (history class, probe, schedule style) triples whose pre-probe fingerprints differed from a fresh decoder's (i.e. the history really left state behind)");
    rec.assume("after a failed reset only the reset result is compared (the old frame's state legitimately stays); the same set_max_window_size calls are applied to the fresh decoder; no writer sinks (a reused decoder keeps its ring capacity, so data wraps at other places)");
    if let Err(e) = frames::self_test(args.seed) {
        rec.inconclusive(&e);
        return rec.finish();
    }
    let pr = probes();
    rec.count("probes", pr.len() as u64);
    // ---------------- directed: a frame that fails at every structural point of every compressed block, followed
    // immediately by probes that read per-frame state before writing it
    let state_probes: Vec<&Probe> = pr.iter().filter(|p| !p.class.starts_with("valid: feature") && !p.class.starts_with("valid: libzstd")).collect();
    let mut failing: Vec<(Vec<u8>, String)> = Vec::new();
    for c in frames::synth_matrix().iter() {
        if c.bytes.len() > 20_000 || c.expected.len() > 300_000 {
            continue;
        }
        if let Ok(info) = frames::walk(&c.bytes, c.dict.as_deref()) {
            for (f, what) in frames::all_shrinks(&c.bytes, &info) {
                failing.push((f, format!("{what}: {}", c.origin)));
            }
        }
    }
    rec.count("directed_failing_histories", failing.len() as u64);
    {
        use rayon::prelude::*;
        failing.par_iter().enumerate().for_each(|(k, (f, name))| {
            let _g = case_guard(71, k as u64);
            let mut r = Rng::for_case(args.seed, 71, k as u64);
            let h = vec![HistItem::Fail(f.clone(), name.clone())];
            for _ in 0..args.vol(12, 60) {
                let probe = (*r.pick(&state_probes)).clone();
                let style = r.below(3);
                probe_once(&rec, args, &h, &probe, style, k as u64);
            }
        });
    }

    let n = args.vol(8000, 400_000);
    par_cases(&rec, 7, n, |i, r| {
        let h = gen_history(r);
        // several probes per history
        for _ in 0..3 {
            let probe: Probe = if r.chance(1, 5) {
                let c = frames::libzstd_frame(r, 100_000);
                Probe { name: c.origin, class: "valid: libzstd", bytes: c.bytes }
            } else {
                r.pick(pr).clone()
            };
            let style = r.below(3);
            probe_once(&rec, args, &h, &probe, style, i);
            if i < 2 {
                rec.sample(json!({"history": describe(&h), "probe": probe.name, "style": style}));
            }
        }
    });
    rec.set_extra("exhaustive", json!(false));
    rec.finish()
}
