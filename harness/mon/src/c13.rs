//! C13 Huffman tables are valid and literal coding round-trips for every distribution.

use crate::common::*;
use crate::refz;
use rayon::prelude::*;
use ruzstd::huff0::huff0_encoder::HuffmanTable as EncTable;
use ruzstd::huff0::HuffmanTable as DecTable;
use ruzstd::verif::{dec, enc, huf as vhuf};
use serde_json::json;
use zspec::huf as zh;

fn short(msg: &str) -> String {
    msg.chars().filter(|c| !c.is_ascii_digit()).take(70).collect()
}

/// wrap a literals section into a frame with one compressed block without sequences
fn frame_with_literals_section(section: &[u8], regen: usize) -> Vec<u8> {
    let mut f = vec![0x28, 0xB5, 0x2F, 0xFD];
    // window large enough for the block, no checksum
    let wd = zspec::frame::window_descriptor_for((regen as u64).max(1024));
    f.push(0x00);
    f.push(wd);
    let body_len = section.len() + 1;
    let hdr = (body_len as u32) << 3 | (2 << 1) | 1;
    f.extend_from_slice(&hdr.to_le_bytes()[..3]);
    f.extend_from_slice(section);
    f.push(0); // no sequences
    f
}

/// checks of the compressor's table for one literal buffer
fn encoder_case(rec: &Recorder, lits: &[u8], what: &str, replay: serde_json::Value) {
    rec.eval();
    let distinct = {
        let mut seen = [false; 256];
        lits.iter().for_each(|b| seen[*b as usize] = true);
        seen.iter().filter(|x| **x).count()
    };
    let site = format!("alphabet={}", match distinct { 2 => "2", 3..=16 => "3-16", 17 => "17", 18..=128 => "18-128", 129..=254 => "129-254", 255 => "255", _ => "256" });
    let res = catch(|| {
        let t = EncTable::build_from_data(lits);
        let codes: Vec<(u32, u8)> = t.verif_codes().to_vec();
        let one = vhuf::encode_1x(&t, lits, true);
        // the compressor chooses four streams for 6 or more literals only (compress_literals' size format table)
        let four = if lits.len() >= 6 { Some(vhuf::encode_4x(&t, lits, true)) } else { None };
        let weights = vhuf::weights(&t);
        (codes, one, four, weights)
    });
    let (codes, one, four, weights) = match res {
        Ok(x) => x,
        Err(p) => {
            rec.panic_violation(&p, &format!("huffman encoder {site}"), json!({"what": what, "distinct_symbols": distinct, "len": lits.len()}), replay);
            return;
        }
    };
    let mut problems: Vec<String> = Vec::new();
    // a complete prefix code of depth <= 11 that covers every symbol that occurs
    let max_bits = codes.iter().map(|c| c.1).max().unwrap_or(0);
    if max_bits > 11 || max_bits == 0 {
        problems.push(format!("code depth {max_bits}"));
    } else {
        let kraft: u64 = codes.iter().filter(|c| c.1 > 0).map(|c| 1u64 << (max_bits - c.1)).sum();
        if kraft != 1u64 << max_bits {
            problems.push(format!("Kraft sum {kraft} / {} : the code is not complete", 1u64 << max_bits));
        }
        // prefix free: expand every code to max_bits and look for overlaps
        let mut owner = vec![u16::MAX; 1usize << max_bits];
        'outer: for (s, (code, nb)) in codes.iter().enumerate() {
            if *nb == 0 {
                continue;
            }
            if u64::from(*code) >= 1u64 << nb {
                problems.push(format!("code of symbol {s} does not fit its length"));
                break;
            }
            let lo = (*code as usize) << (max_bits - nb);
            for slot in owner.iter_mut().skip(lo).take(1usize << (max_bits - nb)) {
                if *slot != u16::MAX {
                    problems.push(format!("codes of symbols {} and {s} overlap", *slot));
                    break 'outer;
                }
                *slot = s as u16;
            }
        }
        for b in lits {
            if codes.get(*b as usize).map(|c| c.1).unwrap_or(0) == 0 {
                problems.push(format!("symbol {b} occurs but has no code"));
                break;
            }
        }
    }
    let lengths: Vec<u8> = codes.iter().map(|c| c.1).collect();
    // the description: what the decoder and the specification read from it
    if problems.is_empty() {
        let header = one[0];
        let desc_len;
        if header < 128 {
            desc_len = 1 + header as usize;
            rec.count("descriptions_fse_compressed", 1);
        } else {
            let n = header as usize - 127;
            desc_len = 1 + n.div_ceil(2);
            rec.count("descriptions_direct", 1);
        }
        match zh::read_description(&one) {
            Ok((w, used)) => {
                if used != desc_len {
                    problems.push(format!("description is {desc_len} bytes, the specification consumes {used}"));
                }
                match zh::weights_to_lengths(&w) {
                    Ok((l, mb)) => {
                        let mut want = lengths.clone();
                        while want.last() == Some(&0) {
                            want.pop();
                        }
                        if l != want || mb != max_bits {
                            problems.push(format!("the specification derives lengths {:?}.. (max {mb}) from the description, the encoder uses {:?}.. (max {max_bits})", &l[..l.len().min(12)], &want[..want.len().min(12)]));
                        }
                    }
                    Err(e) => problems.push(format!("the description is invalid according to the specification: {e}")),
                }
                if w.len() + 1 != weights.len() || w[..] != weights[..w.len()] {
                    problems.push("transmitted weights differ from the encoder's weights".into());
                }
            }
            Err(e) => problems.push(format!("the specification cannot read the description: {e}")),
        }
        let parsed = catch(|| {
            let mut t = DecTable::new();
            t.build_decoder(&one).map(|used| (used as usize, t.verif_code_lengths(), t.max_num_bits)).map_err(|e| e.to_string())
        });
        match parsed {
            Ok(Ok((used, l, mb))) => {
                let mut want = lengths.clone();
                while want.last() == Some(&0) {
                    want.pop();
                }
                if used != desc_len || l != want || mb != max_bits {
                    problems.push(format!("the decoder reads {used} bytes, {} lengths, max {mb}; expected {desc_len}, {}, {max_bits}", l.len(), want.len()));
                }
            }
            Ok(Err(e)) => problems.push(format!("the decoder rejects the compressor's description: {e}")),
            Err(p) => problems.push(format!("decoder panic {}", p.what)),
        }
        // the streams decode to the literals (specification's decoder on the compressor's bytes)
        if problems.is_empty() {
            let mut want = lengths.clone();
            while want.last() == Some(&0) {
                want.pop();
            }
            let dt = zh::canonical_dtable(&want, max_bits);
            let mut out = Vec::new();
            match zh::decode_stream(&dt, max_bits, &one[desc_len..], lits.len(), &mut out) {
                Ok(()) if out == lits => {}
                other => problems.push(format!("one stream: the specification decodes {:?} / {} bytes", other, out.len())),
            }
            if let Some(four) = &four {
                match zh::decode_4streams(&dt, max_bits, &four[desc_len..], lits.len()) {
                    Ok(o) if o == lits => {}
                    other => problems.push(format!("four streams: the specification decodes {:?}", other.map(|v| v.len()))),
                }
            }
        }
    }
    // the complete literals section through the real section decoder, and inside a frame through the reference decoder
    if problems.is_empty() && lits.len() <= 128 * 1024 {
        let res = catch(|| {
            let (sec, _) = enc::compress_literals(lits, None);
            let mut scratch = dec::HufScratch::new();
            let back = dec::decode_literals_section(&sec, &mut scratch);
            (sec, back)
        });
        match res {
            Err(p) => problems.push(format!("literals section panic {}", p.what)),
            Ok((sec, back)) => {
                match back {
                    Ok((out, used)) => {
                        if out != lits || used != sec.len() {
                            problems.push(format!("literals section decodes to {} bytes using {used} of {} section bytes", out.len(), sec.len()));
                        }
                    }
                    Err(e) => problems.push(format!("the literals section decoder rejects the compressor's section: {e}")),
                }
                if sec[0] & 3 == 2 {
                    rec.count("literals_sections_huffman", 1);
                    let frame = frame_with_literals_section(&sec, lits.len());
                    match refz::decompress_single(&frame) {
                        Ok(o) if o == lits => {}
                        other => problems.push(format!("reference decoder on a frame holding the section: {:?}", other.map(|v| v.len()))),
                    }
                } else {
                    rec.count("literals_sections_raw_fallback", 1);
                }
            }
        }
    }
    if let Some(first) = problems.first() {
        rec.violation(Sig::new("huffman_encoder", &site, &short(first)), json!({"problems": problems, "what": what, "distinct_symbols": distinct, "len": lits.len(), "lengths_head": &lengths[..lengths.len().min(20)]}), replay);
    } else {
        let mut l = lengths.clone();
        l.sort();
        rec.distinct(fnv(&l) ^ (distinct as u64) << 48);
    }
}

/// expected verdict for a direct weight vector from the property's own rule
fn rule(weights: &[u8]) -> Result<(Vec<u8>, u8), String> {
    zh::weights_to_lengths(weights)
}

fn decoder_case(rec: &Recorder, desc: &[u8], weights: &[u8], form: &str) {
    let want = rule(weights);
    let mut padded = desc.to_vec();
    padded.extend_from_slice(&[0x5A; 4]);
    let res = catch(|| {
        let mut t = DecTable::new();
        t.build_decoder(&padded).map(|used| (used as usize, t.verif_entries(), t.max_num_bits)).map_err(|e| e.to_string())
    });
    let replay = json!({"part": "decoder", "form": form, "description": hex(desc), "weights": weights});
    match (res, want) {
        (Err(p), _) => rec.panic_violation(&p, &format!("weight description {form}"), json!({"weights": weights}), replay),
        (Ok(Ok((used, entries, mb))), Ok((lengths, max_bits))) => {
            let dt = zh::canonical_dtable(&lengths, max_bits);
            if used != desc.len() || mb != max_bits || entries != dt {
                let k = entries.iter().zip(dt.iter()).position(|(a, b)| a != b);
                rec.violation(Sig::new("table_differs_from_specification", form, &format!("n={}", weights.len().min(8))), json!({"weights": weights, "consumed": used, "description_len": desc.len(), "max_bits": [mb, max_bits], "first_difference": k, "ruzstd": k.map(|k| entries[k]), "specification": k.map(|k| dt[k])}), replay);
            }
        }
        (Ok(Ok(_)), Err(why)) => rec.violation(Sig::new("invalid_description_accepted", form, &short(&why)), json!({"weights": weights, "rule": why}), replay),
        (Ok(Err(e)), Ok(_)) => rec.violation(Sig::new("valid_description_rejected", form, &short(&e)), json!({"weights": weights, "error": e}), replay),
        (Ok(Err(_)), Err(_)) => {}
    }
}

pub fn run(args: &Args) -> i32 {
    let rec = Recorder::new("C13", "exploration", args);
    rec.set_rule("one evaluation = one literal histogram through the compressor's Huffman table builder, description writer, stream encoders, the decoder's parsers and the reference decoder, or one weight description through the decoder's table builder compared with the specification's canonical table / validity rule; distinct_nontrivial = distinct (alphabet size, sorted code length multiset) pairs on the encoder side plus distinct accepted weight vectors on the decoder side");
    rec.assume("expected verdict for weight descriptions comes from the property's rule (sum completes to a power of two, depth <= 11) as implemented by zspec::huf::weights_to_lengths; libzstd is stricter on some vectors and is consulted only through whole frames produced by the compressor");

    // ---------------- encoder side: every alphabet size x rank orders x placements of unused symbols
    let reps = args.vol(8, 120);
    let sizes: Vec<(usize, u64)> = (2..=256usize).flat_map(|n| (0..reps).map(move |k| (n, k))).collect();
    sizes.par_iter().for_each(|&(nsym, k)| {
        let _g = case_guard(13, (nsym as u64) << 16 | k);
        let mut r = Rng::for_case(args.seed, 13, (nsym as u64) << 16 | k);
        // which byte values are used
        let mut vals: Vec<u8> = (0..=255u8).collect();
        match k % 3 {
            0 => {}                      // the first nsym values
            1 => vals.reverse(),         // the last ones (unused symbols in front)
            _ => {
                for i in (1..vals.len()).rev() {
                    let j = r.usize(0, i);
                    vals.swap(i, j);
                }
            }
        }
        vals.truncate(nsym);
        // counts: equal / geometric / random rank order
        let counts: Vec<usize> = (0..nsym)
            .map(|i| match k % 4 {
                0 => 1 + r.usize(0, 1),
                1 => 1 + (4000 >> (i % 12).min(11)),
                2 => 1 + r.size(0, 3000),
                _ => 1 + (i * 7 % 13) * r.usize(1, 30),
            })
            .collect();
        let mut lits: Vec<u8> = Vec::new();
        for (v, c) in vals.iter().zip(counts.iter()) {
            lits.extend(std::iter::repeat_n(*v, *c));
        }
        // every len mod 4 and stream size edge
        let extra = (k as usize) % 4;
        for _ in 0..extra {
            lits.push(vals[0]);
        }
        for i in (1..lits.len()).rev() {
            let j = r.usize(0, i);
            lits.swap(i, j);
        }
        lits.truncate(128 * 1024);
        let what = format!("{nsym} symbols, placement {}, counts style {}, {} literals", k % 3, k % 4, lits.len());
        let replay = json!({"part": "encoder", "literals": if lits.len() <= 20_000 { hex(&lits) } else { format!("(len {}) case {:?}", lits.len(), [args.seed, 13, nsym as u64, k]) }});
        encoder_case(&rec, &lits, &what, replay);
        rec.absorb_feats();
    });
    // short literal buffers: every length 2..=40 with few symbols (stream edges of the 4 stream split)
    for len in 2..=40usize {
        for nsym in [2usize, 3, 5] {
            let lits: Vec<u8> = (0..len).map(|i| (i % nsym) as u8 + 10).collect();
            encoder_case(&rec, &lits, &format!("{len} literals over {nsym} symbols"), json!({"part": "encoder", "literals": hex(&lits)}));
        }
    }

    // ---------------- literals of consecutive blocks: the compressor may keep its table for the next block (treeless
    // literals) when the new histogram is close enough. Chains of 2..=5 literal buffers whose histograms are variations of
    // one another (a symbol above the old maximum, a symbol in a gap of the old alphabet, dropped symbols, shifted
    // frequencies, too few literals for Huffman coding to pay off) go through the compressor's literals encoder with the
    // table it kept, and through the decoder's literals decoder with the table *it* kept.
    let chains = args.vol(3000, 150_000);
    par_cases(&rec, 133, chains, |ci, r| {
        rec.eval();
        let nsym = *r.pick(&[3usize, 8, 17, 60, 120, 200, 255]);
        let base_first = r.usize(0, 256 - nsym.min(255) - 1) as u8;
        // a gap in the alphabet and room above its maximum
        let gap = r.usize(0, nsym - 1);
        let weights: Vec<u32> = (0..nsym).map(|i| if i == gap { 0 } else { 1 + r.size(0, 400) as u32 }).collect();
        let make = |r: &mut Rng, w: &[u32], scale: u32, first: u8| -> Vec<u8> {
            let mut v = Vec::new();
            for (i, c) in w.iter().enumerate() {
                v.extend(std::iter::repeat_n(first.wrapping_add(i as u8), (*c * scale / 8) as usize));
            }
            for i in (1..v.len()).rev() {
                let j = r.usize(0, i);
                v.swap(i, j);
            }
            v.truncate(128 * 1024);
            v
        };
        let mut kept: Option<ruzstd::huff0::huff0_encoder::HuffmanTable> = None;
        let mut scratch = dec::HufScratch::new();
        let mut history: Vec<String> = Vec::new();
        let nblocks = r.usize(2, 5);
        let mut w = weights.clone();
        for b in 0..nblocks {
            let mut variation = "same histogram";
            if b > 0 {
                match r.below(7) {
                    0 => {}
                    1 => {
                        // a byte value above everything seen so far
                        w.push(1 + r.below(3) as u32);
                        variation = "adds a symbol above the old maximum";
                    }
                    2 if gap < w.len() => {
                        w[gap] = 1 + r.below(3) as u32;
                        variation = "adds a symbol inside a gap of the old alphabet";
                    }
                    2 => {}
                    3 => {
                        let k = r.usize(0, w.len() - 1);
                        w[k] = 0;
                        variation = "drops a symbol";
                    }
                    4 => {
                        for x in w.iter_mut() {
                            if *x > 0 && r.chance(1, 4) {
                                *x = (*x + r.below(20) as u32).max(1);
                            }
                        }
                        variation = "shifts some frequencies";
                    }
                    5 => {
                        w.truncate(w.len().max(3) - 1);
                        variation = "loses its largest symbol";
                    }
                    _ => {
                        w.reverse();
                        variation = "reversed rank order";
                    }
                }
            }
            if w.len() + base_first as usize > 256 {
                w.truncate(256 - base_first as usize);
            }
            // sometimes so few literals that Huffman coding does not pay off (raw fallback of the section)
            let scale = *r.pick(&[1u32, 8, 8, 16, 40, 100]);
            let lits = make(r, &w, scale, base_first);
            let distinct = { let mut seen = [false; 256]; lits.iter().for_each(|b| seen[*b as usize] = true); seen.iter().filter(|x| **x).count() };
            // compress_block hands literals to the Huffman stage only if there are more than 1024 of them with at least two
            // values; everything else is written raw and leaves both tables alone
            if lits.len() <= 1024 || distinct < 2 {
                history.push(format!("block {b}: {} literals written raw by compress_block", lits.len()));
                continue;
            }
            history.push(format!("block {b}: {} literals, {distinct} symbols, {variation}", lits.len()));
            let replay = json!({"part": "chain", "case": [args.seed, 133, ci], "history": history});
            let kept_ref = kept.as_ref();
            let res = catch(|| enc::compress_literals(&lits, kept_ref));
            let (sec, new_table) = match res {
                Ok(x) => x,
                Err(p) => {
                    rec.panic_violation(&p, "literals of consecutive blocks", json!({"history": history}), replay);
                    return;
                }
            };
            let mode = sec[0] & 3;
            rec.count(["chain_sections_raw", "chain_sections_rle", "chain_sections_huffman_new_table", "chain_sections_treeless"][mode as usize], 1);
            let back = catch(|| dec::decode_literals_section(&sec, &mut scratch));
            match back {
                Ok(Ok((out, used))) if out == lits && used == sec.len() => {}
                other => {
                    let got = match other {
                        Ok(Ok((out, used))) => format!("decodes to {} bytes (expected {}) using {used} of {} section bytes", out.len(), lits.len(), sec.len()),
                        Ok(Err(e)) => format!("the literals decoder rejects the section: {e}"),
                        Err(p) => format!("the literals decoder panics: {}", p.what),
                    };
                    rec.violation(Sig::new("consecutive_blocks", ["raw", "rle", "huffman", "treeless"][mode as usize], &short(&got)), json!({"what": got, "history": history}), replay);
                    return;
                }
            }
            // what compress_block does with the result
            if let Some(t) = new_table {
                kept = Some(t);
            }
        }
        rec.distinct(fnv_str(&history.iter().map(|h| h.split(", ").last().unwrap_or("")).collect::<Vec<_>>().join("|")) ^ nsym as u64);
    });

    // ---------------- decoder side: all direct weight vectors up to a bound (values 0..=12: 12 is the smallest illegal weight)
    let max_len = if args.thorough() { 6 } else { 5 };
    let mut total: u64 = 0;
    for n in 1..=max_len {
        let count = 13u64.pow(n as u32);
        total += count;
        (0..count).into_par_iter().for_each(|mut x| {
            let _g = case_guard(130 + n as u64, x);
            let mut w = vec![0u8; n];
            for slot in w.iter_mut() {
                *slot = (x % 13) as u8;
                x /= 13;
            }
            rec.eval();
            let desc = zh::write_description_direct(&w);
            decoder_case(&rec, &desc, &w, "direct");
            if rule(&w).is_ok() {
                rec.distinct(fnv(&w));
            }
        });
    }
    rec.count("direct_weight_vectors_enumerated", total);
    // sample of longer vectors, direct (up to 128 weights) and FSE compressed (up to 255), valid and invalid
    let n = args.vol(150_000, 6_000_000);
    par_cases(&rec, 131, n, |_, r| {
        rec.eval();
        // start from a valid length assignment, then maybe damage it
        let nsym = r.usize(2, 256);
        let mut counts = [0u32; 256];
        for c in counts.iter_mut().take(nsym) {
            *c = 1 + r.size(0, 5000) as u32;
        }
        // move the used symbols around
        if r.chance(1, 2) {
            let shift = r.usize(0, 256 - nsym);
            counts.rotate_right(shift);
        }
        let lengths = zh::lengths_from_counts(&counts, *r.pick(&[11u8, 11, 9, 8]));
        let (mut weights, _) = zh::lengths_to_weights(&lengths);
        if r.chance(1, 3) {
            let i = r.usize(0, weights.len() - 1);
            weights[i] = r.below(13) as u8;
        }
        if weights.len() <= 128 && r.chance(1, 2) {
            let desc = zh::write_description_direct(&weights);
            decoder_case(&rec, &desc, &weights, "direct");
        } else if let Some(desc) = zh::write_description_fse(&weights) {
            decoder_case(&rec, &desc, &weights, "fse");
            rec.count("fse_descriptions_checked", 1);
        }
        if rule(&weights).is_ok() {
            rec.distinct(fnv(&weights));
        }
    });
    rec.sample(json!({"part": "encoder", "literals": "200 symbols placed at the end of the byte range, geometric counts, shuffled", "checks": ["Kraft sum", "prefix free", "depth <= 11", "description -> decoder lengths", "description -> model lengths", "1 and 4 streams -> model decoder", "literals section -> real section decoder", "frame -> reference decoder"]}));
    rec.sample(json!({"part": "decoder", "form": "direct", "weights": [1, 1, 2, 3], "rule": format!("{:?}", rule(&[1, 1, 2, 3]))}));
    rec.sample(json!({"part": "decoder", "form": "direct", "weights": [1, 2, 2], "rule": format!("{:?}", rule(&[1, 2, 2]))}));
    rec.set_extra("exhaustive", json!(false));
    rec.set_extra("exhaustive_direct_weight_vectors_up_to_length", json!(max_len));
    rec.set_extra("alphabet_sizes_covered", json!("2..=256, all"));
    rec.finish()
}
