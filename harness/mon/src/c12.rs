//! C12 FSE tables equal the specification's; FSE encoder and decoder are exact inverses.

use crate::common::*;
use crate::ref_tables;
use ruzstd::verif::{dec, enc, fse as vfse};
use serde_json::json;
use zspec::fse as zf;

fn table_of(t: &ruzstd::fse::FSETable) -> Vec<(u8, u8, u32)> {
    t.decode.iter().map(|e| (e.symbol, e.num_bits, e.base_line)).collect()
}

fn model_table(norm: &[i16], acc_log: u8) -> Vec<(u8, u8, u32)> {
    zf::build_dtable(norm, acc_log).iter().map(|e| (e.symbol, e.nbits, u32::from(e.baseline))).collect()
}

/// a random valid normalized distribution (sums to 1 << acc_log counting -1 as 1, last entry non zero)
fn gen_norm(r: &mut Rng, acc_log: u8, max_symbols: usize) -> Vec<i16> {
    let total = 1i32 << acc_log;
    let style = r.below(8);
    let nsym = match style {
        0 => 2,
        1 => max_symbols.min(total as usize),
        _ => r.usize(2, max_symbols.min(total as usize)),
    };
    // which symbol slots are used (zero runs of every length, incl. >= 3 and >= 6: repeat flags chain)
    let span = match r.below(4) {
        0 => nsym,
        1 => max_symbols,
        _ => r.usize(nsym, max_symbols),
    };
    let mut slots: Vec<usize> = (0..span).collect();
    // choose nsym distinct slots, always keep the last one (no trailing zeros)
    for i in (1..slots.len()).rev() {
        let j = r.usize(0, i);
        slots.swap(i, j);
    }
    let mut used: Vec<usize> = slots.into_iter().take(nsym).collect();
    if !used.contains(&(span - 1)) {
        used[0] = span - 1;
    }
    used.sort();
    used.dedup();
    let nsym = used.len();
    // probabilities: all -1 / one dominant / random split
    let mut probs: Vec<i32> = vec![1; nsym];
    let mut neg: Vec<bool> = vec![false; nsym];
    let mut left = total - nsym as i32;
    match style {
        2 => {
            // as many "less than one" symbols as possible, one symbol takes the rest
            for n in neg.iter_mut().skip(1) {
                *n = true;
            }
            probs[0] += left;
            left = 0;
        }
        3 => {
            let k = r.usize(0, nsym - 1);
            probs[k] += left;
            left = 0;
        }
        _ => {
            for n in neg.iter_mut() {
                *n = r.chance(1, 5);
            }
        }
    }
    while left > 0 {
        let k = r.usize(0, nsym - 1);
        if neg[k] {
            if neg.iter().all(|x| *x) {
                neg[k] = false;
            }
            continue;
        }
        let add = (r.below(left as u64) as i32 + 1).min(left);
        probs[k] += add;
        left -= add;
    }
    let mut norm = vec![0i16; span];
    for (i, s) in used.iter().enumerate() {
        norm[*s] = if neg[i] && probs[i] == 1 { -1 } else { probs[i] as i16 };
    }
    norm
}

pub fn run(args: &Args) -> i32 {
    let rec = Recorder::new("C12", "exploration", args);
    rec.set_rule("one evaluation = one normalized distribution pushed through serialisation and ruzstd's table builder and compared state by state with the model's RFC construction, or one production histogram through the compressor's table builder, description writer, parser and stream coders; distinct_nontrivial = distinct decoding tables (hash of all states) that were compared");
    rec.assume("the RFC construction is zspec::fse::build_dtable (independent of ruzstd, itself checked against the reference implementation's literal default tables); the predefined tables are compared with the literal tables transcribed from libzstd's C source");
    if let Err(e) = zf::check_norm(&zspec::tables::LL_DEFAULT_NORM, 6) {
        rec.inconclusive(&format!("model self test: {e}"));
        return rec.finish();
    }

    // ---------------- predefined tables against the reference implementation's literal tables
    {
        rec.eval();
        let res = catch(dec::predefined_tables);
        match res {
            Err(p) => rec.panic_violation(&p, "predefined tables", json!({}), json!({"part": "predefined"})),
            Ok((ll, of, ml)) => {
                let conv = |c: &[(u16, u8, u8, u32)], base: &[u32], bits: &[u8], is_of: bool| -> Vec<(u8, u8, u32)> {
                    c.iter()
                        .map(|(next, add_bits, nb_bits, base_value)| {
                            let sym = if is_of { *add_bits } else { (0..base.len()).find(|s| base[*s] == *base_value && bits[*s] == *add_bits).unwrap_or(255) as u8 };
                            (sym, *nb_bits, u32::from(*next))
                        })
                        .collect()
                };
                for (name, got, want, norm, log) in [
                    ("literal lengths", table_of(&ll), conv(&ref_tables::LL_DEFAULT_DTABLE, &ref_tables::LL_BASE, &ref_tables::LL_BITS, false), &ref_tables::LL_DEFAULT_NORM[..], 6u8),
                    ("offsets", table_of(&of), conv(&ref_tables::OF_DEFAULT_DTABLE, &[], &[], true), &ref_tables::OF_DEFAULT_NORM[..], 5),
                    ("match lengths", table_of(&ml), conv(&ref_tables::ML_DEFAULT_DTABLE, &ref_tables::ML_BASE, &ref_tables::ML_BITS, false), &ref_tables::ML_DEFAULT_NORM[..], 6),
                ] {
                    rec.eval();
                    if got != want {
                        let k = got.iter().zip(want.iter()).position(|(a, b)| a != b).unwrap_or(0);
                        rec.violation(Sig::new("predefined_table", name, "differs from the published table"), json!({"state": k, "ruzstd": got.get(k), "reference": want.get(k)}), json!({"part": "predefined", "table": name}));
                    }
                    if model_table(norm, log) != want {
                        rec.inconclusive(&format!("model self test: RFC construction of the predefined {name} table differs from the reference literal table"));
                    }
                    rec.distinct(fnv_str(&format!("{got:?}")));
                }
            }
        }
    }

    // ---------------- the compressor's own predefined tables and its table construction from probabilities
    // (incl. several less-than-one symbols) against the specification's construction
    {
        let check_enc = |rec: &Recorder, name: &str, t: &vfse::EncFse, norm: &[i16], acc_log: u8| {
            rec.eval();
            let want = model_table(norm, acc_log);
            let states = t.states();
            let mut problem: Option<String> = None;
            if states.len() != want.len() || t.acc_log() != acc_log {
                problem = Some(format!("{} states / log {}, the specification has {} / {}", states.len(), t.acc_log(), want.len(), acc_log));
            } else {
                for (sym, idx, baseline, nb) in &states {
                    if want.get(*idx) != Some(&(*sym, *nb, *baseline as u32)) {
                        problem = Some(format!("state {idx}: encoder (symbol {sym}, bits {nb}, baseline {baseline}), specification {:?}", want.get(*idx)));
                        break;
                    }
                }
            }
            if let Some(p) = problem {
                rec.violation(Sig::new("encoder_table_differs_from_specification", name, &format!("less_than_one_symbols={}", norm.iter().filter(|x| **x == -1).count().min(2))), json!({"what": p, "norm": norm, "acc_log": acc_log}), json!({"part": "encoder_from_probabilities", "norm": norm, "acc_log": acc_log}));
            } else {
                rec.distinct(fnv_str(&format!("enc{want:?}")));
            }
        };
        let res = catch(|| (vfse::EncFse::default_ll(), vfse::EncFse::default_of(), vfse::EncFse::default_ml()));
        match res {
            Err(p) => rec.panic_violation(&p, "encoder predefined tables", json!({}), json!({"part": "encoder predefined"})),
            Ok((ll, of, ml)) => {
                check_enc(&rec, "predefined literal lengths", &ll, &ref_tables::LL_DEFAULT_NORM, 6);
                check_enc(&rec, "predefined offsets", &of, &ref_tables::OF_DEFAULT_NORM, 5);
                check_enc(&rec, "predefined match lengths", &ml, &ref_tables::ML_DEFAULT_NORM, 6);
            }
        }
        let n = args.vol(40_000, 2_000_000);
        par_cases(&rec, 123, n, |_, r| {
            let acc_log = r.range(5, 9) as u8;
            let ms = *r.pick(&[12usize, 32, 36, 53, 256]);
            let norm = gen_norm(r, acc_log, ms);
            if zf::check_norm(&norm, acc_log).is_err() {
                return;
            }
            let probs: Vec<i32> = norm.iter().map(|x| i32::from(*x)).collect();
            match catch(|| vfse::EncFse::from_probabilities(&probs, acc_log)) {
                Ok(t) => check_enc(&rec, "from_probabilities", &t, &norm, acc_log),
                Err(p) => rec.panic_violation(&p, "from_probabilities", json!({"norm": norm}), json!({"part": "encoder_from_probabilities", "norm": norm, "acc_log": acc_log})),
            }
        });
    }

    // ---------------- decoder side: description -> table
    let n = args.vol(600_000, 40_000_000);
    par_cases(&rec, 12, n, |i, r| {
        rec.eval();
        let acc_log = r.range(5, 9) as u8;
        let (max_sym, max_log) = *r.pick(&[(35usize, 9u8), (52, 9), (31, 8), (255, 9), (255, 6), (11, 6)]);
        if acc_log > max_log {
            return;
        }
        let norm = gen_norm(r, acc_log, max_sym + 1);
        if zf::check_norm(&norm, acc_log).is_err() {
            rec.count("generator_rejected_by_model", 1);
            return;
        }
        let desc = zf::write_ncount(&norm, acc_log);
        let want = model_table(&norm, acc_log);
        let mut padded = desc.clone();
        padded.extend_from_slice(&[0xAA, 0x55, 0xFF]);
        let res = catch(|| {
            let mut t = ruzstd::fse::FSETable::new(max_sym as u8);
            let used = t.build_decoder(&padded, max_log).map_err(|e| e.to_string())?;
            Ok::<_, String>((used, table_of(&t), t.accuracy_log))
        });
        let replay = json!({"part": "decoder", "norm": norm, "acc_log": acc_log, "description": hex(&desc), "max_symbol": max_sym, "max_log": max_log});
        match res {
            Err(p) => rec.panic_violation(&p, "build_decoder", json!({"acc_log": acc_log}), replay),
            Ok(Err(e)) => rec.violation(Sig::new("valid_description_rejected", "build_decoder", &e.chars().filter(|c| !c.is_ascii_digit()).take(60).collect::<String>()), json!({"error": e, "norm": norm, "acc_log": acc_log}), replay),
            Ok(Ok((used, got, log))) => {
                if used != desc.len() || log != acc_log {
                    rec.violation(Sig::new("description_length", "build_decoder", "bytes consumed / accuracy log"), json!({"consumed": used, "description_len": desc.len(), "accuracy_log": log, "expected_log": acc_log}), replay);
                } else if got != want {
                    let k = got.iter().zip(want.iter()).position(|(a, b)| a != b).unwrap_or(got.len().min(want.len()));
                    rec.violation(
                        Sig::new("table_differs_from_specification", "build_decoder", &format!("has_less_than_one={}", norm.contains(&-1))),
                        json!({"state": k, "ruzstd": got.get(k), "specification": want.get(k), "norm": norm, "acc_log": acc_log}),
                        replay,
                    );
                } else {
                    rec.distinct(fnv_str(&format!("{got:?}")));
                    if norm.contains(&-1) {
                        rec.count("tables_with_less_than_one_probabilities", 1);
                    }
                    if norm.windows(7).any(|w| w.iter().all(|x| *x == 0)) {
                        rec.count("tables_with_zero_runs_of_7_or_more", 1);
                    }
                }
            }
        }
        if i < 3 {
            rec.sample(json!({"part": "decoder", "norm": norm, "acc_log": acc_log, "description": hex(&desc)}));
        }
    });

    // ---------------- encoder side: production histograms
    let n = args.vol(200_000, 15_000_000);
    par_cases(&rec, 121, n, |i, r| {
        rec.eval();
        let (max_sym, max_log, kind) = *r.pick(&[(35usize, 9u8, "ll"), (52, 9, "ml"), (31, 8, "of"), (11, 6, "huffman weights")]);
        // histogram
        let nsym = match r.below(6) {
            0 => 1,
            1 => 2,
            2 => max_sym + 1,
            _ => r.usize(1, max_sym + 1),
        };
        let mut symbols: Vec<u8> = (0..=max_sym as u8).collect();
        for k in (1..symbols.len()).rev() {
            let j = r.usize(0, k);
            symbols.swap(k, j);
        }
        symbols.truncate(nsym);
        if r.chance(1, 4) {
            symbols[0] = 0;
        }
        symbols.sort();
        symbols.dedup();
        let total = match r.below(4) {
            0 => r.usize(symbols.len(), symbols.len() + 3),
            1 => r.usize(symbols.len(), 300),
            _ => r.size(symbols.len(), if kind == "huffman weights" { 255 } else { 20_000 }),
        };
        let skew = r.below(3);
        let mut data: Vec<u8> = symbols.clone(); // every symbol at least once
        while data.len() < total {
            let k = match skew {
                0 => r.usize(0, symbols.len() - 1),
                1 => (r.usize(0, symbols.len() - 1) * r.usize(0, symbols.len())) / symbols.len().max(1),
                _ => {
                    if r.chance(9, 10) {
                        0
                    } else {
                        r.usize(0, symbols.len() - 1)
                    }
                }
            };
            data.push(symbols[k.min(symbols.len() - 1)]);
        }
        // shuffle
        for k in (1..data.len()).rev() {
            let j = r.usize(0, k);
            data.swap(k, j);
        }
        let shape = format!("{kind} symbols={} only_symbol_0={}", symbols.len().min(3), symbols == [0]);
        let replay = json!({"part": "encoder", "kind": kind, "max_log": max_log, "data": if data.len() <= 4000 { hex(&data) } else { format!("(len {})", data.len()) }, "case": [args.seed, 121, i]});
        let res = catch(|| {
            let t = vfse::EncFse::from_data(data.iter().copied(), max_log, true);
            let desc = t.write_table();
            (t.acc_log(), t.probabilities(), t.states(), desc)
        });
        let (acc_log, probs, states, desc) = match res {
            Ok(x) => x,
            Err(p) => {
                rec.panic_violation(&p, &format!("table builder {shape}"), json!({"histogram_symbols": symbols.len(), "total": data.len()}), replay);
                return;
            }
        };
        // the description parses back (ruzstd's parser and the model's) to exactly the table the encoder uses
        let last = probs.iter().rposition(|p| *p != 0).unwrap_or(0);
        let norm: Vec<i16> = probs[..=last].iter().map(|p| *p as i16).collect();
        let mut problems: Vec<String> = Vec::new();
        if acc_log > max_log || acc_log < 5 {
            problems.push(format!("accuracy log {acc_log} outside 5..={max_log}"));
        }
        match zf::read_ncount(&desc, max_log, 255) {
            Ok((n2, l2, used)) => {
                if n2 != norm || l2 != acc_log || used != desc.len() {
                    problems.push(format!("the specification reads the description as log {l2} norm {n2:?} ({used} of {} bytes), the encoder uses log {acc_log} norm {norm:?}", desc.len()));
                }
            }
            Err(e) => problems.push(format!("the description is not valid according to the specification: {e}")),
        }
        if problems.is_empty() {
            let parsed = catch(|| {
                let mut t = ruzstd::fse::FSETable::new(255);
                t.build_decoder(&desc, max_log).map(|used| (used, table_of(&t))).map_err(|e| e.to_string())
            });
            match parsed {
                Ok(Ok((used, dt))) => {
                    if used != desc.len() {
                        problems.push(format!("decoder consumes {used} of {} description bytes", desc.len()));
                    }
                    // every encoder state is the decoder's state at that index
                    for (sym, idx, baseline, nb) in &states {
                        match dt.get(*idx) {
                            Some(e) if *e == (*sym, *nb, *baseline as u32) => {}
                            other => {
                                problems.push(format!("encoder state (symbol {sym}, index {idx}, baseline {baseline}, bits {nb}) but the decoder's table has {other:?} there"));
                                break;
                            }
                        }
                    }
                    if states.len() != dt.len() {
                        problems.push(format!("encoder has {} states, decoder table {}", states.len(), dt.len()));
                    }
                    if dt != model_table(&norm, acc_log) {
                        problems.push("decoder table differs from the specification's construction".into());
                    }
                }
                Ok(Err(e)) => problems.push(format!("the decoder rejects the compressor's table description: {e}")),
                Err(p) => problems.push(format!("decoder panic {}", p.what)),
            }
        }
        // symbols that occur must be encodable
        for s in &symbols {
            if probs[*s as usize] == 0 {
                problems.push(format!("symbol {s} occurs but has probability 0"));
                break;
            }
        }
        // streams: one state (the crate's own coder pair), two interleaved states (against the model's decoder)
        if problems.is_empty() && data.len() >= 2 {
            let seq_len = data.len().min(3000);
            let seq = &data[..seq_len];
            let res = catch(|| {
                let t = vfse::EncFse::from_probabilities(&probs[..=last], acc_log);
                let one = t.encode(seq);
                let two = if seq.len() >= 4 { Some(t.encode_interleaved(seq)) } else { None };
                (one, two)
            });
            match res {
                Err(p) => problems.push(format!("stream encoder panic {}", p.what)),
                Ok((one, two)) => {
                    let body = &one[desc.len().min(one.len())..];
                    let dtab = catch(|| {
                        let mut t = ruzstd::fse::FSETable::new(255);
                        t.build_decoder(&one, max_log).map_err(|e| e.to_string())?;
                        vfse::decode_stream(&t, body, seq.len())
                    });
                    match dtab {
                        Ok(Ok((out, left))) => {
                            if out != seq {
                                problems.push("single state stream does not decode to the encoded symbols".into());
                            } else if left != 0 {
                                problems.push(format!("single state stream: {left} bits left after decoding"));
                            }
                        }
                        other => problems.push(format!("single state stream cannot be decoded: {other:?}")),
                    }
                    let md = zf::build_dtable(&norm, acc_log);
                    match zf::decode_1state(&md, body, seq.len()) {
                        Ok(out) if out == seq => {}
                        other => problems.push(format!("single state stream according to the specification: {:?}", other.map(|v| v.len()))),
                    }
                    if let Some(two) = two {
                        let body = &two[desc.len().min(two.len())..];
                        match zf::decode_2state(&md, body, 100_000) {
                            Ok(out) if out == seq => {}
                            other => problems.push(format!("two interleaved states: the specification decodes {:?}, {} symbols were encoded", other.map(|v| v.len()), seq.len())),
                        }
                    }
                }
            }
        }
        if let Some(first) = problems.first() {
            rec.violation(
                Sig::new("encoder_table_roundtrip", &shape, &first.chars().filter(|c| !c.is_ascii_digit()).take(70).collect::<String>()),
                json!({"problems": problems, "kind": kind, "acc_log": acc_log, "norm": norm, "description": hex(&desc)}),
                replay,
            );
        } else {
            rec.distinct(fnv_str(&format!("{acc_log}{norm:?}")));
            rec.count(&format!("encoder_tables_{kind}"), 1);
        }
        if i < 3 {
            rec.sample(json!({"part": "encoder", "kind": kind, "symbols": symbols.len(), "total": data.len(), "acc_log": acc_log, "norm": norm, "description": hex(&desc)}));
        }
    });

    // ---------------- what the compressor really writes: table descriptions located by the frame walker in frames from
    // compress_to_vec must parse (ruzstd's parser with the format's maximum logs, and the model's strict reader)
    {
        let n = args.vol(300, 6000);
        par_cases(&rec, 124, n, |i, r| {
            rec.eval();
            let data = match i % 4 {
                0 => crate::wl::flat_offset_classes(r),
                1 => crate::wl::gen(r, crate::wl::Shape::RepeatsFar, 200_000),
                2 => crate::wl::gen(r, crate::wl::Shape::Text, 100_000),
                _ => {
                    let shape = crate::wl::random_shape(r);
                    crate::wl::gen(r, shape, 150_000)
                }
            };
            let frame = match catch(|| ruzstd::encoding::compress_to_vec(&data[..], ruzstd::encoding::CompressionLevel::Fastest)) {
                Ok(f) => f,
                Err(p) => {
                    rec.panic_violation(&p, "compress_to_vec", json!({}), json!({"part": "production", "case": [args.seed, 124, i]}));
                    return;
                }
            };
            // lenient structural walk: only used to find the table descriptions
            let mut pos = 6usize;
            let mut tables = 0;
            while pos + 3 <= frame.len() {
                let h = u32::from(frame[pos]) | u32::from(frame[pos + 1]) << 8 | u32::from(frame[pos + 2]) << 16;
                let (last, ty, size) = (h & 1 == 1, (h >> 1) & 3, (h >> 3) as usize);
                let body = pos + 3;
                if ty == 2 && body + size <= frame.len() {
                    let blk = &frame[body..body + size];
                    if let Ok(lh) = dec::parse_literals_header(blk) {
                        let lit_len = lh.header_len as usize + lh.compressed_size.map(|c| c as usize).unwrap_or(if lh.ls_type == 1 { 1 } else { lh.regenerated_size as usize });
                        if lit_len < blk.len() {
                            let sq = &blk[lit_len..];
                            if let Ok((hl, nseq, Some(modes))) = dec::parse_sequences_header(sq) {
                                if nseq > 0 {
                                    let mut at = hl as usize;
                                    for (kind, shift, max_log, max_sym) in [("literal lengths", 6u8, 9u8, 35usize), ("offsets", 4, 8, 31), ("match lengths", 2, 9, 52)] {
                                        match (modes >> shift) & 3 {
                                            1 => at += 1,
                                            2 => {
                                                tables += 1;
                                                let src = &sq[at.min(sq.len())..];
                                                let ours = catch(|| {
                                                    let mut t = ruzstd::fse::FSETable::new(max_sym as u8);
                                                    t.build_decoder(src, max_log).map_err(|e| e.to_string())
                                                });
                                                let model = zf::read_ncount(src, max_log, max_sym);
                                                match (&ours, &model) {
                                                    (Ok(Ok(a)), Ok((_, _, b))) if a == b => at += *a,
                                                    _ => {
                                                        rec.violation(
                                                            Sig::new("compressor_table_description_invalid", kind, &format!("{:?}", model.as_ref().err().map(|e| e.chars().filter(|c| !c.is_ascii_digit()).take(50).collect::<String>()))),
                                                            json!({"decoder": format!("{ours:?}"), "specification": format!("{:?}", model.as_ref().map(|m| (m.1, m.2))), "input_len": data.len()}),
                                                            json!({"part": "production", "case": [args.seed, 124, i], "data_kind": i % 4}),
                                                        );
                                                        return;
                                                    }
                                                }
                                            }
                                            _ => {}
                                        }
                                    }
                                }
                            }
                        }
                    }
                }
                if ty == 3 {
                    break;
                }
                pos = body + if ty == 1 { 1 } else { size };
                if last {
                    break;
                }
            }
            rec.count("production_table_descriptions_checked", tables);
        });
    }

    // ---------------- the three interleaved sequence states through the compressor's section writer and the decoder's section reader
    let n = args.vol(20_000, 1_000_000);
    par_cases(&rec, 122, n, |i, r| {
        rec.eval();
        let nseq = match r.below(4) {
            0 => 1,
            1 => r.usize(1, 5),
            _ => r.size(1, 3000),
        };
        let style = r.below(4);
        let seqs: Vec<(u32, u32, u32)> = (0..nseq)
            .map(|_| {
                let ll = match style {
                    0 => 0,
                    1 => r.usize(0, 20) as u32,
                    _ => r.size(0, 131_071) as u32,
                };
                let ml = match style {
                    0 => 3,
                    1 => r.usize(3, 40) as u32,
                    _ => r.size(3, 131_074) as u32,
                };
                let of = match style {
                    0 => 4,
                    _ => {
                        let code = r.below(31) as u32;
                        ((1u32 << code) + r.below(1u64 << code) as u32).max(4)
                    }
                };
                (ll, ml, of)
            })
            .collect();
        let res = catch(|| {
            let sec = enc::encode_sequences_section(&seqs);
            let mut scratch = dec::FseScratch::new();
            let back = dec::decode_sequences_section(&sec, &mut scratch);
            (sec, back)
        });
        let replay = json!({"part": "sequences", "sequences": if seqs.len() <= 300 { json!(seqs) } else { json!(format!("({} sequences) case {:?}", seqs.len(), [args.seed, 122, i])) }});
        match res {
            Err(p) => rec.panic_violation(&p, &format!("sequences section style {style}"), json!({"nseq": nseq}), replay),
            Ok((sec, Ok(back))) => {
                if back != seqs {
                    rec.violation(Sig::new("sequences_roundtrip", "encode_sequences -> decode_sequences", &format!("style {style}")), json!({"nseq": nseq, "section": hex_brief(&sec)}), replay);
                } else {
                    rec.distinct(fnv(&sec));
                }
            }
            Ok((sec, Err(e))) => rec.violation(Sig::new("sequences_roundtrip", "encode_sequences -> decode_sequences", &e.chars().filter(|c| !c.is_ascii_digit()).take(60).collect::<String>()), json!({"error": e, "nseq": nseq, "section": hex_brief(&sec)}), replay),
        }
    });
    rec.set_extra("exhaustive", json!(false));
    rec.finish()
}
