//! Runtime monitors for the properties C01-C20 of ruzstd. One sub-command per monitor;
//! `/verif/check` builds this binary in several variants and merges the partial evidence.

#![allow(dead_code)]
mod calloc;
mod common;
mod ref_tables;

mod c04;
mod c14;

#[cfg(feature = "calloc")]
#[global_allocator]
static ALLOC: calloc::Counting = calloc::Counting;

fn main() {
    let args = common::Args::parse();
    common::install_panic_hook();
    rayon::ThreadPoolBuilder::new()
        .num_threads(args.threads)
        .stack_size(16 << 20)
        .build_global()
        .unwrap();
    let code = match args.check.as_str() {
        "c04" => c04::run(&args),
        "c14" => c14::run(&args),
        other => {
            eprintln!("unknown check {other}");
            2
        }
    };
    std::process::exit(code);
}
