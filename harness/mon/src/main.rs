//! Runtime monitors for the properties C01-C20 of ruzstd. One sub-command per monitor;
//! `/verif/check` builds this binary in several variants and merges the partial evidence.

#![allow(dead_code)]
mod calloc;
mod common;
mod ref_tables;
mod refz;
mod wl;
#[cfg(feature = "model")]
mod frames;

#[cfg(feature = "model")]
mod c01;
mod c02;
mod c04;
#[cfg(feature = "model")]
mod c03;
#[cfg(feature = "model")]
mod c05;
#[cfg(feature = "model")]
mod c06;
#[cfg(feature = "model")]
mod c07;
#[cfg(feature = "model")]
mod c09;
#[cfg(feature = "model")]
mod c10;
mod c11;
#[cfg(feature = "model")]
mod c12;
#[cfg(feature = "model")]
mod c13;
mod c14;
mod c16;
mod c17;
mod c18;
mod c19;
mod c20;

#[cfg(feature = "calloc")]
#[global_allocator]
static ALLOC: calloc::Counting = calloc::Counting;

fn main() {
    let args = common::Args::parse();
    common::install_panic_hook();
    rayon::ThreadPoolBuilder::new()
        .num_threads(args.threads)
        .stack_size(16 << 20)
        .build_global()
        .unwrap();
    let code = match args.check.as_str() {
        #[cfg(feature = "model")]
        "c01" => c01::run(&args),
        "c02" => c02::run(&args),
        "genembedded" => genembedded(),
        "c04" => c04::run(&args),
        #[cfg(feature = "model")]
        "miriprep" => miriprep(&args),
        #[cfg(feature = "model")]
        "fuzzseeds" => fuzzseeds(&args),
        #[cfg(feature = "model")]
        "c03" => c03::run(&args),
        #[cfg(feature = "model")]
        "c03case" => c03::run_case_file(&args),
        #[cfg(feature = "model")]
        "c05" => c05::run(&args),
        #[cfg(feature = "model")]
        "c05child" => c05::run_child(&args),
        #[cfg(feature = "model")]
        "c06" => c06::run(&args),
        #[cfg(feature = "model")]
        "c07" => c07::run(&args),
        #[cfg(feature = "model")]
        "c09" => c09::run(&args),
        #[cfg(feature = "model")]
        "c10" => c10::run(&args),
        "c11" => c11::run(&args),
        #[cfg(feature = "model")]
        "c12" => c12::run(&args),
        #[cfg(feature = "model")]
        "c13" => c13::run(&args),
        "c14" => c14::run(&args),
        "c16" => c16::run(&args),
        "c17" => c17::run(&args),
        "c18" => c18::run(&args),
        "c19" => c19::run(&args),
        "c20" => c20::run(&args),
        "c20case" => c20::run_case_child(&args),
        other => {
            eprintln!("unknown check {other}");
            2
        }
    };
    std::process::exit(code);
}

/// (re)write the two reference-compressed frames embedded in wlcore::hostile (run once; the files are committed)
fn genembedded() -> i32 {
    use refz::CP;
    let dir = concat!(env!("CARGO_MANIFEST_DIR"), "/../wlcore/src/");
    let g = refz::compress(&wlcore::hostile::good_content(), 3, &[CP::ChecksumFlag(true), CP::WindowLog(12)], None).unwrap();
    let h = refz::compress(&wlcore::hostile::history_text(), 19, &[CP::ChecksumFlag(true)], None).unwrap();
    std::fs::write(format!("{dir}good_frame.zst"), &g).unwrap();
    std::fs::write(format!("{dir}history_frame.zst"), &h).unwrap();
    println!("good_frame.zst {} bytes, history_frame.zst {} bytes", g.len(), h.len());
    0
}

/// write the seed corpus of the libFuzzer targets: --out <dir> gets decode/ and ring/
#[cfg(feature = "model")]
fn fuzzseeds(args: &common::Args) -> i32 {
    use wlcore::hostile::join_fuzz_input;
    let Some(out) = &args.out else { return 2 };
    let (ddir, rdir) = (format!("{out}/decode"), format!("{out}/ring"));
    let _ = std::fs::create_dir_all(&ddir);
    let _ = std::fs::create_dir_all(&rdir);
    let mut n = 0usize;
    let mut put = |bytes: Vec<u8>| {
        let _ = std::fs::write(format!("{ddir}/seed_{n:05}"), bytes);
        n += 1;
    };
    let mut r = common::Rng::for_case(args.seed, 78, 0);
    let mut k = 0usize;
    for c in frames::synth_matrix().iter() {
        if c.bytes.len() <= 4000 && c.dict.is_none() {
            k += 1;
            put(join_fuzz_input(k % 9, &[(k % 3) as u8], &c.bytes));
        }
        if let Some(d) = &c.dict {
            if c.bytes.len() <= 4000 && d.len() <= 8000 {
                put(join_fuzz_input(9, d, &c.bytes));
                put(join_fuzz_input(10, &[1], d));
            }
        }
    }
    for (_, p) in zspec::synth::hostile_matrix() {
        let b = zspec::synth::synthesise(&p).bytes;
        if b.len() <= 4000 {
            k += 1;
            put(join_fuzz_input(k % 9, &[(k % 3) as u8], &b));
        }
    }
    for _ in 0..120 {
        if let Some(c) = frames::synth_random(&mut r, 3000) {
            if c.bytes.len() <= 3000 && c.dict.is_none() {
                k += 1;
                put(join_fuzz_input(k % 9, &[(k % 3) as u8], &c.bytes));
            }
        }
    }
    for _ in 0..80 {
        let c = frames::libzstd_frame(&mut r, 6000);
        if c.bytes.len() <= 3000 {
            k += 1;
            put(join_fuzz_input(k % 9, &[(k % 3) as u8], &c.bytes));
        }
    }
    if let Ok(raw) = std::fs::read("/repo/ruzstd/dict_tests/dictionary") {
        if let Ok(f) = refz::compress(b"some text that wants a dictionary, some text", 3, &[], Some(&raw)) {
            if raw.len() <= 65535 {
                put(join_fuzz_input(9, &raw, &f));
            }
        }
    }
    for i in 0..24u64 {
        let _ = std::fs::write(format!("{rdir}/seed_{i:03}"), {
            let mut v = vec![(i % 3) as u8];
            v.extend(r.bytes(40 + 20 * i as usize));
            v
        });
    }
    println!("fuzzseeds: {n} decode seeds, 24 ring seeds");
    0
}

/// write small valid frames (with their content) and hostile plans for the Miri monitor
#[cfg(feature = "model")]
fn miriprep(args: &common::Args) -> i32 {
    use std::fmt::Write as _;
    let mut text = String::new();
    for c in frames::synth_matrix().iter() {
        if c.bytes.len() <= 700 && c.expected.len() <= 2500 && c.dict.is_none() {
            let _ = writeln!(text, "V {} {} {}", common::hex(c.origin.as_bytes()), common::hex(&c.bytes), common::hex(&c.expected));
        }
    }
    let mut r = common::Rng::for_case(args.seed, 77, 0);
    let mut n = 0;
    while n < 150 {
        if let Some(c) = frames::synth_random(&mut r, 1500) {
            if c.bytes.len() <= 1500 {
                let _ = writeln!(text, "V {} {} {}", common::hex(b"random plan"), common::hex(&c.bytes), common::hex(&c.expected));
                n += 1;
            }
        }
    }
    for _ in 0..60 {
        let c = frames::libzstd_frame(&mut r, 2000);
        if c.bytes.len() <= 1500 {
            let _ = writeln!(text, "V {} {} {}", common::hex(b"libzstd"), common::hex(&c.bytes), common::hex(&c.expected));
        }
    }
    for (_, p) in zspec::synth::hostile_matrix() {
        let b = zspec::synth::synthesise(&p).bytes;
        if b.len() <= 700 {
            let _ = writeln!(text, "H {}", common::hex(&b));
        }
    }
    match &args.out {
        Some(o) => {
            if let Some(parent) = std::path::Path::new(o).parent() {
                let _ = std::fs::create_dir_all(parent);
            }
            std::fs::write(o, text).map(|_| 0).unwrap_or(2)
        }
        None => 2,
    }
}
