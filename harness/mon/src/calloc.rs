//! Counting global allocator.
//!
//! Every block carries a 16 byte header saying whether it was allocated while the *library call
//! scope* flag of the allocating thread was set and which thread slot it is accounted to. That way
//! only memory requested by the library under test is counted, wherever it is freed later, and no
//! address map is needed. Switched off (feature `calloc`) in sanitizer builds so that the header
//! cannot hide an underflow from the sanitizer.

use std::alloc::{GlobalAlloc, Layout, System};
use std::cell::Cell;
use std::sync::atomic::{AtomicI64, AtomicU64, AtomicUsize, Ordering};

const HDR: usize = 16;
const MAGIC: u64 = 0x5EED_A110_C000_0000;
const SLOTS: usize = 512;

#[allow(clippy::declare_interior_mutable_const)]
const ZERO_I: AtomicI64 = AtomicI64::new(0);
#[allow(clippy::declare_interior_mutable_const)]
const ZERO_U: AtomicU64 = AtomicU64::new(0);
static LIVE: [AtomicI64; SLOTS] = [ZERO_I; SLOTS];
static PEAK: [AtomicI64; SLOTS] = [ZERO_I; SLOTS];
static LARGEST: [AtomicU64; SLOTS] = [ZERO_U; SLOTS];
static REQUESTED: [AtomicU64; SLOTS] = [ZERO_U; SLOTS];
static CAP: [AtomicU64; SLOTS] = [ZERO_U; SLOTS];
static NEXT_SLOT: AtomicUsize = AtomicUsize::new(1);
static CAP_HOOK: std::sync::atomic::AtomicPtr<()> = std::sync::atomic::AtomicPtr::new(std::ptr::null_mut());

/// `f` is called (on the thread that exceeded its cap) right before the process exits with status 97
pub fn set_cap_hook(f: fn()) {
    CAP_HOOK.store(f as *mut (), Ordering::Relaxed);
}

thread_local! {
    static SLOT: Cell<usize> = const { Cell::new(0) };
    static IN_SCOPE: Cell<bool> = const { Cell::new(false) };
    static GUARD: Cell<bool> = const { Cell::new(false) };
}

/// bytes appended to guarded blocks
const TAIL: usize = 32;
const TAIL_BYTE: u8 = 0xC7;
/// fresh guarded memory is filled with this value (same as wlcore::ring::POISON)
pub const POISON: u8 = 0xEE;
const GUARDED_BIT: u64 = 1 << 17;

fn guard_on() -> bool {
    GUARD.try_with(|s| s.get()).unwrap_or(false)
}

pub struct Counting;

fn my_slot() -> usize {
    SLOT.try_with(|s| {
        if s.get() == 0 {
            let n = NEXT_SLOT.fetch_add(1, Ordering::Relaxed);
            s.set(if n < SLOTS { n } else { SLOTS - 1 });
        }
        s.get()
    })
    .unwrap_or(0)
}

fn in_scope() -> bool {
    IN_SCOPE.try_with(|s| s.get()).unwrap_or(false)
}

fn account(slot: usize, delta: i64, request: u64) {
    let live = LIVE[slot].fetch_add(delta, Ordering::Relaxed) + delta;
    if delta > 0 {
        PEAK[slot].fetch_max(live, Ordering::Relaxed);
        LARGEST[slot].fetch_max(request, Ordering::Relaxed);
        REQUESTED[slot].fetch_add(request, Ordering::Relaxed);
        let cap = CAP[slot].load(Ordering::Relaxed);
        if cap != 0 && live as u64 > cap {
            // let the monitor say which case was running (once; allocations made by the hook are not capped)
            CAP[slot].store(0, Ordering::Relaxed);
            let hook = CAP_HOOK.load(Ordering::Relaxed);
            if !hook.is_null() {
                let _ = IN_SCOPE.try_with(|s| s.set(false));
                let f: fn() = unsafe { std::mem::transmute::<*mut (), fn()>(hook) };
                f();
            }
            let msg = b"MON-ALLOC-CAP exceeded\n";
            unsafe {
                libc::write(2, msg.as_ptr() as *const libc::c_void, msg.len());
                libc::_exit(97);
            }
        }
    }
}

unsafe impl GlobalAlloc for Counting {
    unsafe fn alloc(&self, layout: Layout) -> *mut u8 {
        if layout.align() > HDR {
            return System.alloc(layout);
        }
        let counted = in_scope();
        let guarded = counted && guard_on();
        let extra = if guarded { TAIL } else { 0 };
        let Ok(full) = Layout::from_size_align(layout.size() + HDR + extra, HDR) else {
            return std::ptr::null_mut();
        };
        let base = System.alloc(full);
        if base.is_null() {
            return base;
        }
        let slot = if counted { my_slot() } else { 0 };
        if guarded {
            std::ptr::write_bytes(base.add(HDR), POISON, layout.size());
            std::ptr::write_bytes(base.add(HDR + layout.size()), TAIL_BYTE, TAIL);
        }
        (base as *mut u64).write(
            MAGIC | ((counted as u64) << 16) | if guarded { GUARDED_BIT } else { 0 } | slot as u64,
        );
        (base as *mut u64).add(1).write(layout.size() as u64);
        if counted {
            account(slot, layout.size() as i64, layout.size() as u64);
        }
        base.add(HDR)
    }

    unsafe fn alloc_zeroed(&self, layout: Layout) -> *mut u8 {
        if layout.align() > HDR {
            return System.alloc_zeroed(layout);
        }
        let Ok(full) = Layout::from_size_align(layout.size() + HDR, HDR) else {
            return std::ptr::null_mut();
        };
        let base = System.alloc_zeroed(full);
        if base.is_null() {
            return base;
        }
        let counted = in_scope();
        let slot = if counted { my_slot() } else { 0 };
        (base as *mut u64).write(MAGIC | ((counted as u64) << 16) | slot as u64);
        (base as *mut u64).add(1).write(layout.size() as u64);
        if counted {
            account(slot, layout.size() as i64, layout.size() as u64);
        }
        base.add(HDR)
    }

    unsafe fn dealloc(&self, ptr: *mut u8, layout: Layout) {
        if layout.align() > HDR {
            return System.dealloc(ptr, layout);
        }
        let base = ptr.sub(HDR);
        let tag = (base as *mut u64).read();
        if tag & (1 << 16) != 0 {
            let slot = (tag & 0xFFFF) as usize;
            account(slot, -(layout.size() as i64), 0);
        }
        let extra = if tag & GUARDED_BIT != 0 { TAIL } else { 0 };
        System.dealloc(
            base,
            Layout::from_size_align_unchecked(layout.size() + HDR + extra, HDR),
        );
    }

    unsafe fn realloc(&self, ptr: *mut u8, layout: Layout, new_size: usize) -> *mut u8 {
        if layout.align() > HDR {
            return System.realloc(ptr, layout, new_size);
        }
        let base = ptr.sub(HDR);
        let tag = (base as *mut u64).read();
        if tag & GUARDED_BIT != 0 {
            // keep it simple for guarded blocks: new block, copy, free
            let new = self.alloc(Layout::from_size_align_unchecked(new_size, layout.align()));
            if !new.is_null() {
                std::ptr::copy_nonoverlapping(ptr, new, layout.size().min(new_size));
                self.dealloc(ptr, layout);
            }
            return new;
        }
        let new_base = System.realloc(
            base,
            Layout::from_size_align_unchecked(layout.size() + HDR, HDR),
            new_size + HDR,
        );
        if new_base.is_null() {
            return new_base;
        }
        (new_base as *mut u64).add(1).write(new_size as u64);
        if tag & (1 << 16) != 0 {
            let slot = (tag & 0xFFFF) as usize;
            account(
                slot,
                new_size as i64 - layout.size() as i64,
                new_size as u64,
            );
        }
        new_base.add(HDR)
    }
}

/// Allocations made by this thread from now on are (not) attributed to the library under test
pub fn track(on: bool) {
    let _ = IN_SCOPE.try_with(|s| s.set(on));
}

/// Blocks allocated by this thread inside the library scope from now on are filled with [POISON] and get guard bytes behind them
pub fn guard(on: bool) {
    let _ = GUARD.try_with(|s| s.set(on));
}

/// Size of the live block at `ptr` as requested by its owner. `ptr` must have been returned by this allocator.
///
/// # Safety
/// `ptr` must point to a live block of this allocator with alignment <= 16
pub unsafe fn block_size(ptr: usize) -> Option<usize> {
    let base = (ptr as *const u8).sub(HDR);
    let tag = (base as *const u64).read();
    if tag & 0xFFFF_FFFF_FFF0_0000 != MAGIC {
        return None;
    }
    Some((base as *const u64).add(1).read() as usize)
}

/// Are the header in front of the block and the guard bytes behind it untouched?
///
/// # Safety
/// `ptr` must point to a live block of this allocator with alignment <= 16
pub unsafe fn guards_intact(ptr: usize) -> bool {
    let base = (ptr as *const u8).sub(HDR);
    let tag = (base as *const u64).read();
    if tag & 0xFFFF_FFFF_FFF0_0000 != MAGIC {
        return false;
    }
    if tag & GUARDED_BIT == 0 {
        return true;
    }
    let size = (base as *const u64).add(1).read() as usize;
    let tail = std::slice::from_raw_parts(base.add(HDR + size), TAIL);
    tail.iter().all(|b| *b == TAIL_BYTE)
}

/// Run `f` with allocation tracking on
pub fn scoped<T>(f: impl FnOnce() -> T) -> T {
    let before = in_scope();
    track(true);
    struct Off(bool);
    impl Drop for Off {
        fn drop(&mut self) {
            track(self.0);
        }
    }
    let _g = Off(before);
    f()
}

#[derive(Debug, Clone, Copy, Default)]
pub struct Stats {
    /// counted bytes currently live
    pub live: i64,
    /// maximum of `live` since the last reset
    pub peak: i64,
    /// largest single request since the last reset
    pub largest: u64,
    /// sum of all requests since the last reset
    pub requested: u64,
}

pub fn stats() -> Stats {
    let s = my_slot();
    Stats {
        live: LIVE[s].load(Ordering::Relaxed),
        peak: PEAK[s].load(Ordering::Relaxed),
        largest: LARGEST[s].load(Ordering::Relaxed),
        requested: REQUESTED[s].load(Ordering::Relaxed),
    }
}

/// peak := live, largest := 0, requested := 0
pub fn reset_peak() {
    let s = my_slot();
    PEAK[s].store(LIVE[s].load(Ordering::Relaxed), Ordering::Relaxed);
    LARGEST[s].store(0, Ordering::Relaxed);
    REQUESTED[s].store(0, Ordering::Relaxed);
}

/// Exit the process with status 97 when the counted live bytes of this thread exceed `bytes` (0 = no cap)
pub fn set_cap(bytes: u64) {
    CAP[my_slot()].store(bytes, Ordering::Relaxed);
}

pub const ENABLED: bool = cfg!(feature = "calloc");
