//! C16 Compression is correct for every well-behaved user-supplied matcher.
//!
//! A scripted matcher replays parses that were generated first (literal runs and matches with
//! ml >= 3, offsets within the declared window and within the data so far, tiling each block
//! exactly); the data is synthesised from the parse so every match is true. The frame must decode
//! to the input with ruzstd and with the reference decoder, and compress() must not panic.

use crate::common::*;
use crate::refz;
use ruzstd::encoding::{CompressionLevel, FrameCompressor, Matcher, Sequence};
use ruzstd::verif::EncEvent;
use serde_json::{json, Value};

const BLOCK: usize = 128 * 1024;

#[derive(Clone, Debug)]
pub struct BlockScript {
    pub data: Vec<u8>,
    /// (literal length, offset, match length); the rest of the block are trailing literals
    pub seqs: Vec<(u32, u32, u32)>,
    /// hand out a space one byte larger than the block (only legal for the last block: the source runs dry)
    pub oversize_space: bool,
}

#[derive(Clone, Debug)]
pub struct FrameScript {
    pub window: u64,
    pub blocks: Vec<BlockScript>,
}

impl FrameScript {
    pub fn data(&self) -> Vec<u8> {
        let mut v = Vec::new();
        for b in &self.blocks {
            v.extend_from_slice(&b.data);
        }
        v
    }
}

pub struct ScriptMatcher {
    frames: Vec<FrameScript>,
    frame: usize,
    started: bool,
    next_block: usize,
    current: Vec<u8>,
    pub mismatch: Option<String>,
}

impl ScriptMatcher {
    pub fn new(frames: Vec<FrameScript>) -> Self {
        ScriptMatcher { frames, frame: 0, started: false, next_block: 0, current: Vec::new(), mismatch: None }
    }
}

impl Matcher for ScriptMatcher {
    fn get_next_space(&mut self) -> Vec<u8> {
        match self.frames[self.frame].blocks.get(self.next_block) {
            Some(b) => vec![0u8; b.data.len() + usize::from(b.oversize_space)],
            // script exhausted: the source is dry too, any non empty space will do
            None => vec![0u8; 16],
        }
    }
    fn get_last_space(&mut self) -> &[u8] {
        &self.current
    }
    fn commit_space(&mut self, space: Vec<u8>) {
        match self.frames[self.frame].blocks.get(self.next_block) {
            Some(b) if b.data == space => {}
            _ => self.mismatch = Some(format!("harness: committed space is not planned block {}", self.next_block)),
        }
        self.current = space;
        self.next_block += 1;
    }
    fn skip_matching(&mut self) {}
    fn start_matching(&mut self, mut handle_sequence: impl for<'a> FnMut(Sequence<'a>)) {
        let b = &self.frames[self.frame].blocks[self.next_block - 1];
        let mut pos = 0usize;
        for (ll, of, ml) in &b.seqs {
            let lits = &self.current[pos..pos + *ll as usize];
            pos += *ll as usize;
            handle_sequence(Sequence::Triple { literals: lits, offset: *of as usize, match_len: *ml as usize });
            pos += *ml as usize;
        }
        if pos < self.current.len() {
            handle_sequence(Sequence::Literals { literals: &self.current[pos..] });
        }
    }
    fn reset(&mut self, _level: CompressionLevel) {
        if self.started {
            self.frame += 1;
        }
        self.started = true;
        self.next_block = 0;
        self.current.clear();
    }
    fn window_size(&self) -> u64 {
        self.frames[self.frame.min(self.frames.len() - 1)].window
    }
}

// ------------------------------------------------------------------ parse generation

#[derive(Clone, Copy, Debug, PartialEq, Eq)]
pub enum Family {
    General,
    ManyTiny,
    SingleCode,
    Extreme,
    SameLiterals,
    RawBetweenHuffman,
    FarOffsets,
    /// like General, but the matcher hands out blocks that are larger than the window it declares
    BlockLargerThanWindow,
    /// many different LL / ML / offset codes used about equally often plus one rare code: the histograms that
    /// need the largest table logs
    FlatCodes,
}

pub const FAMILIES: &[Family] = &[Family::General, Family::ManyTiny, Family::SingleCode, Family::Extreme, Family::SameLiterals, Family::RawBetweenHuffman, Family::FarOffsets, Family::BlockLargerThanWindow, Family::FlatCodes];

struct Builder {
    /// largest block the script uses: min(128 KiB, window) unless the family is about blocks larger than the window
    max_block: usize,
    window: u64,
    hist: Vec<u8>,
    blocks: Vec<BlockScript>,
    data: Vec<u8>,
    seqs: Vec<(u32, u32, u32)>,
    /// how much of `data` is covered by the sequences so far (everything behind it are literals of the next sequence)
    covered: usize,
}

impl Builder {
    fn new(window: u64, blocks_within_window: bool) -> Self {
        let max_block = if blocks_within_window { BLOCK.min(window as usize) } else { BLOCK };
        Builder { max_block, window, hist: Vec::new(), blocks: Vec::new(), data: Vec::new(), seqs: Vec::new(), covered: 0 }
    }
    fn room(&self) -> usize {
        self.max_block - self.data.len()
    }
    fn produced(&self) -> usize {
        self.hist.len() + self.data.len()
    }
    fn max_offset(&self) -> usize {
        (self.window as usize).min(self.produced())
    }
    fn byte_at(&self, abs: usize) -> u8 {
        if abs < self.hist.len() {
            self.hist[abs]
        } else {
            self.data[abs - self.hist.len()]
        }
    }
    /// literals then a match; returns false if it does not fit the block or no offset is possible
    fn seq(&mut self, lits: &[u8], offset: usize, ml: usize) -> bool {
        if lits.len() + ml > self.room() || ml < 3 {
            return false;
        }
        self.data.extend_from_slice(lits);
        if offset == 0 || offset > self.max_offset() {
            // cannot place the match: keep the literals as trailing literals of an earlier state
            self.data.truncate(self.data.len() - lits.len());
            return false;
        }
        let start = self.produced() - offset;
        for i in 0..ml {
            let b = self.byte_at(start + i);
            self.data.push(b);
        }
        // literals added earlier without a match (trailing()) belong to this sequence too
        let ll = self.data.len() - ml - self.covered;
        self.seqs.push((ll as u32, offset as u32, ml as u32));
        self.covered = self.data.len();
        true
    }
    fn trailing(&mut self, lits: &[u8]) {
        let n = lits.len().min(self.room());
        self.data.extend_from_slice(&lits[..n]);
    }
    fn end_block(&mut self) {
        if self.data.is_empty() {
            return;
        }
        let data = std::mem::take(&mut self.data);
        self.covered = 0;
        self.hist.extend_from_slice(&data);
        self.blocks.push(BlockScript { data, seqs: std::mem::take(&mut self.seqs), oversize_space: false });
    }
    fn finish(mut self, oversize_last: bool) -> FrameScript {
        self.end_block();
        if let Some(last) = self.blocks.last_mut() {
            last.oversize_space = oversize_last && last.data.len() < self.max_block;
        }
        FrameScript { window: self.window, blocks: self.blocks }
    }
}

fn lits(r: &mut Rng, n: usize, alpha: u64, base: u8) -> Vec<u8> {
    (0..n).map(|_| base.wrapping_add(r.below(alpha) as u8)).collect()
}

pub fn gen_frame(r: &mut Rng, family: Family, thorough: bool) -> FrameScript {
    let window_log = match family {
        Family::FarOffsets => r.usize(17, if thorough { 25 } else { 22 }),
        _ => *r.pick(&[10usize, 10, 11, 13, 17, 17, 18, 20]),
    };
    let mut window = 1u64 << window_log;
    if r.chance(1, 3) {
        // not a power of two: the header has to round up
        window = window * 3 / 4 + r.below(window / 4 + 1);
        window = window.max(1024);
    }
    // families that need big blocks use windows that can hold them
    if matches!(family, Family::ManyTiny | Family::Extreme | Family::RawBetweenHuffman | Family::SameLiterals | Family::FlatCodes) {
        window = window.max(BLOCK as u64);
    }
    let mut b = Builder::new(window, family != Family::BlockLargerThanWindow);
    let family = if family == Family::BlockLargerThanWindow { Family::General } else { family };
    let alpha = *r.pick(&[2u64, 4, 16, 60, 200, 256]);
    let base = r.byte();
    match family {
        Family::General => {
            let nblocks = r.usize(1, 5);
            for _ in 0..nblocks {
                let target = match r.below(4) {
                    0 => b.max_block,
                    1 => r.usize(1, 300.min(b.max_block)),
                    _ => r.size(1, b.max_block),
                };
                while b.data.len() < target {
                    let ll = match r.below(5) {
                        0 => 0,
                        1 => r.usize(0, 15),
                        2 => r.size(0, 4000),
                        _ => r.usize(0, 60),
                    };
                    let ml = match r.below(5) {
                        0 => 3,
                        1 => r.usize(3, 34),
                        2 => r.size(3, 3000),
                        _ => r.usize(3, 130),
                    };
                    let l = lits(r, ll.min(b.room()), alpha, base);
                    let mo = b.produced() + l.len();
                    let maxo = (b.window as usize).min(mo);
                    if maxo == 0 {
                        b.trailing(&l.iter().copied().chain([base]).collect::<Vec<_>>());
                        continue;
                    }
                    let offset = match r.below(4) {
                        0 => r.usize(1, maxo.min(8)),
                        1 => maxo,
                        _ => r.usize(1, maxo),
                    };
                    if !b.seq(&l, offset, ml) {
                        let room = b.room();
                        b.trailing(&l[..l.len().min(room)]);
                        break;
                    }
                }
                if r.chance(1, 2) {
                    let n = r.usize(0, 50);
                    let t = lits(r, n, alpha, base);
                    b.trailing(&t);
                }
                b.end_block();
            }
        }
        Family::ManyTiny => {
            // sequence counts around every boundary of the count encoding; ll = 0 (or 1), ml = 3
            let n = *r.pick(&[1usize, 2, 126, 127, 128, 129, 255, 256, 0x7EFE, 0x7EFF, 0x7F00, 0x7F01, 0x7FFF, 0x8000, 0x8001, 40000, 43689]);
            let with_lit = n < 30000 && r.chance(1, 3);
            b.trailing(&lits(r, 4, alpha.max(2), base));
            b.end_block();
            for _ in 0..n {
                let l = if with_lit { lits(r, 1, alpha, base) } else { Vec::new() };
                let maxo = b.max_offset().min(50);
                let offset = r.usize(1, maxo.max(1));
                if !b.seq(&l, offset, 3) {
                    break;
                }
            }
            if r.chance(1, 2) {
                b.trailing(&lits(r, 3, alpha, base));
            }
            b.end_block();
        }
        Family::SingleCode => {
            // every sequence has the same LL code and/or ML code and/or offset code
            let fixed_ll = r.chance(2, 3);
            let fixed_ml = r.chance(2, 3);
            let fixed_of = r.chance(1, 2);
            let ll0 = *r.pick(&[0usize, 0, 1, 5, 15, 16, 100]);
            let ml0 = *r.pick(&[3usize, 3, 4, 10, 34, 35, 200]);
            b.trailing(&lits(r, 40, alpha.max(2), base));
            b.end_block();
            let n = r.usize(1, 400);
            for _ in 0..n {
                let ll = if fixed_ll { ll0 } else { r.usize(0, 40) };
                let ml = if fixed_ml { ml0 } else { r.usize(3, 60) };
                let l = lits(r, ll, alpha, base);
                let maxo = (b.window as usize).min(b.produced() + l.len());
                let offset = if fixed_of { 20.min(maxo) } else { r.usize(1, maxo) };
                if !b.seq(&l, offset, ml) {
                    break;
                }
            }
            b.end_block();
        }
        Family::Extreme => {
            // maximal literal / match lengths and codes
            let n0 = r.usize(1, 2000);
            b.trailing(&lits(r, n0, alpha.max(2), base));
            b.end_block();
            match r.below(4) {
                0 => {
                    let ll = *r.pick(&[65535usize, 65536, 131068, 131069]);
                    let l = lits(r, ll, alpha, base);
                    let o = b.max_offset().min(1 + r.usize(0, 1000));
                    b.seq(&l, o.max(1), BLOCK - ll);
                }
                1 => {
                    let ml = *r.pick(&[65538usize, 65539, 131071, 131072]);
                    let o = r.usize(1, b.max_offset());
                    let ll = BLOCK - ml;
                    let nl = r.usize(0, ll);
                    let l = lits(r, nl, alpha, base);
                    b.seq(&l, o, ml);
                }
                _ => {
                    for _ in 0..r.usize(1, 30) {
                        let ll = *r.pick(&[0usize, 15, 16, 17, 63, 64, 127, 128, 255, 256, 1023, 1024, 8191, 8192]);
                        let ml = *r.pick(&[3usize, 34, 35, 36, 130, 131, 258, 259, 1026, 1027, 8194, 8195]);
                        let l = lits(r, ll.min(b.room()), alpha, base);
                        let maxo = (b.window as usize).min(b.produced() + l.len());
                        if !b.seq(&l, r.usize(1, maxo), ml) {
                            break;
                        }
                    }
                }
            }
            b.end_block();
        }
        Family::SameLiterals => {
            // a first block with varied content, then blocks whose literals are all one byte value
            // (matches copy the varied content from earlier blocks)
            let n0 = r.usize(200, 3000);
            b.trailing(&lits(r, n0, alpha.max(3), base));
            b.end_block();
            let lit = r.byte();
            let per = *r.pick(&[1usize, 2, 5, 40]);
            let want_lits = *r.pick(&[10usize, 1000, 1024, 1025, 1030, 3000, 20000]);
            let mut have = 0;
            while have < want_lits {
                let l = vec![lit; per];
                let maxo = (b.window as usize).min(b.produced() + per);
                // copy from the varied first block where possible
                let offset = r.usize((b.produced() + per).saturating_sub(b.hist.len().min(3000)).max(1).min(maxo), maxo);
                if !b.seq(&l, offset, r.usize(3, 12)) {
                    break;
                }
                have += per;
            }
            b.end_block();
        }
        Family::RawBetweenHuffman => {
            // block 1 (sometimes): skewed literals, an older Huffman table reaches the decoder;
            // block 2: literals that Huffman coding shrinks by a few dozen bytes only (permutations of 255 symbols)
            //          plus enough short far matches that the sequences section costs more than that:
            //          the block falls back to raw *after* its Huffman table was built;
            // block 3..: the same kind of literals with few matches: a candidate for treeless literals
            let perm_lits = |r: &mut Rng, n: usize| -> Vec<u8> {
                let mut perm: Vec<u8> = (0..=254u8).collect();
                let mut l: Vec<u8> = Vec::with_capacity(n + 255);
                while l.len() < n {
                    for i in (1..perm.len()).rev() {
                        let j = r.usize(0, i);
                        perm.swap(i, j);
                    }
                    l.extend_from_slice(&perm);
                }
                l.truncate(n);
                l
            };
            if r.chance(1, 2) {
                let n1 = r.usize(1100, 40000);
                let l: Vec<u8> = (0..n1).map(|_| (r.below(16) * r.below(16) / 16) as u8).collect();
                b.trailing(&l);
                b.end_block();
            }
            let n2 = r.usize(40_000, 130_000);
            let k = r.usize(20, 260);
            let l2 = perm_lits(r, n2);
            let mut pos = 0;
            for i in 0..k {
                let run = (n2 / k).max(1);
                let end = if i + 1 == k { n2 } else { pos + run };
                let maxo = (b.window as usize).min(b.produced() + (end - pos));
                let o = r.usize((maxo / 2).max(1), maxo);
                if !b.seq(&l2[pos..end], o, 3) {
                    break;
                }
                pos = end;
            }
            b.end_block();
            for _ in 0..r.usize(1, 3) {
                let n3 = r.usize(30_000, 128_000);
                let l3 = perm_lits(r, n3);
                let cut = r.usize(1, l3.len() - 1);
                let o = r.usize(1, b.max_offset());
                b.seq(&l3[..cut], o, r.usize(3, 40));
                let room = b.room();
                b.trailing(&l3[cut..cut + (l3.len() - cut).min(room)]);
                b.end_block();
            }
        }
        Family::BlockLargerThanWindow => unreachable!(),
        Family::FlatCodes => {
            // a first block to copy from
            let n0 = r.usize(20_000, 60_000);
            b.trailing(&lits(r, n0, alpha.max(16), base));
            b.end_block();
            let flat_ll = r.chance(1, 2);
            let flat_ml = r.chance(1, 2);
            let per_code = r.usize(8, 40);
            let max_of_code = (usize::BITS - 1 - (b.max_offset() + 3).leading_zeros()) as usize;
            let of_codes: Vec<usize> = (2..=max_of_code.min(16)).collect();
            let rare = *r.pick(&of_codes);
            let mut plan: Vec<usize> = Vec::new();
            for c in &of_codes {
                let k = if *c == rare { 1 } else { per_code };
                plan.extend(std::iter::repeat_n(*c, k));
            }
            for i in (1..plan.len()).rev() {
                let j = r.usize(0, i);
                plan.swap(i, j);
            }
            for code in plan {
                // offset value in [2^code, 2^(code+1)), offset = value - 3
                let lo = (1usize << code).max(4);
                let hi = ((1usize << (code + 1)) - 1).min(b.max_offset() + 3);
                if lo > hi {
                    continue;
                }
                let offset = r.usize(lo, hi) - 3;
                let ll = if flat_ll { zspec::tables::LL_BASE[r.usize(0, 22)] as usize } else { r.usize(0, 3) };
                let ml = if flat_ml { zspec::tables::ML_BASE[r.usize(0, 36)] as usize } else { r.usize(3, 6) };
                let l = lits(r, ll.min(b.room()), alpha, base);
                if offset == 0 || offset > (b.window as usize).min(b.produced() + l.len()) || !b.seq(&l, offset, ml) {
                    if b.room() < 300 {
                        b.end_block();
                    }
                    continue;
                }
            }
            b.end_block();
        }
        Family::FarOffsets => {
            // many blocks, matches reaching as far back as the window allows
            let total = (window as usize * 2).min(if thorough { 48 << 20 } else { 6 << 20 });
            while b.produced() < total {
                // cheap bulk: long runs of literals with a changing pattern
                let n = b.room().min(r.usize(50_000, BLOCK));
                if n < 400 {
                    b.end_block();
                    continue;
                }
                let np = r.usize(3, 40);
                let pat = r.bytes(np);
                let l: Vec<u8> = (0..n.saturating_sub(300)).map(|i| pat[i % pat.len()] ^ ((i / 7919) as u8)).collect();
                let maxo = (b.window as usize).min(b.produced() + l.len());
                if maxo == 0 {
                    b.trailing(&l);
                } else {
                    let offset = match r.below(3) {
                        0 => maxo,
                        1 => maxo.saturating_sub(r.usize(0, 10)).max(1),
                        _ => r.usize(1, maxo),
                    };
                    if !b.seq(&l, offset, r.usize(3, 250)) {
                        b.trailing(&l);
                    }
                }
                b.end_block();
            }
        }
    }
    if b.blocks.is_empty() && b.data.is_empty() {
        b.trailing(&[base]);
    }
    b.finish(r.chance(1, 2))
}

// ------------------------------------------------------------------ judging

fn script_json(frames: &[FrameScript]) -> Value {
    let total: usize = frames.iter().map(|f| f.blocks.iter().map(|b| b.data.len() + b.seqs.len() * 12).sum::<usize>()).sum();
    if total > 600_000 {
        return json!({"note": "script too large to inline: re-run the check with the recorded seed", "frames": frames.len()});
    }
    json!(frames
        .iter()
        .map(|f| json!({"window": f.window, "blocks": f.blocks.iter().map(|b| json!({"data": hex(&b.data), "seqs": b.seqs, "oversize_space": b.oversize_space})).collect::<Vec<_>>()}))
        .collect::<Vec<_>>())
}

pub fn script_from_json(v: &Value) -> Option<Vec<FrameScript>> {
    let mut out = Vec::new();
    for f in v.as_array()? {
        let mut blocks = Vec::new();
        for b in f["blocks"].as_array()? {
            let seqs = b["seqs"].as_array()?.iter().map(|s| (s[0].as_u64().unwrap_or(0) as u32, s[1].as_u64().unwrap_or(0) as u32, s[2].as_u64().unwrap_or(0) as u32)).collect();
            blocks.push(BlockScript { data: unhex(b["data"].as_str()?), seqs, oversize_space: b["oversize_space"].as_bool().unwrap_or(false) });
        }
        out.push(FrameScript { window: f["window"].as_u64()?, blocks });
    }
    Some(out)
}

fn describe_events(ev: &[EncEvent]) -> String {
    let mut s = String::new();
    for e in ev {
        match e {
            EncEvent::Block { block_type, raw_fallback, .. } => s.push_str(match (block_type, raw_fallback) {
                (0, true) => "F",
                (0, false) => "R",
                (1, _) => "L",
                _ => "C",
            }),
            EncEvent::Literals { mode, raw_fallback, .. } => s.push_str(match (mode, raw_fallback) {
                (0, _) => "r",
                (_, true) => "f",
                (2, _) => "h",
                _ => "t",
            }),
            EncEvent::Sequences { num_sequences } => s.push_str(match num_sequences {
                0 => "0",
                1..=127 => "a",
                128..=0x7EFF => "b",
                _ => "c",
            }),
        }
    }
    s
}

pub fn judge(rec: &Recorder, families: &[String], frames: Vec<FrameScript>) {
    let family = families.first().map(|s| s.as_str()).unwrap_or("?");
    rec.eval();
    let inputs: Vec<Vec<u8>> = frames.iter().map(|f| f.data()).collect();
    let replay = json!({"family": family, "families": families, "script": script_json(&frames)});
    let nseq_max = frames.iter().flat_map(|f| f.blocks.iter().map(|b| b.seqs.len())).max().unwrap_or(0);
    let disc_base = format!("family={}", families.join("+"));
    let fam_of = |k: usize| families.get(k).cloned().unwrap_or_else(|| family.to_string());
    ruzstd::verif::enc_log_enable(true);
    let res = catch(|| {
        let mut out_frames: Vec<Vec<u8>> = Vec::new();
        let mut comp = FrameCompressor::new_with_matcher(ScriptMatcher::new(frames.clone()), CompressionLevel::Fastest);
        for input in &inputs {
            comp.set_source(&input[..]);
            comp.set_drain(Vec::new());
            comp.compress();
            out_frames.push(comp.take_drain().unwrap_or_default());
        }
        let m = comp.replace_matcher(ScriptMatcher::new(frames.clone()));
        (out_frames, m.mismatch)
    });
    let events = ruzstd::verif::take_enc_log();
    ruzstd::verif::enc_log_enable(false);
    let ev_sig = describe_events(&events);
    let (out_frames, mismatch) = match res {
        Ok(x) => x,
        Err(p) => {
            rec.panic_violation(&p, &disc_base, json!({"max_sequences_per_block": nseq_max, "events_before": ev_sig.chars().rev().take(12).collect::<String>()}), replay);
            return;
        }
    };
    if let Some(m) = mismatch {
        rec.inconclusive(&m);
        return;
    }
    for (k, (frame, input)) in out_frames.iter().zip(inputs.iter()).enumerate() {
        // reference decoder
        match refz::decompress_single(frame) {
            Ok(d) if d == *input => {}
            other => {
                let flags = event_flags(&ev_sig);
                rec.violation(
                    Sig::new("reference_decoder_rejects", &format!("family={}", fam_of(k)), &flags),
                    json!({"frame_index": k, "reference": format!("{:?}", other.map(|d| d.len())), "input_len": input.len(), "events": ev_sig.chars().take(200).collect::<String>(), "max_sequences_per_block": nseq_max}),
                    replay.clone(),
                );
                return;
            }
        }
        // ruzstd's own decoder
        let own = catch(|| {
            let mut d = ruzstd::decoding::FrameDecoder::new();
            d.set_max_window_size(1 << 31);
            let mut out = Vec::with_capacity(input.len() + 8);
            d.decode_all_to_vec(frame, &mut out).map(|_| out)
        });
        match own {
            Ok(Ok(d)) if d == *input => {}
            Ok(other) => {
                rec.violation(
                    Sig::new("own_decoder_rejects", &format!("family={}", fam_of(k)), &event_flags(&ev_sig)),
                    json!({"frame_index": k, "own": format!("{:?}", other.map(|d| d.len()).map_err(|e| e.to_string())), "input_len": input.len()}),
                    replay.clone(),
                );
                return;
            }
            Err(p) => {
                rec.panic_violation(&p, &format!("{disc_base} decode"), json!({}), replay.clone());
                return;
            }
        }
    }
    if !events.is_empty() {
        rec.distinct(fnv_str(&format!("{family}|{}", collapse(&ev_sig))));
    }
    // steering evidence: how often the interesting encoder situations were produced
    if let Some(i) = ev_sig.find("hF").or_else(|| ev_sig.find("aF")).or_else(|| ev_sig.find("bF")) {
        if ev_sig[..i + 1].contains('h') {
            rec.count("frames_with_raw_fallback_after_huffman_literals", 1);
            if ev_sig[i..].contains('t') {
                rec.count("frames_with_treeless_after_such_a_fallback", 1);
            }
        }
    }
    if ev_sig.contains('t') {
        rec.count("frames_with_treeless_literals", 1);
    }
    // which Huffman table the encoder remembers vs which one the decoder has received
    let (mut enc_ver, mut dec_ver, mut pending, mut treeless_in_block) = (0u32, 0u32, false, false);
    for e in &events {
        match e {
            EncEvent::Literals { mode: 2, raw_fallback: false, .. } => {
                enc_ver += 1;
                pending = true;
            }
            EncEvent::Literals { mode: 3, raw_fallback: false, .. } => treeless_in_block = true,
            EncEvent::Block { block_type, .. } => {
                if *block_type == 2 {
                    if pending {
                        dec_ver = enc_ver;
                    }
                    if treeless_in_block && dec_ver != enc_ver {
                        rec.count("treeless_blocks_referring_to_a_table_the_decoder_never_got", 1);
                    }
                } else if pending {
                    rec.count("blocks_stored_raw_after_their_huffman_table_was_kept", 1);
                }
                pending = false;
                treeless_in_block = false;
                if matches!(e, EncEvent::Block { last_block: true, .. }) {
                    enc_ver = 0;
                    dec_ver = 0;
                }
            }
            _ => {}
        }
    }
    rec.count(&format!("family_{family}"), 1);
}

/// coarse properties of what the compressor did, for signatures
fn event_flags(ev: &str) -> String {
    // a block that fell back to raw after huffman literals were written, followed later by treeless literals
    let fallback_after_huf = ev.contains("hF") || ev.contains("h0F") || ev.contains("haF") || ev.contains("hbF") || ev.contains("hcF");
    format!("raw_fallback_after_huffman={} treeless={} seq3byte={}", fallback_after_huf, ev.contains('t'), ev.contains('c'))
}

/// run-length collapse of the event string so that signatures stay short
fn collapse(s: &str) -> String {
    let mut out = String::new();
    let mut last = '\0';
    for c in s.chars() {
        if c != last {
            out.push(c);
        }
        last = c;
    }
    out.chars().take(40).collect()
}

pub fn run(args: &Args) -> i32 {
    let rec = Recorder::new("C16", "exploration", args);
    rec.set_rule("one evaluation = one compressor object fed 1-3 frames through a scripted user matcher (a valid parse generated first, data synthesised from it) with both decoders checking every frame; distinct_nontrivial = distinct (parse family, collapsed encoder event string) pairs, i.e. distinct combinations of block types / literal modes / sequence count forms the compressor went through");
    rec.assume("the scripted matcher honours the Matcher contract: literal runs and matches (ml >= 3, 1 <= offset <= min(window_size(), data so far)) tile each block exactly; blocks are at most 128 KiB");

    if let Some(path) = &args.replay {
        let doc: Value = std::fs::read_to_string(path).ok().and_then(|t| serde_json::from_str(&t).ok()).unwrap_or(Value::Null);
        match script_from_json(&doc["replay"]["script"]) {
            Some(frames) => {
                let fams: Vec<String> = doc["replay"]["families"].as_array().map(|a| a.iter().filter_map(|x| x.as_str().map(|s| s.to_string())).collect()).unwrap_or_else(|| vec!["replay".to_string()]);
                judge(&rec, &fams, frames);
                rec.distinct(1);
                rec.distinct(2);
            }
            None => rec.inconclusive("replay file has no inline script: re-run the check with the recorded seed"),
        }
        rec.absorb_feats();
        return rec.finish();
    }

    let n = args.vol(10_000, 300_000);
    par_cases(&rec, 16, n, |i, r| {
        let family = FAMILIES[(i % FAMILIES.len() as u64) as usize];
        // the expensive families less often
        if matches!(family, Family::FarOffsets) && i % 5 != 0 {
            let f = gen_frame(r, Family::General, args.thorough());
            judge(&rec, &["General".to_string()], vec![f]);
            return;
        }
        let nframes = if r.chance(1, 5) && family != Family::FarOffsets { r.usize(2, 3) } else { 1 };
        let fams: Vec<Family> = (0..nframes).map(|k| if k == 0 { family } else { *r.pick(FAMILIES) }).collect();
        let frames: Vec<FrameScript> = fams.iter().map(|f| gen_frame(r, *f, false)).collect();
        let fam_names: Vec<String> = fams.iter().map(|f| format!("{f:?}")).collect();
        if i < 7 {
            rec.sample(json!({"family": format!("{family:?}"), "frames": frames.iter().map(|f| json!({"window": f.window, "blocks": f.blocks.iter().map(|b| json!({"len": b.data.len(), "sequences": b.seqs.len(), "first_seqs": b.seqs.iter().take(3).collect::<Vec<_>>()})).collect::<Vec<_>>()})).collect::<Vec<_>>()}));
        }
        judge(&rec, &fam_names, frames);
    });
    rec.set_extra("exhaustive", json!(false));
    for f in ["enc_seqnum_1byte", "enc_seqnum_2byte", "enc_seqnum_3byte", "enc_blk_raw_fallback", "enc_lit_huf_new", "enc_lit_raw", "enc_blk_compressed"] {
        if rec.feat(f) == 0 {
            rec.inconclusive(&format!("coverage floor: encoder path {f} was never taken"));
        }
    }
    rec.finish()
}
