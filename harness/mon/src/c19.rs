//! C19 Command-line compress then decompress restores the file byte for byte.
//!
//! Runs the real `ruzstd-cli` binary (built from /repo by the driver) in fresh directories and
//! judges exit status, stderr and the files on disk. The reference decoder (libzstd) checks the
//! compressed file.

use crate::common::*;
use serde_json::json;
use std::io::Read;
use std::path::{Path, PathBuf};
use std::process::{Command, Stdio};
use std::time::{Duration, Instant};

struct RunResult {
    code: Option<i32>,
    stderr: String,
    timed_out: bool,
}

fn run_cli(cli: &str, cwd: &Path, args: &[String], timeout: Duration) -> RunResult {
    run_cli_limited(cli, cwd, args, timeout, None)
}

/// `fsize_kib`: run the tool with a file size limit (writes beyond it fail with EFBIG, like a full disk or a quota)
fn run_cli_limited(cli: &str, cwd: &Path, args: &[String], timeout: Duration, fsize_kib: Option<usize>) -> RunResult {
    let mut cmd = match fsize_kib {
        None => {
            let mut c = Command::new(cli);
            c.args(args);
            c
        }
        Some(k) => {
            let mut c = Command::new("bash");
            c.arg("-c").arg(format!("trap '' XFSZ; ulimit -f {k}; exec \"$0\" \"$@\"")).arg(cli).args(args);
            c
        }
    };
    let mut child = match cmd
        .current_dir(cwd)
        .stdin(Stdio::null())
        .stdout(Stdio::null())
        .stderr(Stdio::piped())
        .env("NO_COLOR", "1")
        .env("RUST_BACKTRACE", "0")
        .spawn()
    {
        Ok(c) => c,
        Err(e) => {
            return RunResult { code: None, stderr: format!("spawn failed: {e}"), timed_out: true };
        }
    };
    let mut stderr_pipe = child.stderr.take().unwrap();
    let reader = std::thread::spawn(move || {
        let mut s = Vec::new();
        let _ = stderr_pipe.read_to_end(&mut s);
        String::from_utf8_lossy(&s).into_owned()
    });
    let start = Instant::now();
    let mut timed_out = false;
    let code = loop {
        match child.try_wait() {
            Ok(Some(st)) => break st.code(),
            Ok(None) => {
                if start.elapsed() > timeout {
                    let _ = child.kill();
                    let _ = child.wait();
                    timed_out = true;
                    break None;
                }
                std::thread::sleep(Duration::from_millis(5));
            }
            Err(_) => break None,
        }
    };
    let stderr = reader.join().unwrap_or_default();
    RunResult { code, stderr, timed_out }
}

fn panicked(r: &RunResult) -> bool {
    r.stderr.contains("panicked at") || r.code == Some(101) || (r.code.is_none() && !r.timed_out)
}

fn gen_content(r: &mut Rng, shape: u64, len: usize) -> Vec<u8> {
    let mut v = vec![0u8; len];
    match shape {
        0 => {}
        1 => r.fill(&mut v),
        2 => {
            let words: [&[u8]; 8] = [b"the ", b"quick ", b"brown ", b"fox ", b"jumps ", b"over ", b"lazy ", b"dog\n"];
            let mut i = 0;
            while i < len {
                let w = *r.pick(&words);
                let n = w.len().min(len - i);
                v[i..i + n].copy_from_slice(&w[..n]);
                i += n;
            }
        }
        3 => {
            // random with long distance repeats
            r.fill(&mut v);
            let mut i = 1000;
            while i + 200 < len {
                let l = r.usize(10, 200);
                let src = r.usize(0, i - l);
                let (a, b) = v.split_at_mut(i);
                b[..l].copy_from_slice(&a[src..src + l]);
                i += l + r.usize(0, 3000);
            }
        }
        _ => {
            for (i, b) in v.iter_mut().enumerate() {
                *b = (i % 251) as u8 ^ ((i / 4096) as u8);
            }
        }
    }
    v
}

#[derive(Clone)]
struct Level {
    args: Vec<&'static str>,
    name: &'static str,
    /// the statement requires this invocation to succeed and round trip
    must_work: bool,
}

pub fn run(args: &Args) -> i32 {
    let rec = Recorder::new("C19", "exploration", args);
    rec.set_rule("one evaluation = one compress (and, if it succeeded, decompress) invocation pair of the real CLI binary on a generated file; distinct_nontrivial = distinct (size class, data shape, level option, path mode, output path fresh / holding a longer file / holding a shorter file) tuples whose compress invocation exited 0 and were carried through decompression and comparison");
    rec.assume("'implemented level' = Uncompressed (-l 0) and Fastest (-l 1); 'no level given' must work because the statement requires it; a clean non-zero exit is the accepted way to fail for every other level value");
    let Some(cli) = args.extra.get("cli").cloned() else {
        rec.inconclusive("no --cli <path to ruzstd-cli>");
        return rec.finish();
    };
    if !Path::new(&cli).exists() {
        rec.inconclusive("cli binary does not exist");
        return rec.finish();
    }
    let root = PathBuf::from(format!("{VERIF_DIR}/target/tmp/c19_{}_{}", args.seed, std::process::id()));
    let _ = std::fs::remove_dir_all(&root);
    std::fs::create_dir_all(&root).unwrap();

    let levels = vec![
        Level { args: vec![], name: "absent", must_work: true },
        Level { args: vec!["-l", "0"], name: "-l 0", must_work: true },
        Level { args: vec!["-l", "1"], name: "-l 1", must_work: true },
        Level { args: vec!["--level", "1"], name: "--level 1", must_work: true },
        Level { args: vec!["--level=0"], name: "--level=0", must_work: true },
        Level { args: vec!["-l", "2"], name: "-l 2", must_work: false },
        Level { args: vec!["-l", "3"], name: "-l 3", must_work: false },
        Level { args: vec!["-l", "4"], name: "-l 4", must_work: false },
        Level { args: vec!["-l", "5"], name: "-l 5", must_work: false },
        Level { args: vec!["-l", "255"], name: "-l 255", must_work: false },
        Level { args: vec!["-l", "256"], name: "-l 256", must_work: false },
        Level { args: vec!["-l", "x"], name: "-l x", must_work: false },
        Level { args: vec!["-l", "-1"], name: "-l -1", must_work: false },
    ];
    let mut sizes: Vec<(usize, &'static str)> = vec![
        (0, "0"),
        (1, "1"),
        (2, "tiny"),
        (255, "255"),
        (256, "256"),
        (257, "257"),
        (1023, "1KiB-1"),
        (1024, "1KiB"),
        (1025, "1KiB+1"),
        (16383, "16KiB-1"),
        (16385, "16KiB+1"),
        (65535, "64KiB-1"),
        (65536, "64KiB"),
        (65537, "64KiB+1"),
        (65791, "64KiB+255"),
        (65792, "64KiB+256"),
        (128 * 1024 - 1, "128KiB-1"),
        (128 * 1024, "128KiB"),
        (128 * 1024 + 1, "128KiB+1"),
        (256 * 1024, "256KiB"),
        (3 * 128 * 1024 + 1, "384KiB+1"),
        (1 << 20, "1MiB"),
    ];
    if args.thorough() {
        sizes.extend([(5 * 1024 * 1024 + 17, "5MiB"), (64 << 20, "64MiB"), (256 << 20, "256MiB")]);
    } else {
        sizes.push((3 * 1024 * 1024 + 17, "3MiB"));
    }

    // case list: all (size, level) pairs with the data shape and the path mode rotating, plus random extras
    struct Case {
        size: usize,
        size_class: &'static str,
        shape: u64,
        level: Level,
        default_paths: bool,
        /// 0: output paths do not exist; 1: they exist and are longer than the result; 2: exist and are shorter
        preexisting: u8,
    }
    let mut cases = Vec::new();
    let mut k = 0u64;
    for (size, size_class) in &sizes {
        for level in &levels {
            // big files only with the levels that must work
            if *size > (8 << 20) && !level.must_work {
                continue;
            }
            let shapes: Vec<u64> = if *size <= (1 << 20) && args.thorough() { vec![0, 1, 2, 3, 4] } else { vec![(k + args.seed) % 5] };
            for shape in shapes {
                k += 1;
                let preexisting = if level.must_work { ((k / 2 + args.seed) % 3) as u8 } else { 0 };
                cases.push(Case { size: *size, size_class, shape, level: level.clone(), default_paths: (k + args.seed / 5) % 2 == 0, preexisting });
            }
        }
    }
    let extra = args.vol(150, 3000);
    let mut r = Rng::for_case(args.seed, 19, 0);
    for _ in 0..extra {
        let size = r.size(0, 600_000);
        let level = r.pick(&levels).clone();
        let preexisting = if level.must_work { r.below(3) as u8 } else { 0 };
        cases.push(Case { size, size_class: "random", shape: r.below(5), level, default_paths: r.chance(1, 2), preexisting });
    }
    rec.count("cases", cases.len() as u64);

    use rayon::prelude::*;
    let timeout = Duration::from_secs(if args.thorough() { 1200 } else { 180 });
    let outcome_counts = std::sync::Mutex::new(std::collections::BTreeMap::<String, u64>::new());
    let bump = |k: String| *outcome_counts.lock().unwrap().entry(k).or_insert(0) += 1;
    // big files sequentially (disk, memory), the rest in parallel
    let run_case = |i: usize, c: &Case| {
        rec.eval();
        let dir = root.join(format!("case{i}"));
        let other = root.join(format!("case{i}_out"));
        std::fs::create_dir_all(&dir).unwrap();
        std::fs::create_dir_all(&other).unwrap();
        let mut r = Rng::for_case(args.seed, 191, i as u64);
        let content = gen_content(&mut r, c.shape, c.size);
        let input = dir.join("a.bin");
        std::fs::write(&input, &content).unwrap();
        let zst = if c.default_paths { dir.join("a.bin.zst") } else { other.join("explicit.zst") };
        let mut cargs: Vec<String> = vec!["compress".into()];
        // options before or after the positionals
        let opts_first = i % 2 == 0;
        if opts_first {
            cargs.extend(c.level.args.iter().map(|s| s.to_string()));
        }
        if c.default_paths {
            cargs.push("a.bin".into());
        } else {
            cargs.push(input.to_string_lossy().into_owned());
            cargs.push(zst.to_string_lossy().into_owned());
        }
        if !opts_first {
            cargs.extend(c.level.args.iter().map(|s| s.to_string()));
        }
        let disc = format!("level={} preexisting_output={}", c.level.name, c.preexisting);
        let replay = json!({"size": c.size, "shape": c.shape, "case_seed": [args.seed, 191, i], "compress_args": cargs, "default_paths": c.default_paths, "preexisting": c.preexisting});
        // an older, longer or shorter, file at the output path must simply be replaced
        let stale = |path: &Path| match c.preexisting {
            1 => std::fs::write(path, vec![0xEEu8; c.size + 70_000]).unwrap(),
            2 => std::fs::write(path, b"old").unwrap(),
            _ => {}
        };
        stale(&zst);
        let res = run_cli(&cli, &dir, &cargs, timeout);
        if res.timed_out {
            rec.inconclusive(&format!("compress timed out ({} bytes, {})", c.size, c.level.name));
            let _ = std::fs::remove_dir_all(&dir);
            let _ = std::fs::remove_dir_all(&other);
            return;
        }
        let out_exists = zst.exists();
        let pan = panicked(&res);
        let stderr_tail: String = res.stderr.chars().rev().take(400).collect::<String>().chars().rev().collect();
        if pan && out_exists {
            rec.violation(
                Sig::new("panic_leaves_output", "compress", &disc),
                json!({"exit": res.code, "output_file_len": std::fs::metadata(&zst).map(|m| m.len()).unwrap_or(0), "stderr": stderr_tail}),
                replay.clone(),
            );
            bump(format!("{}: panic, output left behind", c.level.name));
        } else if pan {
            // not a violation of the statement as worded (nothing that looks like a result is left), recorded
            rec.count("panics_without_output", 1);
            bump(format!("{}: panic, no output", c.level.name));
            if c.level.must_work {
                rec.violation(Sig::new("must_work_failed", "compress", &disc), json!({"exit": res.code, "stderr": stderr_tail}), replay.clone());
            }
        } else if res.code != Some(0) {
            bump(format!("{}: clean failure exit {:?}", c.level.name, res.code));
            if c.level.must_work {
                rec.violation(Sig::new("must_work_failed", "compress", &disc), json!({"exit": res.code, "stderr": stderr_tail}), replay.clone());
            }
        } else {
            // exit 0: the result must be right
            bump(format!("{}: exit 0", c.level.name));
            match std::fs::read(&zst) {
                Err(_) => rec.violation(Sig::new("exit0_no_output", "compress", &disc), json!({}), replay.clone()),
                Ok(frame) => {
                    let reference = zstd::stream::decode_all(&frame[..]);
                    if reference.as_deref().ok() != Some(&content[..]) {
                        rec.violation(
                            Sig::new("invalid_for_reference_decoder", "compress", &disc),
                            json!({"reference": format!("{:?}", reference.as_ref().map(|v| v.len()).map_err(|e| e.to_string())), "input_len": c.size, "frame": hex_brief(&frame)}),
                            replay.clone(),
                        );
                    }
                    // decompress, from another directory when the output path is defaulted so that the original is not overwritten
                    let (dcwd, dargs, restored) = if c.default_paths {
                        let z2 = other.join("a.bin.zst");
                        std::fs::copy(&zst, &z2).unwrap();
                        (other.clone(), vec!["decompress".to_string(), "a.bin.zst".to_string()], other.join("a.bin"))
                    } else {
                        let out = other.join("restored.bin");
                        (dir.clone(), vec!["decompress".to_string(), zst.to_string_lossy().into_owned(), out.to_string_lossy().into_owned()], out)
                    };
                    stale(&restored);
                    let dres = run_cli(&cli, &dcwd, &dargs, timeout);
                    if dres.timed_out {
                        rec.inconclusive("decompress timed out");
                    } else if dres.code != Some(0) {
                        let tail: String = dres.stderr.chars().rev().take(400).collect::<String>().chars().rev().collect();
                        rec.violation(Sig::new("decompress_failed", "decompress", &disc), json!({"exit": dres.code, "stderr": tail, "panic": panicked(&dres)}), replay.clone());
                    } else {
                        match std::fs::read(&restored) {
                            Ok(back) if back == content => {
                                rec.distinct(fnv_str(&format!("{}|{}|{}|{}|{}", c.size_class, c.shape, c.level.name, c.default_paths, c.preexisting)));
                                if c.preexisting != 0 {
                                    rec.count("round_trips_over_existing_outputs", 1);
                                }
                                rec.count("round_trips_verified", 1);
                            }
                            Ok(back) => rec.violation(Sig::new("roundtrip_mismatch", "decompress", &disc), json!({"restored_len": back.len(), "input_len": c.size}), replay.clone()),
                            Err(_) => rec.violation(Sig::new("exit0_no_output", "decompress", &disc), json!({"expected_path": restored.to_string_lossy()}), replay.clone()),
                        }
                    }
                }
            }
        }
        if i < 4 {
            rec.sample(json!({"size": c.size, "shape": c.shape, "args": cargs, "exit": res.code, "panicked": pan, "output_exists": out_exists}));
        }
        let _ = std::fs::remove_dir_all(&dir);
        let _ = std::fs::remove_dir_all(&other);
    };
    let (big, small): (Vec<_>, Vec<_>) = cases.iter().enumerate().partition(|(_, c)| c.size > (8 << 20));
    small.par_iter().for_each(|(i, c)| run_case(*i, c));
    for (i, c) in big {
        run_case(i, c);
    }
    // ---------------- operations that cannot be carried out: the output cannot be written (device without space, file
    // size limit in the middle of the result). The tool has to fail through its exit status; a panic that leaves a file
    // behind, or exit status 0, is what the statement rules out.
    {
        let dir = root.join("faults");
        std::fs::create_dir_all(&dir).unwrap();
        let mut r = Rng::for_case(args.seed, 192, 0);
        let have_dev_full = Path::new("/dev/full").exists();
        let mut fault_runs = 0u64;
        for (k, size) in [3_000usize, 70_000, 150_000, 400_000].into_iter().enumerate() {
            let content = gen_content(&mut r, 1, size); // incompressible: the archive is as large as the input
            let input = dir.join(format!("in{k}.bin"));
            std::fs::write(&input, &content).unwrap();
            let good = dir.join(format!("good{k}.zst"));
            let pre = run_cli(&cli, &dir, &["compress".into(), input.to_string_lossy().into_owned(), good.to_string_lossy().into_owned(), "-l".into(), "1".into()], timeout);
            if pre.code != Some(0) {
                rec.inconclusive("fault cases: could not prepare an archive");
                continue;
            }
            for op in ["compress -l 0", "compress -l 1", "compress", "decompress"] {
                for fault in ["dev_full", "file_size_limit"] {
                    if fault == "dev_full" && !have_dev_full {
                        continue;
                    }
                    let out = if fault == "dev_full" { PathBuf::from("/dev/full") } else { dir.join(format!("out_{k}_{}_{fault}", op.replace(' ', "_"))) };
                    let _ = if fault == "dev_full" { Ok(()) } else { std::fs::remove_file(&out).or(Ok::<(), std::io::Error>(())) };
                    let mut a: Vec<String> = Vec::new();
                    if op == "decompress" {
                        a.extend(["decompress".to_string(), good.to_string_lossy().into_owned(), out.to_string_lossy().into_owned()]);
                    } else {
                        a.extend(["compress".to_string(), input.to_string_lossy().into_owned(), out.to_string_lossy().into_owned()]);
                        a.extend(op.split(' ').skip(1).map(|x| x.to_string()));
                    }
                    // the limit cuts the result roughly in the middle (at least 1 KiB is allowed)
                    let limit = if fault == "file_size_limit" { Some((size / 2048).max(1)) } else { None };
                    if let Some(l) = limit {
                        if l * 1024 >= size {
                            continue; // the result fits: not a fault
                        }
                    }
                    rec.eval();
                    fault_runs += 1;
                    let res = run_cli_limited(&cli, &dir, &a, timeout, limit);
                    if res.timed_out {
                        rec.inconclusive("fault case timed out");
                        continue;
                    }
                    let pan = panicked(&res);
                    let left = if fault == "dev_full" { None } else { std::fs::metadata(&out).ok().map(|m| m.len()) };
                    let disc = format!("{op} fault={fault}");
                    let tail: String = res.stderr.chars().rev().take(300).collect::<String>().chars().rev().collect();
                    let replay = json!({"args": a, "file_size_limit_kib": limit, "input_len": size});
                    if res.code == Some(0) {
                        rec.violation(Sig::new("success_reported_although_output_could_not_be_written", "fault", &disc), json!({"exit": 0, "output_file_len": left, "stderr": tail}), replay);
                    } else if pan && left.is_some() {
                        rec.violation(Sig::new("panic_leaves_output", "fault", &disc), json!({"exit": res.code, "output_file_len": left, "stderr": tail}), replay);
                    } else {
                        rec.count(&format!("fault_{fault}_failure_reported_by_exit_status"), 1);
                        rec.distinct(fnv_str(&format!("fault|{op}|{fault}|{k}")));
                    }
                    bump(format!("fault {fault} {op}: exit {:?}{}{}", res.code, if pan { " panic" } else { "" }, if left.is_some() { " output left" } else { "" }));
                }
            }
        }
        rec.count("fault_runs", fault_runs);
    }
    let _ = std::fs::remove_dir_all(&root);
    rec.set_extra("outcomes_by_level_option", json!(*outcome_counts.lock().unwrap()));
    rec.set_extra("exhaustive", json!(false));
    if rec.counter("round_trips_verified") == 0 {
        rec.inconclusive("no invocation succeeded, nothing was compared");
    }
    rec.finish()
}
