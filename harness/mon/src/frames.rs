//! Valid frame generators shared by the decoder side monitors (C01 C03 C05 C06 C07 C09 C10):
//! reference compressor under its whole configuration space, `ZSTD_compressSequences`, the
//! synthesiser's feature matrix and random plans, the repository's corpus files. Plus the self test
//! of the format model against the reference implementation that every run performs first.

use crate::common::*;
use crate::refz::{self, SeqParam, CP};
use crate::wl::{self, Shape};
use std::sync::OnceLock;
use zspec::synth::{self, FramePlan};
use zspec::walker::{walk_frame, FrameInfo, WalkOpts};

#[derive(Clone)]
pub struct FrameCase {
    pub bytes: Vec<u8>,
    pub expected: Vec<u8>,
    pub origin: String,
    /// serialised dictionary the frame needs, if any
    pub dict: Option<Vec<u8>>,
}

pub fn zrng(r: &mut Rng) -> zspec::rng::Rng {
    zspec::rng::Rng::new(r.next())
}

pub fn walk(bytes: &[u8], dict: Option<&[u8]>) -> Result<FrameInfo, String> {
    let parsed = match dict {
        Some(d) => Some(zspec::dict::parse_dict(d)?),
        None => None,
    };
    let opts = WalkOpts { dict: parsed.as_ref(), max_output: 1 << 31, require_dict_if_id: true };
    walk_frame(bytes, &opts)
}

/// The model is checked against the reference implementation on every run. An error means the
/// harness cannot be trusted (inconclusive), never a property violation.
pub fn self_test(seed: u64) -> Result<(), String> {
    wlcore::xxh::self_test()?;
    let mut r = Rng::for_case(seed, 999, 0);
    // walker reproduces libzstd's output on libzstd frames
    for i in 0..40 {
        let shape = wl::random_shape(&mut r);
        let len = wl::interesting_len(&mut r, 300_000);
        let data = wl::gen(&mut r, shape, len);
        let level = *r.pick(&[-5i32, 1, 3, 7, 13, 19]);
        let frame = refz::compress(&data, level, &[CP::ChecksumFlag(i % 2 == 0), CP::WindowLog(r.range(10, 22) as u32)], None)?;
        let info = walk(&frame, None).map_err(|e| format!("model self test: walker rejects a libzstd frame ({shape:?} {len} level {level}): {e}"))?;
        if info.output != data || info.frame_len != frame.len() || info.checksum_ok == Some(false) {
            return Err(format!("model self test: walker disagrees with libzstd on a libzstd frame ({shape:?} {len} level {level})"));
        }
        if wlcore::xxh::xxh64(&data, 0) != zspec::xxh64::xxh64(&data, 0) {
            return Err("model self test: the two independent XXH64 implementations disagree".into());
        }
    }
    // libzstd decodes synthesised frames to the synthesiser's expected bytes
    let mut accepted = 0;
    for (name, plan) in synth::feature_matrix() {
        let s = synth::synthesise(&plan);
        if !s.rule_violations.is_empty() {
            return Err(format!("model self test: feature matrix plan {name} reports rule violations {:?}", s.rule_violations));
        }
        if s.expected.len() > (80 << 20) {
            continue;
        }
        let reference = match &plan.dict {
            None => refz::decompress_expecting(&s.bytes, s.expected.len()),
            Some(d) => refz::decompress_with_dict(&s.bytes, &zspec::dict::write_dict(d)),
        };
        match reference {
            Ok(d) if d == s.expected => accepted += 1,
            other => return Err(format!("model self test: libzstd disagrees with the synthesiser on feature matrix plan {name}: {:?}", other.map(|d| d.len()))),
        }
    }
    if accepted < 100 {
        return Err(format!("model self test: only {accepted} feature matrix plans checked"));
    }
    let mut z = zrng(&mut r);
    let mut ok = 0;
    for _ in 0..60 {
        let plan = synth::random_plan(&mut z, 200_000);
        let s = synth::synthesise(&plan);
        if let Ok(d) = refz::decompress_single(&s.bytes) {
            if d == s.expected {
                ok += 1;
            }
        }
    }
    if ok < 58 {
        return Err(format!("model self test: libzstd accepted only {ok}/60 random synthesised frames"));
    }
    Ok(())
}

// ------------------------------------------------------------------------------ libzstd frames

pub fn libzstd_frame(r: &mut Rng, max_len: usize) -> FrameCase {
    let shape = wl::random_shape(r);
    let len = wl::interesting_len(r, max_len);
    let data = wl::gen(r, shape, len);
    libzstd_frame_for(r, data, format!("{shape:?}"))
}

pub fn libzstd_frame_for(r: &mut Rng, data: Vec<u8>, what: String) -> FrameCase {
    let level = match r.below(8) {
        0 => -(r.range(1, 7) as i32),
        1 => r.range(16, 22) as i32,
        2 => 1,
        _ => r.range(1, 15) as i32,
    };
    let mut params: Vec<CP> = Vec::new();
    let mut desc = format!("{what} {} bytes level {level}", data.len());
    if r.chance(1, 2) {
        params.push(CP::ChecksumFlag(true));
        desc.push_str(" checksum");
    }
    if r.chance(1, 3) {
        params.push(CP::ContentSizeFlag(false));
        desc.push_str(" no_fcs");
    }
    if r.chance(1, 2) {
        // small windows force the decoder to wrap and to drop data
        let wl = if r.chance(1, 2) { r.range(10, 14) } else { r.range(10, 24) } as u32;
        params.push(CP::WindowLog(wl));
        desc.push_str(&format!(" wlog {wl}"));
    }
    if r.chance(1, 8) {
        params.push(CP::EnableLongDistanceMatching(true));
        desc.push_str(" ldm");
    }
    if r.chance(1, 6) {
        params.push(CP::MinMatch(3));
        desc.push_str(" minmatch3");
    }
    if r.chance(1, 6) {
        let s = *r.pick(&[zstd_safe::Strategy::ZSTD_fast, zstd_safe::Strategy::ZSTD_dfast, zstd_safe::Strategy::ZSTD_greedy, zstd_safe::Strategy::ZSTD_lazy2, zstd_safe::Strategy::ZSTD_btopt, zstd_safe::Strategy::ZSTD_btultra2]);
        params.push(CP::Strategy(s));
        desc.push_str(" strategy");
    }
    if r.chance(1, 6) {
        let on = r.chance(1, 2);
        params.push(CP::LiteralCompressionMode(if on { zstd_safe::ParamSwitch::Enable } else { zstd_safe::ParamSwitch::Disable }));
        desc.push_str(if on { " litcomp_on" } else { " litcomp_off" });
    }
    if r.chance(1, 6) {
        let t = r.range(1340, 40_000) as u32;
        params.push(CP::TargetCBlockSize(t));
        desc.push_str(&format!(" target_cblock {t}"));
    }
    let bytes = if r.chance(1, 3) && !data.is_empty() {
        // streaming with flushes: several blocks, some tiny; optionally a pledged size (single segment)
        let n = r.usize(1, 6);
        let cuts: Vec<usize> = (0..n).map(|_| r.usize(0, data.len())).collect();
        let pledge = r.chance(1, 2);
        desc.push_str(&format!(" flush x{n}{}", if pledge { " pledged" } else { "" }));
        refz::compress_stream(&data, level, &params, &cuts, pledge, None)
    } else {
        refz::compress(&data, level, &params, None)
    }
    .unwrap_or_else(|e| panic!("harness: reference compressor failed ({desc}): {e}"));
    FrameCase { bytes, expected: data, origin: format!("libzstd: {desc}"), dict: None }
}

/// A frame written by ZSTD_compressSequences from an explicit parse: chosen lengths, offsets and sequence counts
pub fn seq_frame(r: &mut Rng) -> FrameCase {
    let wlog = r.range(10, 20) as u32;
    let window = 1usize << wlog;
    let total = r.size(10, 300_000);
    let mut data: Vec<u8> = Vec::with_capacity(total);
    let mut seqs: Vec<(u32, u32, u32)> = Vec::new();
    let alpha = *r.pick(&[2u64, 8, 60, 256]);
    let style = r.below(4);
    while data.len() < total {
        let mut ll = match style {
            0 => r.usize(0, 3),
            1 => r.size(0, 5000),
            _ => r.usize(0, 60),
        };
        if data.is_empty() {
            ll = ll.max(1);
        }
        for _ in 0..ll {
            data.push(r.below(alpha) as u8);
        }
        let maxo = data.len().min(window);
        let off = match r.below(5) {
            0 => r.usize(1, maxo.min(4)),
            1 => maxo,
            2 => maxo.saturating_sub(1).max(1),
            _ => r.usize(1, maxo),
        };
        let ml = match style {
            0 => 3,
            2 => r.size(3, 20_000),
            _ => r.usize(3, 100),
        };
        let start = data.len() - off;
        for i in 0..ml {
            let b = data[start + i];
            data.push(b);
        }
        seqs.push((off as u32, ll as u32, ml as u32));
    }
    let fixed = seqs;
    let mut params = vec![SeqParam::WindowLog(wlog), SeqParam::MinMatch(3)];
    if r.chance(1, 2) {
        params.push(SeqParam::Checksum(true));
    }
    if r.chance(1, 2) {
        params.push(SeqParam::RepcodeResolution(true));
    }
    match refz::compress_sequences(&data, &fixed, *r.pick(&[1i32, 3, 12]), &params) {
        Ok(bytes) => FrameCase { bytes, expected: data, origin: format!("libzstd compressSequences: {} sequences window 2^{wlog} style {style}", fixed.len()), dict: None },
        // an invalid parse is a harness problem: fall back to a normal frame
        Err(_) => libzstd_frame(r, 100_000),
    }
}

// ------------------------------------------------------------------------------ synthesised frames

fn case_from_plan(name: &str, plan: &FramePlan) -> Option<FrameCase> {
    let s = synth::synthesise(plan);
    if !s.rule_violations.is_empty() {
        return None;
    }
    let dict = plan.dict.as_ref().map(zspec::dict::write_dict);
    Some(FrameCase { bytes: s.bytes, expected: s.expected, origin: format!("synth: {name}"), dict })
}

/// The directed feature matrix (validated against libzstd once per process)
pub fn synth_matrix() -> &'static Vec<FrameCase> {
    static M: OnceLock<Vec<FrameCase>> = OnceLock::new();
    M.get_or_init(|| {
        let mut out = Vec::new();
        for (name, plan) in synth::feature_matrix() {
            if let Some(c) = case_from_plan(&name, &plan) {
                // counts only if the reference decoder agrees with the plan
                let ok = match &c.dict {
                    None => refz::decompress_expecting(&c.bytes, c.expected.len()).map(|d| d == c.expected).unwrap_or(false),
                    Some(d) => refz::decompress_with_dict(&c.bytes, d).map(|x| x == c.expected).unwrap_or(false),
                };
                if ok {
                    out.push(c);
                }
            }
        }
        out
    })
}

/// A random valid plan; None (counted by the caller) when libzstd does not agree with the plan
pub fn synth_random(r: &mut Rng, max_total: usize) -> Option<FrameCase> {
    let mut z = zrng(r);
    let plan = synth::random_plan(&mut z, max_total);
    let c = case_from_plan("random plan", &plan)?;
    match refz::decompress_single(&c.bytes) {
        Ok(d) if d == c.expected => Some(c),
        _ => None,
    }
}

// ------------------------------------------------------------------------------ repository corpus

pub fn corpus() -> &'static Vec<FrameCase> {
    static C: OnceLock<Vec<FrameCase>> = OnceLock::new();
    C.get_or_init(|| {
        let mut out = Vec::new();
        let dir = "/repo/ruzstd/decodecorpus_files";
        let mut names: Vec<String> = std::fs::read_dir(dir).map(|d| d.filter_map(|e| e.ok()).map(|e| e.file_name().to_string_lossy().into_owned()).collect()).unwrap_or_default();
        names.sort();
        for n in names {
            if let Some(stem) = n.strip_suffix(".zst") {
                if let (Ok(z), Ok(orig)) = (std::fs::read(format!("{dir}/{n}")), std::fs::read(format!("{dir}/{stem}"))) {
                    out.push(FrameCase { bytes: z, expected: orig, origin: format!("corpus: {n}"), dict: None });
                }
            }
        }
        out
    })
}

/// The mixture used by most monitors
pub fn any_frame(r: &mut Rng, max_len: usize) -> FrameCase {
    match r.below(10) {
        0 | 1 => {
            let m = synth_matrix();
            let c = r.pick(m).clone();
            if c.expected.len() <= max_len.max(300_000) {
                return c;
            }
            libzstd_frame(r, max_len)
        }
        2 | 3 => synth_random(r, max_len.min(400_000)).unwrap_or_else(|| libzstd_frame(r, max_len)),
        4 => seq_frame(r),
        5 => {
            let c = corpus();
            if c.is_empty() {
                libzstd_frame(r, max_len)
            } else {
                r.pick(c).clone()
            }
        }
        _ => libzstd_frame(r, max_len),
    }
}

pub fn shape_frame(r: &mut Rng, shape: Shape, len: usize) -> FrameCase {
    let data = wl::gen(r, shape, len);
    libzstd_frame_for(r, data, format!("{shape:?}"))
}

/// Shrink the content of one compressed block so that it ends at a structural point (behind the literals
/// header, behind the literals, behind the sequence count, behind the modes byte, inside or behind a table
/// description, inside the bitstream), fix the block header to the new size, make it the last block and drop
/// the rest of the frame. The damage is then met by the *section parsers* (with whatever state they have
/// built so far) instead of being caught by the block body read.
pub fn shrink_block_at(r: &mut Rng, bytes: &[u8], info: &FrameInfo) -> Option<(Vec<u8>, &'static str)> {
    let mut all = all_shrinks(bytes, info);
    if all.is_empty() {
        return None;
    }
    let k = r.usize(0, all.len() - 1);
    Some(all.swap_remove(k))
}

/// every (compressed block, structural cut point) variant of [shrink_block_at]
pub fn all_shrinks(bytes: &[u8], info: &FrameInfo) -> Vec<(Vec<u8>, &'static str)> {
    let mut out = Vec::new();
    for b in info.blocks.iter().filter(|b| b.btype == 2) {
        shrinks_of_block(bytes, b, &mut out);
    }
    out
}

fn shrinks_of_block(bytes: &[u8], b: &zspec::walker::BlockInfo, out: &mut Vec<(Vec<u8>, &'static str)>) {
    let start = b.offset + 3;
    let mut cuts: Vec<(usize, &'static str)> = Vec::new();
    if let Some(l) = &b.literals {
        cuts.push((l.offset + l.header_len, "block ends behind the literals header"));
        cuts.push((l.offset + 1, "block ends inside the literals header"));
    }
    if let Some(s) = &b.sequences {
        cuts.push((s.offset, "block ends behind the literals"));
        cuts.push((s.offset + 1, "block ends behind the first sequence count byte"));
        if let Some(m) = s.modes_byte_offset {
            cuts.push((m, "block ends in front of the modes byte"));
            cuts.push((m + 1, "block ends behind the modes byte"));
        }
        for (o, l) in s.table_desc_ranges.iter().flatten() {
            cuts.push((*o + 1, "block ends inside a table description"));
            cuts.push((*o + *l, "block ends behind a table description"));
        }
        if s.bitstream_len > 1 {
            cuts.push((s.bitstream_offset + 1, "block ends inside the sequence bitstream"));
            cuts.push((s.bitstream_offset + s.bitstream_len - 1, "block ends one byte early"));
        }
    }
    cuts.retain(|(c, _)| *c > start && *c <= start + b.body_len && *c <= bytes.len());
    cuts.sort();
    cuts.dedup_by_key(|c| c.0);
    for (cut, what) in cuts {
        let new_len = (cut - start) as u32;
        let hdr = (new_len << 3) | (2 << 1) | 1;
        let mut f = bytes[..b.offset].to_vec();
        f.extend_from_slice(&hdr.to_le_bytes()[..3]);
        f.extend_from_slice(&bytes[start..cut]);
        out.push((f, what));
    }
}
