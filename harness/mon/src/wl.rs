//! Workload generators: data shapes and interesting lengths (all seeded)

use crate::common::Rng;

pub const BLOCK: usize = 128 * 1024;

#[derive(Clone, Copy, Debug, PartialEq, Eq)]
pub enum Shape {
    Zeros,
    Random,
    Alphabet(u16),
    Text,
    RepeatsNear,
    RepeatsFar,
    Runs,
    Sparse,
    /// shuffled permutations of 255 symbols: Huffman barely pays off (near break even blocks)
    Perm255,
    /// skewed distribution over many symbols
    Skewed,
    Mixed,
}

pub const SHAPES: &[Shape] = &[
    Shape::Zeros,
    Shape::Random,
    Shape::Alphabet(2),
    Shape::Alphabet(3),
    Shape::Alphabet(16),
    Shape::Alphabet(17),
    Shape::Alphabet(100),
    Shape::Text,
    Shape::RepeatsNear,
    Shape::RepeatsFar,
    Shape::Runs,
    Shape::Sparse,
    Shape::Perm255,
    Shape::Skewed,
    Shape::Mixed,
];

pub fn random_shape(r: &mut Rng) -> Shape {
    *r.pick(SHAPES)
}

pub fn gen(r: &mut Rng, shape: Shape, len: usize) -> Vec<u8> {
    let mut v: Vec<u8> = Vec::with_capacity(len);
    match shape {
        Shape::Zeros => v.resize(len, 0),
        Shape::Random => {
            v.resize(len, 0);
            r.fill(&mut v);
        }
        Shape::Alphabet(k) => {
            let base = r.byte();
            for _ in 0..len {
                v.push(base.wrapping_add(r.below(u64::from(k)) as u8));
            }
        }
        Shape::Text => {
            let words: [&[u8]; 16] = [
                b"the ", b"of ", b"and ", b"compression ", b"window ", b"frame ", b"block ", b"literal ", b"sequence ", b"offset ", b"0123456789 ", b"\n", b"Zstandard ", b"is ", b"a ", b"format, ",
            ];
            while v.len() < len {
                if r.chance(1, 30) {
                    v.push(r.byte());
                } else {
                    v.extend_from_slice(*r.pick(&words));
                }
            }
        }
        Shape::RepeatsNear | Shape::RepeatsFar => {
            let far = shape == Shape::RepeatsFar;
            while v.len() < len {
                if v.len() > 16 && r.chance(2, 3) {
                    let l = r.usize(3, 200).min(v.len());
                    let max_dist = if far { v.len() } else { v.len().min(4000) };
                    let min_dist = if far && v.len() > 70_000 { 65_536 } else { 1 };
                    let dist = r.usize(min_dist.max(1), max_dist.max(min_dist)).max(l);
                    let dist = dist.min(v.len());
                    let start = v.len() - dist;
                    for i in 0..l {
                        let b = v[start + i];
                        v.push(b);
                    }
                } else {
                    for _ in 0..r.usize(1, 60) {
                        v.push(r.byte());
                    }
                }
            }
        }
        Shape::Runs => {
            while v.len() < len {
                let b = r.byte();
                let n = r.size(1, 5000);
                v.extend(std::iter::repeat_n(b, n));
            }
        }
        Shape::Sparse => {
            v.resize(len, 0);
            let n = len / 50 + 1;
            for _ in 0..n {
                if len > 0 {
                    let i = r.usize(0, len - 1);
                    v[i] = r.byte();
                }
            }
        }
        Shape::Perm255 => {
            let mut perm: Vec<u8> = (0..255u8).collect();
            while v.len() < len {
                // Fisher-Yates
                for i in (1..perm.len()).rev() {
                    let j = r.usize(0, i);
                    perm.swap(i, j);
                }
                v.extend_from_slice(&perm);
            }
        }
        Shape::Skewed => {
            for _ in 0..len {
                let a = r.below(256);
                let b = r.below(256);
                let c = r.below(256);
                v.push((a * b * c / 65536) as u8);
            }
        }
        Shape::Mixed => {
            while v.len() < len {
                let sub = *r.pick(&[Shape::Zeros, Shape::Random, Shape::Alphabet(4), Shape::Text, Shape::RepeatsNear, Shape::Runs, Shape::Skewed]);
                let n = r.size(1, 40_000).min(len - v.len());
                let part = gen(r, sub, n);
                v.extend_from_slice(&part);
            }
        }
    }
    v.truncate(len);
    v
}

/// lengths around everything that matters: 0, 1, literal size thresholds, block multiples, multi block
pub fn interesting_len(r: &mut Rng, max: usize) -> usize {
    let n = match r.below(12) {
        0 => *r.pick(&[0usize, 1, 2, 3, 4, 5, 6, 7]),
        1 => r.usize(0, 64),
        2 => *r.pick(&[1023usize, 1024, 1025, 1026]),
        3 => *r.pick(&[16383usize, 16384, 16385]),
        4 => {
            let k = r.usize(1, 4);
            (k * BLOCK).wrapping_add_signed(*r.pick(&[-2isize, -1, 0, 1, 2]))
        }
        5 => r.usize(BLOCK, 3 * BLOCK),
        6 | 7 => r.size(0, max),
        _ => r.size(0, 40_000),
    };
    n.min(max)
}

/// One block in which matches of every distance class 2^4..2^16 occur equally often (about 29 times each) plus one
/// class that occurs once: the offset code histogram is flat and sums to more than 2^8, so the compressor needs the
/// largest offset table it may use. Every match copies bytes that were literals (never bytes of an earlier copy),
/// so that the built-in match finder finds exactly the planned distance.
pub fn flat_offset_classes(r: &mut Rng) -> Vec<u8> {
    let mut d = gen(r, Shape::Random, 70_000);
    let per = r.usize(28, 30);
    let mut plan: Vec<u32> = Vec::new();
    let rare = r.range(4, 15) as u32;
    for c in 4..=15u32 {
        plan.extend(std::iter::repeat_n(c, if c == rare { 1 } else { per }));
    }
    for i in (1..plan.len()).rev() {
        let j = r.usize(0, i);
        plan.swap(i, j);
    }
    let mut copied: Vec<(usize, usize)> = Vec::new();
    for c in plan {
        let nl = r.usize(34, 40);
        let fresh = r.bytes(nl);
        d.extend_from_slice(&fresh);
        let len = r.usize(6, 9);
        for _try in 0..60 {
            let dist = r.usize(1usize << c, (1usize << (c + 1)) - 4);
            if dist > d.len() {
                continue;
            }
            let start = d.len() - dist;
            if start + len > d.len() || copied.iter().any(|(a, b)| start < *b + 5 && start + len + 5 > *a) {
                continue;
            }
            copied.push((d.len(), d.len() + len));
            for i in 0..len {
                let b = d[start + i];
                d.push(b);
            }
            break;
        }
    }
    d.truncate(BLOCK);
    d
}
