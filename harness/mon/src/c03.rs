//! C03 No input can make decoding panic, corrupt memory or hang.
//!
//! Hostile inputs (mutations of valid frames and dictionaries located by the frame walker, hostile
//! synthesised plans, random bytes) are pushed through every decoding entry point with legal call
//! sequences only. Oracles: panic capture, thread CPU budget with a watchdog for hangs, the
//! sanitizer / interpreter the binary was built with (ASan, Miri in the FFI free variant), and the
//! requirement that the same decoder decodes a known-good frame afterwards.

use crate::common::*;
use crate::frames::{self, FrameCase};
use crate::refz;
use serde_json::{json, Value};
use std::sync::atomic::{AtomicU64, Ordering};
use std::sync::{Mutex, OnceLock};
use std::time::{Duration, Instant};

pub use wlcore::hostile::{drive, ENTRY_POINTS, OUTPUT_CAP};

// ------------------------------------------------------------------ mutators

fn mutate_random(r: &mut Rng, f: &mut Vec<u8>) -> &'static str {
    if f.is_empty() {
        f.push(r.byte());
        return "byte appended";
    }
    match r.below(7) {
        0 => {
            for _ in 0..r.usize(1, 4) {
                let i = r.usize(0, f.len() - 1);
                f[i] ^= 1 << r.below(8);
            }
            "bit flips"
        }
        1 => {
            for _ in 0..r.usize(1, 3) {
                let i = r.usize(0, f.len() - 1);
                f[i] = *r.pick(&[0u8, 1, 0x7F, 0x80, 0xFE, 0xFF]);
            }
            "byte sets"
        }
        2 => {
            let cut = r.usize(0, f.len() - 1);
            f.truncate(cut);
            "truncation"
        }
        3 => {
            let i = r.usize(0, f.len() - 1);
            let n = r.usize(1, 8).min(f.len() - i);
            f.drain(i..i + n);
            "bytes removed"
        }
        4 => {
            let i = r.usize(0, f.len());
            let n = r.usize(1, 6);
            let ins = r.bytes(n);
            f.splice(i..i, ins);
            "bytes inserted"
        }
        5 => {
            let i = r.usize(0, f.len() - 1);
            let n = r.usize(1, 16).min(f.len() - i);
            let rnd = r.bytes(n);
            f[i..i + n].copy_from_slice(&rnd);
            "random overwrite"
        }
        _ => {
            let i = r.usize(0, f.len() - 1);
            f[i] = f[i].wrapping_add(*r.pick(&[1u8, 255, 2, 16]));
            "increment"
        }
    }
}

/// edit a field that the frame walker located
fn mutate_directed(r: &mut Rng, f: &mut Vec<u8>, info: &zspec::walker::FrameInfo) -> &'static str {
    let set = |f: &mut Vec<u8>, at: usize, r: &mut Rng| {
        if at < f.len() {
            f[at] = match r.below(5) {
                0 => 0,
                1 => 0xFF,
                2 => f[at].wrapping_add(1),
                3 => f[at].wrapping_sub(1),
                _ => r.byte(),
            };
        }
    };
    if info.blocks.is_empty() {
        return mutate_random(r, f);
    }
    let b = r.pick(&info.blocks).clone();
    match r.below(12) {
        0 => {
            set(f, 4, r);
            "frame descriptor"
        }
        1 => {
            set(f, 5, r);
            "window descriptor / first header field"
        }
        2 => {
            set(f, b.offset + r.usize(0, 2), r);
            "block header"
        }
        3 => {
            // last-block bit
            if b.offset < f.len() {
                f[b.offset] ^= 1;
            }
            "last block bit"
        }
        4 => match &b.literals {
            Some(l) => {
                set(f, l.offset + r.usize(0, l.header_len.saturating_sub(1)), r);
                "literals header"
            }
            None => mutate_random(r, f),
        },
        5 => match b.literals.as_ref().and_then(|l| l.jump_table_offset) {
            Some(j) => {
                set(f, j + r.usize(0, 5), r);
                "jump table"
            }
            None => mutate_random(r, f),
        },
        6 => match &b.literals {
            Some(l) if l.ltype >= 2 => {
                // inside the Huffman description / streams
                set(f, l.offset + l.header_len + r.usize(0, l.comp.saturating_sub(1).min(40)), r);
                "huffman description"
            }
            _ => mutate_random(r, f),
        },
        7 => match &b.sequences {
            Some(s) => {
                set(f, s.offset + r.usize(0, s.header_len.saturating_sub(1)), r);
                "sequence count / modes"
            }
            None => mutate_random(r, f),
        },
        8 => match b.sequences.as_ref().and_then(|s| s.modes_byte_offset) {
            Some(m) => {
                if m < f.len() {
                    f[m] = r.byte();
                }
                "modes byte"
            }
            None => mutate_random(r, f),
        },
        9 => match &b.sequences {
            Some(s) => {
                let ranges: Vec<(usize, usize)> = s.table_desc_ranges.iter().flatten().copied().collect();
                match ranges.first() {
                    Some(_) => {
                        let (o, l) = *r.pick(&ranges);
                        set(f, o + r.usize(0, l.saturating_sub(1)), r);
                        "fse table description"
                    }
                    None => mutate_random(r, f),
                }
            }
            None => mutate_random(r, f),
        },
        10 => match &b.sequences {
            Some(s) if s.bitstream_len > 0 => {
                let at = s.bitstream_offset + if r.chance(1, 2) { s.bitstream_len - 1 } else { r.usize(0, s.bitstream_len - 1) };
                set(f, at, r);
                "sequence bitstream"
            }
            _ => mutate_random(r, f),
        },
        _ => {
            // truncate at / around a structural boundary
            let at = (b.offset as i64 + *r.pick(&[0i64, 1, 2, 3, 4]) + if r.chance(1, 2) { b.body_len as i64 } else { 0 } - r.range(0, 2) as i64).clamp(0, f.len() as i64) as usize;
            f.truncate(at);
            "truncation at a structural boundary"
        }
    }
}

// ------------------------------------------------------------------ watchdog for hangs

struct Slot {
    started: Option<Instant>,
    case: Value,
}

static SLOTS: OnceLock<Vec<Mutex<Slot>>> = OnceLock::new();
static NEXT_SLOT: AtomicU64 = AtomicU64::new(0);
thread_local! {
    static MY_SLOT: usize = (NEXT_SLOT.fetch_add(1, Ordering::Relaxed) as usize) % 64;
}

fn slots() -> &'static Vec<Mutex<Slot>> {
    SLOTS.get_or_init(|| (0..64).map(|_| Mutex::new(Slot { started: None, case: Value::Null })).collect())
}

thread_local! {
    static CURRENT_CASE: std::cell::RefCell<String> = const { std::cell::RefCell::new(String::new()) };
}

/// no case here legitimately needs more than this per thread (windows are limited to 8 MiB / 128 MiB, output to 64 MiB)
const THREAD_ALLOC_CAP: u64 = 1 << 30;

/// called by the allocator on the thread that exceeded its cap: say which case was running, the process exits right after
fn cap_exceeded() {
    let case = CURRENT_CASE.with(|c| c.borrow().clone());
    let dir = format!("{VERIF_DIR}/replay/C03");
    let _ = std::fs::create_dir_all(&dir);
    let path = format!("{dir}/memcap_{:016x}.json", fnv_str(&case));
    let _ = std::fs::write(&path, format!("{{\"property\": \"C03\", \"signature\": {{\"kind\": \"memory_cap_exceeded\"}}, \"replay\": {case}}}"));
    eprintln!("MON-ALLOC-CAP-CASE replay={path}");
}

fn run_one(rec: &Recorder, entry: usize, input: &[u8], aux: &[u8], limit: bool, origin: &str, mutation: &str) {
    rec.eval();
    let replay = json!({"entry_point": entry, "input": if input.len() <= 300_000 { hex(input) } else { format!("(len {})", input.len()) }, "aux": hex(aux), "limit_8mib": limit, "origin": origin, "mutation": mutation});
    let slot = MY_SLOT.with(|s| *s);
    {
        let mut s = slots()[slot].lock().unwrap();
        s.started = Some(Instant::now());
        s.case = replay.clone();
    }
    CURRENT_CASE.with(|c| *c.borrow_mut() = replay.to_string());
    crate::calloc::set_cap(THREAD_ALLOC_CAP);
    let t0 = thread_cpu_s();
    let res = catch(|| crate::calloc::scoped(|| drive(entry, input, aux, limit)));
    let cpu = thread_cpu_s() - t0;
    crate::calloc::set_cap(0);
    slots()[slot].lock().unwrap().started = None;
    let name = ENTRY_POINTS[entry];
    match res {
        Err(p) => rec.panic_violation(&p, &format!("{name}: {mutation}"), json!({"entry_point": name, "origin": origin, "mutation": mutation, "input_len": input.len()}), replay),
        Ok(outcome) => {
            if outcome.starts_with("REUSE-FAILED") {
                rec.violation(Sig::new("decoder_unusable_after_error", name, &outcome.chars().take(80).collect::<String>()), json!({"outcome": outcome, "origin": origin, "mutation": mutation}), replay);
                return;
            }
            // work is proportional to input + output; an order of magnitude above that is reported after being reproduced
            let kib = (input.len() + OUTPUT_CAP.min(1 << 26)) / 1024;
            let budget = 2.0 + 0.05 * kib as f64 * if rec.args.build.starts_with("asan") { 4.0 } else { 1.0 };
            if cpu > budget {
                let t1 = thread_cpu_s();
                let _ = catch(|| drive(entry, input, aux, limit));
                let cpu2 = thread_cpu_s() - t1;
                if cpu2 > budget {
                    rec.violation(Sig::new("cpu_budget", name, mutation), json!({"cpu_s": [cpu, cpu2], "budget_s": budget, "origin": origin}), replay);
                } else {
                    rec.count("slow_cases_not_reproduced", 1);
                }
                return;
            }
            let stage = outcome.split(':').next().unwrap_or("").to_string();
            rec.distinct(fnv_str(&format!("{name}|{outcome}")));
            rec.count(&format!("outcome_{stage}"), 1);
        }
    }
}

/// child mode: run one recorded case alone (used to confirm a hang)
pub fn run_case_file(args: &Args) -> i32 {
    let Some(path) = args.extra.get("file") else { return 2 };
    let doc: Value = std::fs::read_to_string(path).ok().and_then(|t| serde_json::from_str(&t).ok()).unwrap_or(Value::Null);
    let rp = if doc["replay"].is_object() { &doc["replay"] } else { &doc };
    let input = unhex(rp["input"].as_str().unwrap_or(""));
    let aux = unhex(rp["aux"].as_str().unwrap_or(""));
    let entry = rp["entry_point"].as_u64().unwrap_or(0) as usize;
    let res = catch(|| drive(entry, &input, &aux, rp["limit_8mib"].as_bool().unwrap_or(true)));
    match res {
        Ok(o) => {
            println!("C03CASE outcome {o}");
            0
        }
        Err(p) => {
            println!("C03CASE panic {}", p.what);
            1
        }
    }
}

/// Sequences whose three codes are the largest ones (literal length codes 34/35, match length code 52, offset codes
/// 26..=31: up to 63 extra bits per sequence), in RLE, predefined and FSE table modes and at every bit alignment
/// (1..=9 such sequences in a row). The offsets reach far beyond any output, so every one of these frames must end in
/// an error - after the bit reader has served the widest reads the format allows.
fn max_code_plans() -> Vec<(String, Vec<u8>)> {
    use zspec::frame::HeaderSpec;
    use zspec::synth::{BlockPlan, CompressedPlan, CountForm, FramePlan, LitPlan, OffsetPlan, SeqPlan, TableMode};
    let mut out = Vec::new();
    for of_code in 24u32..=31 {
        for (mi, modes) in [(TableMode::Rle, TableMode::Rle, TableMode::Rle), (TableMode::Predefined, TableMode::Predefined, TableMode::Predefined), (TableMode::Fse { acc_log: None, norm: None }, TableMode::Fse { acc_log: None, norm: None }, TableMode::Fse { acc_log: None, norm: None }), (TableMode::Predefined, TableMode::Rle, TableMode::Predefined)].into_iter().enumerate() {
            // the predefined offset table ends at code 28
            if matches!(modes.1, TableMode::Predefined) && of_code > 28 {
                continue;
            }
            for nseq in 1usize..=9 {
                for ll in [40_000u32, 70_000] {
                    let distance = (((1u64 << of_code) + 12_345 * nseq as u64).min(0xFFFF_FFF0) - 3) as u32;
                    let seqs: Vec<SeqPlan> = (0..nseq).map(|_| SeqPlan { ll, ml: 70_000, offset: OffsetPlan::Raw(distance) }).collect();
                    let plan = FramePlan {
                        header: HeaderSpec { window_descriptor: Some(0x80), ..Default::default() },
                        blocks: vec![
                            BlockPlan::Raw(b"0123456789".to_vec()),
                            BlockPlan::Compressed(CompressedPlan { literals: vec![b'x'; 7], lit: LitPlan::Rle { size_format: None }, seqs, ll_mode: modes.0.clone(), of_mode: modes.1.clone(), ml_mode: modes.2.clone(), seq_count_form: CountForm::Auto }),
                        ],
                        dict: None,
                        checksum_override: None,
                    };
                    // the synthesiser may refuse a plan it cannot express: skip those
                    if let Ok(s) = std::panic::catch_unwind(|| zspec::synth::synthesise(&plan)) {
                        out.push((format!("max codes: of code {of_code}, ll {ll}, {nseq} sequences, table modes #{mi}"), s.bytes));
                    }
                }
            }
        }
    }
    out
}

pub fn run(args: &Args) -> i32 {
    let rec = Recorder::new("C03", "exploration", args);
    rec.set_rule("one evaluation = one hostile input driven through one decoding entry point with a legal call sequence (drain, query and reset after an error; abandon after 64 MiB of output) followed by a known-good frame on the same decoder; distinct_nontrivial = distinct (entry point, outcome class incl. error variant) pairs reached");
    rec.assume("oracles: panic capture, CPU budget 2 s + 50 ms per KiB of input and output (x4 under ASan, reproduced before being reported), watchdog for cases that never return, and the sanitizer this binary was built with; most cases run with set_max_window_size(8 MiB), a fixed share with the default limit");
    if let Err(e) = frames::self_test(args.seed) {
        rec.inconclusive(&e);
        return rec.finish();
    }

    if let Some(path) = &args.replay {
        let doc: Value = std::fs::read_to_string(path).ok().and_then(|t| serde_json::from_str(&t).ok()).unwrap_or(Value::Null);
        let rp = &doc["replay"];
        match rp["input"].as_str().filter(|s| !s.starts_with('(')) {
            Some(h) => {
                run_one(&rec, rp["entry_point"].as_u64().unwrap_or(0) as usize, &unhex(h), &unhex(rp["aux"].as_str().unwrap_or("")), rp["limit_8mib"].as_bool().unwrap_or(true), "replay", rp["mutation"].as_str().unwrap_or("replay"));
                rec.distinct(1);
                rec.distinct(2);
            }
            None => rec.inconclusive("replay file has no inline input"),
        }
        return rec.finish();
    }

    crate::calloc::set_cap_hook(cap_exceeded);
    // watchdog: a case that does not return within its wall limit is re-run alone in a child with four times the limit
    let wall_limit = Duration::from_secs(if args.build.starts_with("asan") { 240 } else { 90 });
    let exe = std::env::current_exe().unwrap();
    let prop_args = args.clone();
    std::thread::spawn(move || loop {
        std::thread::sleep(Duration::from_secs(5));
        for s in slots() {
            let (stuck, case) = {
                let g = s.lock().unwrap();
                (g.started.map(|t| t.elapsed() > wall_limit).unwrap_or(false), g.case.clone())
            };
            if stuck {
                let dir = format!("{VERIF_DIR}/replay/C03");
                let _ = std::fs::create_dir_all(&dir);
                let path = format!("{dir}/hang_{:016x}.json", fnv_str(&case.to_string()));
                let _ = std::fs::write(&path, serde_json::to_string(&json!({"property": "C03", "signature": {"kind": "hang"}, "replay": case})).unwrap());
                // confirm alone
                let mut child = std::process::Command::new(&exe).args(["c03case", "--file", &path, "--threads", "1"]).stdout(std::process::Stdio::null()).spawn().ok();
                let t0 = Instant::now();
                let mut confirmed = true;
                while t0.elapsed() < wall_limit * 4 {
                    if let Some(c) = child.as_mut() {
                        if let Ok(Some(_)) = c.try_wait() {
                            confirmed = false;
                            break;
                        }
                    }
                    std::thread::sleep(Duration::from_millis(200));
                }
                if let Some(c) = child.as_mut() {
                    let _ = c.kill();
                }
                if confirmed {
                    println!("VIOLATION property=C03 replay={path}");
                    println!("  kind=hang: the case did not return within {:?} and again not within {:?} when run alone (tier {} seed {})", wall_limit, wall_limit * 4, prop_args.tier, prop_args.seed);
                    std::process::exit(1);
                } else {
                    println!("INCONCLUSIVE property=C03 reason=a case exceeded the wall limit once but finished when re-run alone ({path})");
                    std::process::exit(2);
                }
            }
        }
    });

    // seeds
    let mut seeds: Vec<FrameCase> = Vec::new();
    for c in frames::synth_matrix().iter() {
        if c.bytes.len() <= 70_000 && c.expected.len() <= 2_000_000 {
            seeds.push(c.clone());
        }
    }
    for c in frames::corpus().iter() {
        if c.bytes.len() <= 70_000 {
            seeds.push(c.clone());
        }
    }
    let mut r0 = Rng::for_case(args.seed, 3, 0);
    for _ in 0..args.vol(150, 1500) {
        seeds.push(frames::libzstd_frame(&mut r0, 60_000));
    }
    for _ in 0..args.vol(60, 600) {
        if let Some(c) = frames::synth_random(&mut r0, 60_000) {
            seeds.push(c);
        }
        seeds.push(frames::seq_frame(&mut r0));
    }
    let mut hostile: Vec<(String, Vec<u8>)> = zspec::synth::hostile_matrix().into_iter().map(|(n, p)| (n, zspec::synth::synthesise(&p).bytes)).filter(|(_, b)| b.len() <= 200_000).collect();
    hostile.extend(max_code_plans());
    let infos: Vec<Option<zspec::walker::FrameInfo>> = seeds.iter().map(|c| frames::walk(&c.bytes, c.dict.as_deref()).ok()).collect();
    // dictionaries: the repository's, a trained one, a model one
    let mut dict_raws: Vec<Vec<u8>> = Vec::new();
    if let Ok(raw) = std::fs::read("/repo/ruzstd/dict_tests/dictionary") {
        dict_raws.push(raw);
    }
    {
        let samples: Vec<Vec<u8>> = (0..300).map(|i| format!("{{\"k\": {i}, \"name\": \"item{}\", \"ok\": true}}\n", i * 7 % 50).into_bytes()).collect();
        if let Ok(d) = refz::train_dict(&samples, 2048) {
            dict_raws.push(d);
        }
        let mut z = zspec::rng::Rng::new(args.seed ^ 3);
        dict_raws.push(zspec::dict::write_dict(&zspec::synth::make_dict(&mut z, 5, 300)));
    }
    let dict_frames: Vec<Vec<u8>> = dict_raws.iter().map(|d| refz::compress(b"{\"k\": 12, \"name\": \"item12\", \"ok\": true}\n{\"k\": 13, \"name\": \"item13\", \"ok\": true}\n", 3, &[], Some(d)).unwrap_or_default()).collect();
    rec.count("seed_frames", seeds.len() as u64);
    rec.count("hostile_plans", hostile.len() as u64);

    // directed: every hostile plan and every seed unmodified through every frame entry point
    use rayon::prelude::*;
    hostile.par_iter().for_each(|(name, bytes)| {
        for e in 0..9 {
            run_one(&rec, e, bytes, &[3], e % 2 == 0, &format!("hostile plan {name}"), "none");
        }
        rec.absorb_feats();
    });

    let n = args.vol(150_000, 10_000_000);
    par_cases(&rec, 3, n, |i, r| {
        let limit = i % 5 != 0;
        match r.below(20) {
            0 => {
                // pure random bytes, sometimes behind a valid magic
                let n = r.size(0, 300);
                let mut b = r.bytes(n);
                if r.chance(1, 2) && b.len() >= 4 {
                    b[..4].copy_from_slice(&[0x28, 0xB5, 0x2F, 0xFD]);
                }
                run_one(&rec, r.usize(0, 8), &b, &[r.byte()], limit, "random bytes", "none");
            }
            1 | 2 => {
                // hostile dictionaries
                let k = r.usize(0, dict_raws.len() - 1);
                let mut d = dict_raws[k].clone();
                let what = match r.below(4) {
                    0 => {
                        // repeat offsets: zero / huge
                        if let Ok(m) = zspec::dict::parse_dict(&d) {
                            let content_at = d.len() - m.content.len();
                            if content_at >= 12 {
                                let which = r.usize(0, 2);
                                let v: u32 = *r.pick(&[0u32, 1, u32::MAX, 0x8000_0000, m.content.len() as u32 + 1]);
                                d[content_at - 12 + 4 * which..content_at - 8 + 4 * which].copy_from_slice(&v.to_le_bytes());
                            }
                        }
                        "dictionary repeat offsets"
                    }
                    1 => {
                        let cut = r.usize(0, d.len());
                        d.truncate(cut);
                        "dictionary truncated"
                    }
                    _ => mutate_random(r, &mut d),
                };
                if r.chance(1, 3) {
                    run_one(&rec, 10, &d, &[], limit, "dictionary", what);
                } else {
                    run_one(&rec, 9, &dict_frames[k], &d, limit, "dictionary frame with a hostile dictionary", what);
                }
            }
            3 => {
                // splice two frames
                let a = r.pick(&seeds);
                let b = r.pick(&seeds);
                let ca = r.usize(0, a.bytes.len());
                let cb = r.usize(0, b.bytes.len());
                let mut f = a.bytes[..ca].to_vec();
                f.extend_from_slice(&b.bytes[cb..]);
                run_one(&rec, r.usize(0, 8), &f, &[r.byte()], limit, "splice of two frames", "splice");
            }
            4 => {
                let (name, bytes) = r.pick(&hostile);
                let mut f = bytes.clone();
                let what = if r.chance(1, 2) { mutate_random(r, &mut f) } else { "none" };
                run_one(&rec, r.usize(0, 8), &f, &[r.byte()], limit, &format!("hostile plan {name}"), what);
            }
            _ => {
                let k = r.usize(0, seeds.len() - 1);
                let mut f = seeds[k].bytes.clone();
                let mut what = match &infos[k] {
                    Some(info) if r.chance(1, 6) => match frames::shrink_block_at(r, &f, info) {
                        Some((g, what)) => {
                            f = g;
                            what
                        }
                        None => mutate_directed(r, &mut f, info),
                    },
                    Some(info) if r.chance(2, 3) => mutate_directed(r, &mut f, info),
                    _ => mutate_random(r, &mut f),
                };
                if r.chance(1, 4) {
                    what = mutate_random(r, &mut f);
                }
                let origin = seeds[k].origin.split(':').next().unwrap_or("?").to_string();
                run_one(&rec, r.usize(0, 8), &f, &[r.byte()], limit, &origin, what);
                if i < 4 {
                    rec.sample(json!({"origin": seeds[k].origin, "mutation": what, "input_head": hex(&f[..f.len().min(32)]), "input_len": f.len()}));
                }
            }
        }
    });
    rec.set_extra("exhaustive", json!(false));
    rec.set_extra("entry_points", json!(ENTRY_POINTS));
    rec.finish()
}
