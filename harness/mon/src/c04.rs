//! C04 The unsafe output window behaves as a byte queue and never leaves its allocation.
//!
//! Drives `wlcore::ring` (the online checkers) with (a) an exhaustive small scope enumeration of
//! every (cap, head, tail) state of three small capacities x every operation x every operand,
//! (b) random long histories with growth, (c) random `DecodeBuffer` histories. Native builds run
//! with the poisoning / guard byte allocator; the same workload runs under ASan and (smaller) Miri.

use crate::calloc;
use crate::common::*;
use rayon::prelude::*;
use serde_json::{json, Value};
use std::collections::HashSet;
use std::sync::Mutex;
use wlcore::ring::*;

struct Probe;
impl AllocProbe for Probe {
    fn block_size(&self, ptr: usize) -> Option<usize> {
        if calloc::ENABLED {
            unsafe { calloc::block_size(ptr) }
        } else {
            None
        }
    }
    fn guards_intact(&self, ptr: usize) -> bool {
        if calloc::ENABLED {
            unsafe { calloc::guards_intact(ptr) }
        } else {
            true
        }
    }
}

fn op_json(op: &Op) -> Value {
    match op {
        Op::Clear => json!({"op": "clear"}),
        Op::Reserve(n) => json!({"op": "reserve", "n": n}),
        Op::Extend(n) => json!({"op": "extend", "n": n}),
        Op::Fill(n) => json!({"op": "fill", "n": n}),
        Op::FromReader { n, chunk, avail } => json!({"op": "from_reader", "n": n, "chunk": chunk, "avail": avail}),
        Op::Within { start, len } => json!({"op": "within", "start": start, "len": len}),
        Op::Repeat { offset, total } => json!({"op": "repeat", "offset": offset, "total": total}),
        Op::DropFirst(n) => json!({"op": "drop_first", "n": n}),
    }
}

fn op_from_json(v: &Value) -> Option<Op> {
    let g = |k: &str| v.get(k).and_then(|x| x.as_u64()).map(|x| x as usize);
    Some(match v.get("op")?.as_str()? {
        "clear" => Op::Clear,
        "reserve" => Op::Reserve(g("n")?),
        "extend" => Op::Extend(g("n")?),
        "fill" => Op::Fill(g("n")?),
        "from_reader" => Op::FromReader { n: g("n")?, chunk: g("chunk")?, avail: g("avail")? },
        "within" => Op::Within { start: g("start")?, len: g("len")? },
        "repeat" => Op::Repeat { offset: g("offset")?, total: g("total")? },
        "drop_first" => Op::DropFirst(g("n")?),
        _ => return None,
    })
}

fn op_kind(op: &Op) -> &'static str {
    match op {
        Op::Clear => "clear",
        Op::Reserve(_) => "reserve",
        Op::Extend(_) => "extend",
        Op::Fill(_) => "extend_and_fill",
        Op::FromReader { .. } => "extend_from_reader",
        Op::Within { .. } => "extend_from_within",
        Op::Repeat { .. } => "repeat_in_chunks",
        Op::DropFirst(_) => "drop_first_n",
    }
}

/// strip the numbers so that one defect gives one signature
fn class_of(msg: &str) -> String {
    let mut out = String::new();
    let mut last_digit = false;
    for ch in msg.chars() {
        if ch.is_ascii_digit() {
            if !last_digit {
                out.push('#');
            }
            last_digit = true;
        } else {
            last_digit = false;
            out.push(ch);
        }
    }
    out.chars().take(90).collect()
}

fn in_lib<T>(f: impl FnOnce() -> T) -> T {
    calloc::guard(true);
    let r = calloc::scoped(f);
    calloc::guard(false);
    r
}

fn report(rec: &Recorder, layer: &str, kind_of_op: &str, msg: &str, replay: Value) {
    let kind = if msg.starts_with("panic") { "panic" } else { "model_mismatch" };
    rec.violation(
        Sig::new(kind, &format!("{layer}:{kind_of_op}"), &class_of(msg)),
        json!({"what": msg}),
        replay,
    );
}

/// all operations (with all operand values) tried from a state with `len` bytes buffered in a buffer of capacity `cap`
fn ops_for_state(cap: usize, len: usize) -> Vec<Op> {
    let free = cap - 1 - len;
    let mut ops = vec![Op::Clear];
    let mut sizes: Vec<usize> = (0..=free).collect();
    // growth: not enough room
    sizes.extend([free + 1, free + 2, free + 16, free + 17, free + cap, 2 * cap + 3]);
    for &n in &sizes {
        ops.push(Op::Reserve(n));
        ops.push(Op::Extend(n));
        ops.push(Op::Fill(n));
        ops.push(Op::FromReader { n, chunk: 1 << 20, avail: n });
    }
    for &n in sizes.iter().filter(|n| **n % 5 == 0 || **n == free) {
        ops.push(Op::FromReader { n, chunk: 1, avail: n });
        ops.push(Op::FromReader { n, chunk: 16, avail: n });
        if n > 1 {
            ops.push(Op::FromReader { n, chunk: 7, avail: n / 2 });
        }
    }
    for l in 1..=len {
        for start in 0..=(len - l) {
            ops.push(Op::Within { start, len: l });
        }
    }
    for offset in 1..=len.min(34) {
        let mut totals = vec![offset + 1, 2 * offset, 2 * offset + 1, offset + 15, offset + 16, offset + 17, 3 * offset + 2, free, free + 1, free + 20];
        totals.sort();
        totals.dedup();
        for total in totals {
            if total > offset {
                ops.push(Op::Repeat { offset, total });
            }
        }
    }
    for n in 1..=len {
        ops.push(Op::DropFirst(n));
    }
    ops
}

pub fn run(args: &Args) -> i32 {
    let rec = Recorder::new("C04", "exploration", args);
    rec.set_rule("one evaluation = one operation applied to the real RingBuffer / DecodeBuffer and to the byte queue model with all checks run afterwards; distinct_nontrivial = distinct (capacity, head, tail) states of the real ring buffer observed after an operation");
    rec.assume("operations respect the preconditions the decoder guarantees (reserve before extend_from_within_unchecked, start+len <= len(), 1 <= n <= len for drop_first_n, no copy on an unallocated buffer)");
    if let Err(e) = wlcore::xxh::self_test() {
        rec.inconclusive(&format!("harness self test failed: xxh64 {e}"));
        return rec.finish();
    }

    if let Some(path) = &args.replay {
        return replay(&rec, path);
    }

    let states: Mutex<HashSet<u64>> = Mutex::new(HashSet::new());
    let note_state = |local: &mut HashSet<u64>, st: (usize, usize, usize, usize)| {
        local.insert(((st.1 as u64) << 42) ^ ((st.2 as u64) << 21) ^ st.3 as u64);
    };

    // ---------------- (a) exhaustive small scope
    let caps: &[usize] = if args.build.starts_with("miri") { &[17] } else { &[17, 33, 65] };
    let scale = args.extra_u64("scale", 100);
    let mut exhaustive = scale >= 100;
    let mut transitions = 0u64;
    for &cap in caps {
        let per_head: Vec<(u64, HashSet<u64>)> = (0..cap)
            .into_par_iter()
            .map(|head| {
                let mut local = HashSet::new();
                let mut n = 0u64;
                for tail in 0..cap {
                    // with scale < 100 only a sample of the states is tried (slow builds)
                    if scale < 100 && ((head * 131 + tail * 17) as u64 % 100) >= scale {
                        continue;
                    }
                    let len = (tail + cap - head) % cap;
                    for op in ops_for_state(cap, len) {
                        n += 1;
                        let res = catch(|| {
                            in_lib(|| {
                                let mut m = RingMon::construct(Probe, cap, head, tail)?;
                                if !m.legal(&op) {
                                    return Err(format!("harness error: illegal op {op:?} generated"));
                                }
                                let r = m.apply(&op);
                                Ok::<_, String>((r, m.ring.state()))
                            })
                        });
                        let replay = json!({"layer": "ring", "construct": [cap, head, tail], "ops": [op_json(&op)]});
                        match res {
                            Ok(Ok((Ok(()), st))) => note_state(&mut local, st),
                            Ok(Ok((Err(msg), _))) => report(&rec, "ring", op_kind(&op), &msg, replay),
                            Ok(Err(msg)) => rec.inconclusive(&msg),
                            Err(p) => report(&rec, "ring", op_kind(&op), &format!("panic {}", p.what), replay),
                        }
                    }
                }
                rec.absorb_feats();
                (n, local)
            })
            .collect();
        for (n, local) in per_head {
            transitions += n;
            states.lock().unwrap().extend(local);
        }
    }
    if caps.len() < 3 {
        exhaustive = false;
    }
    rec.evals(transitions);
    rec.count("small_scope_transitions", transitions);

    // ---------------- (b) random histories with growth
    let histories = args.vol(3000, 200_000);
    let steps = 400u64;
    par_cases(&rec, 41, histories, |i, r| {
        let max_len = *r.pick(&[40usize, 200, 200, 5000, 70_000]);
        let res = catch(|| {
            in_lib(|| {
                let mut m = RingMon::new(Probe);
                let mut local = HashSet::new();
                let mut ops = Vec::new();
                for _ in 0..steps {
                    let op = m.random_op(r, max_len);
                    ops.push(op.clone());
                    if let Err(msg) = m.apply(&op) {
                        return Err((msg, ops));
                    }
                    let st = m.ring.state();
                    local.insert(((st.1 as u64) << 42) ^ ((st.2 as u64) << 21) ^ st.3 as u64);
                }
                Ok((local, m.ops))
            })
        });
        match res {
            Ok(Ok((local, n))) => {
                rec.evals(n);
                states.lock().unwrap().extend(local);
            }
            Ok(Err((msg, ops))) => {
                let last = ops.last().map(op_kind).unwrap_or("?");
                report(&rec, "ring", last, &msg, json!({"layer": "ring", "history": i, "ops": ops.iter().map(op_json).collect::<Vec<_>>()}));
            }
            Err(p) => report(&rec, "ring", "random_history", &format!("panic {}", p.what), json!({"layer": "ring", "history": i, "seed": args.seed, "stream": 41})),
        }
    });
    rec.count("random_histories", histories);

    // ---------------- (c) DecodeBuffer histories
    let histories = args.vol(2000, 150_000);
    let kinds: Mutex<std::collections::BTreeMap<&'static str, u64>> = Mutex::new(Default::default());
    par_cases(&rec, 42, histories, |i, r| {
        let window = *r.pick(&[1usize, 8, 64, 300, 1024, 4096]);
        let dict: Vec<u8> = if r.chance(1, 2) { (0..r.usize(1, 400)).map(|x| (x % 190) as u8).collect() } else { Vec::new() };
        let res = catch(|| {
            in_lib(|| {
                let mut m = DecBufMon::new(window, &dict);
                let mut local = HashSet::new();
                let mut trace: Vec<&'static str> = Vec::new();
                let mut k: std::collections::BTreeMap<&'static str, u64> = Default::default();
                for _ in 0..300 {
                    match m.step(r) {
                        Ok(what) => {
                            trace.push(what);
                            *k.entry(what).or_insert(0) += 1;
                        }
                        Err(msg) => return Err((msg, trace)),
                    }
                    let st = m.buf.ring_state();
                    local.insert(((st.1 as u64) << 42) ^ ((st.2 as u64) << 21) ^ st.3 as u64);
                }
                Ok((local, m.ops, k))
            })
        });
        match res {
            Ok(Ok((local, n, k))) => {
                rec.evals(n);
                states.lock().unwrap().extend(local);
                let mut kk = kinds.lock().unwrap();
                for (a, b) in k {
                    *kk.entry(a).or_insert(0) += b;
                }
            }
            Ok(Err((msg, trace))) => {
                let last = trace.last().copied().unwrap_or("?");
                report(&rec, "decode_buffer", last, &msg, json!({"layer": "decode_buffer", "history": i, "seed": args.seed, "stream": 42, "steps_before": trace.len()}));
            }
            Err(p) => report(&rec, "decode_buffer", "random_history", &format!("panic {}", p.what), json!({"layer": "decode_buffer", "history": i, "seed": args.seed, "stream": 42})),
        }
    });
    rec.set_extra("decode_buffer_steps_by_kind", json!(*kinds.lock().unwrap()));

    // ---------------- coverage floor: every branch of the copy code was executed
    let st = states.lock().unwrap();
    for h in st.iter() {
        rec.distinct(*h);
    }
    rec.set_extra("states", json!(st.len()));
    rec.set_extra("transitions", json!(transitions));
    rec.set_extra("exhaustive", json!(false));
    rec.set_extra("small_scope_exhaustive", json!(exhaustive));
    rec.set_extra("small_scope_capacities", json!(caps));
    rec.set_extra("poisoning_allocator", json!(calloc::ENABLED));
    for f in [
        "ring_grow",
        "ring_efw_contig_src",
        "ring_efw_contig_src_split_dst",
        "ring_efw_wrapped_src_second",
        "ring_efw_wrapped_src_first",
        "ring_efw_wrapped_src_both",
        "ring_copy_single",
        "ring_copy_multi",
        "ring_copy_memcpy",
        "buf_repeat_plain",
        "buf_repeat_chunked",
        "buf_repeat_dict_inside",
        "buf_repeat_dict_straddle",
        "buf_repeat_dict_missing",
        "buf_drain_two_slices",
        "buf_drain_partial",
    ] {
        if rec.feat(f) == 0 {
            rec.inconclusive(&format!("coverage floor: code path {f} was never executed"));
        }
    }
    rec.sample(json!({"layer": "ring", "construct": [65, 60, 3], "op": op_json(&Op::Within { start: 2, len: 5 })}));
    rec.sample(json!({"layer": "ring", "construct": [17, 9, 8], "op": op_json(&Op::Extend(1))}));
    rec.sample(json!({"layer": "decode_buffer", "window": 64, "dict_len": 120, "steps": ["push", "repeat_dict", "drain_writer", "read", "reset"]}));
    rec.finish()
}

fn replay(rec: &Recorder, path: &str) -> i32 {
    let Ok(text) = std::fs::read_to_string(path) else {
        rec.inconclusive("cannot read replay file");
        return rec.finish();
    };
    let doc: Value = serde_json::from_str(&text).unwrap_or(Value::Null);
    let rp = &doc["replay"];
    if rp["layer"] == "ring" && rp["ops"].is_array() {
        let ops: Vec<Op> = rp["ops"].as_array().unwrap().iter().filter_map(op_from_json).collect();
        let res = catch(|| {
            in_lib(|| {
                let mut m = if let Some(c) = rp["construct"].as_array() {
                    let g = |i: usize| c[i].as_u64().unwrap_or(0) as usize;
                    RingMon::construct(Probe, g(0), g(1), g(2))?
                } else {
                    RingMon::new(Probe)
                };
                for op in &ops {
                    m.apply(op)?;
                }
                Ok::<(), String>(())
            })
        });
        rec.evals(ops.len() as u64);
        rec.distinct(1);
        rec.distinct(2);
        let last = ops.last().map(op_kind).unwrap_or("?");
        match res {
            Ok(Ok(())) => {}
            Ok(Err(msg)) => report(rec, "ring", last, &msg, rp.clone()),
            Err(p) => report(rec, "ring", last, &format!("panic {}", p.what), rp.clone()),
        }
    } else {
        // random histories are reproduced by running the whole check with the recorded seed
        rec.inconclusive("this replay file records a random history: re-run the check with the recorded seed");
    }
    rec.finish()
}
