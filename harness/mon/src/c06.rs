//! C06 Decoded stream is independent of how the caller drives the decoder, and the decoder half
//! of C08 (checksum over exactly the delivered bytes) which rides on the same schedules.
//!
//! A *driver program* is a random or boundary directed sequence of decode and drain calls with
//! all budgets, buffer sizes, source fragmentations and sink behaviours. The monitor records the
//! *tape* (every byte handed to the caller, in order) at the API boundary and checks after every
//! step: tape is a prefix of the true content, nothing is lost or duplicated (conservation with the
//! hooked buffer length), consumed counts never exceed what was offered; at the end: tape == content,
//! consumed == frame length, checksums.

use crate::common::*;
use crate::frames::{self, FrameCase};
use crate::refz;
use ruzstd::decoding::{BlockDecodingStrategy, FrameDecoder, StreamingDecoder};
use serde_json::{json, Value};
use std::io::{Read, Write};

/// source with trailing garbage that counts what was pulled and fragments its reads
struct CountingSrc<'a> {
    data: &'a [u8],
    pos: usize,
    pattern: Vec<usize>,
    calls: usize,
}

impl Read for CountingSrc<'_> {
    fn read(&mut self, buf: &mut [u8]) -> std::io::Result<usize> {
        let want = self.pattern[self.calls % self.pattern.len()].max(1);
        self.calls += 1;
        let n = buf.len().min(want).min(self.data.len() - self.pos);
        buf[..n].copy_from_slice(&self.data[self.pos..self.pos + n]);
        self.pos += n;
        Ok(n)
    }
}

/// sink behaviours react to cumulative bytes, never to the number of calls
#[derive(Clone, Debug)]
enum SinkKind {
    Full,
    Short(usize),
    /// returns Ok(0) once when this many bytes have been accepted in total, and (period > 0) again every `period` bytes after that
    ZeroAt(usize, usize),
    /// fails with WouldBlock once when this many bytes have been accepted in total, and (period > 0) again every `period` bytes after that
    FailAt(usize, usize),
}

struct Sink {
    kind: SinkKind,
    got: Vec<u8>,
    tripped: bool,
    injected: u64,
    /// cumulative byte count of the next fault
    next_trip: usize,
}

impl Sink {
    fn new(kind: SinkKind) -> Sink {
        let next_trip = match kind {
            SinkKind::ZeroAt(t, _) | SinkKind::FailAt(t, _) => t,
            _ => usize::MAX,
        };
        Sink { kind, got: Vec::new(), tripped: false, injected: 0, next_trip }
    }
    fn random(r: &mut Rng, content_len: usize, faulty: bool) -> Sink {
        let at = r.usize(0, content_len.max(1));
        let period = match r.below(4) {
            0 => 0,
            1 => r.usize(1, 40),
            2 => r.usize(1, 3000),
            _ => r.size(1, 70_000),
        };
        Sink::new(match r.below(if faulty { 4 } else { 6 }) {
            0 | 1 => SinkKind::ZeroAt(if period > 0 { at % period } else { at }, period),
            2 | 3 => SinkKind::FailAt(if period > 0 { at % period } else { at }, period),
            4 => SinkKind::Full,
            _ => SinkKind::Short(r.usize(1, 300)),
        })
    }
}

impl Write for Sink {
    fn write(&mut self, buf: &[u8]) -> std::io::Result<usize> {
        match self.kind {
            SinkKind::Full => {
                self.got.extend_from_slice(buf);
                Ok(buf.len())
            }
            SinkKind::Short(k) => {
                let n = buf.len().min(k.max(1));
                self.got.extend_from_slice(&buf[..n]);
                Ok(n)
            }
            SinkKind::ZeroAt(_, period) | SinkKind::FailAt(_, period) => {
                if !self.tripped && self.got.len() >= self.next_trip {
                    self.injected += 1;
                    if period == 0 {
                        self.tripped = true;
                    } else {
                        // the next call is accepted (a fault is transient), the next fault comes `period` bytes later
                        self.next_trip = self.got.len() + period;
                    }
                    return if matches!(self.kind, SinkKind::ZeroAt(..)) { Ok(0) } else { Err(std::io::Error::from(std::io::ErrorKind::WouldBlock)) };
                }
                // accept up to the threshold, so that the trip happens exactly there
                let room = if self.tripped { buf.len() } else { (self.next_trip - self.got.len()).max(1).min(buf.len()) };
                self.got.extend_from_slice(&buf[..room]);
                Ok(room)
            }
        }
    }
    fn flush(&mut self) -> std::io::Result<()> {
        Ok(())
    }
}

struct Outcome {
    tape: Vec<u8>,
    ops: Vec<String>,
    stats: Vec<(&'static str, u64)>,
    /// (calculated, stored) once everything has been taken
    checksums: Option<(Option<u32>, Option<u32>)>,
    consumed_reported: u64,
    pulled: Option<usize>,
    finished: bool,
}

struct Fail {
    kind: &'static str,
    msg: String,
    ops: Vec<String>,
}

fn check_step(d: &FrameDecoder, tape: &[u8], expected: &[u8], last_total: &mut usize, ops: &[String]) -> Result<(), Fail> {
    if tape.len() > expected.len() || tape != &expected[..tape.len()] {
        let pos = tape.iter().zip(expected.iter()).position(|(a, b)| a != b).unwrap_or(expected.len());
        return Err(Fail { kind: "tape_differs", msg: format!("the bytes handed out differ from the content at {pos} (tape {} bytes, content {})", tape.len(), expected.len()), ops: ops.to_vec() });
    }
    // conservation: handed out + held never shrinks and never exceeds the content
    let total = tape.len() + d.verif_buffer_len();
    if total < *last_total || total > expected.len() {
        return Err(Fail { kind: "conservation", msg: format!("handed out {} + held {} = {total}, before this step {}, content {}", tape.len(), d.verif_buffer_len(), *last_total, expected.len()), ops: ops.to_vec() });
    }
    *last_total = total;
    Ok(())
}

/// mode 1: FrameDecoder with decode_blocks and every drain call
/// A fresh decoder or (one case in three) one that has been used before: the statement quantifies over how the caller
/// drives the decoder, and a caller that keeps one decoder for all its frames is the common driver. The earlier frames
/// are checksummed reference frames, completed or abandoned after their first block.
fn some_decoder(r: &mut Rng, ops: &mut Vec<String>) -> Result<FrameDecoder, Fail> {
    let mut d = FrameDecoder::new();
    d.set_max_window_size(u64::MAX);
    if r.chance(2, 3) {
        return Ok(d);
    }
    let (g, want) = wlcore::hostile::good_frame();
    let completed = r.chance(3, 4);
    let mut src = &g[..];
    let fail = |m: &str| Fail { kind: "harness", msg: format!("history frame: {m}"), ops: vec![] };
    d.reset(&mut src).map_err(|e| fail(&format!("{e}")))?;
    if completed {
        d.decode_blocks(&mut src, BlockDecodingStrategy::All).map_err(|e| fail(&format!("{e}")))?;
        if d.collect().as_deref() != Some(&want[..]) || !d.is_finished() {
            return Err(fail("wrong content"));
        }
        ops.push("history: a checksummed frame decoded completely on this decoder".into());
    } else {
        d.decode_blocks(&mut src, BlockDecodingStrategy::UptoBlocks(1)).map_err(|e| fail(&format!("{e}")))?;
        ops.push("history: a checksummed frame abandoned after its first block on this decoder".into());
    }
    Ok(d)
}

fn drive_blocks(r: &mut Rng, c: &FrameCase, frame_len: usize, garbage: usize, wrap_directed: bool) -> Result<Outcome, Fail> {
    let mut data = c.bytes.clone();
    data.extend(r.bytes(garbage));
    let pattern: Vec<usize> = match r.below(4) {
        0 => vec![usize::MAX],
        1 => vec![1],
        2 => vec![r.usize(1, 9)],
        _ => (0..r.usize(2, 5)).map(|_| r.size(1, 70_000)).collect(),
    };
    let mut src = CountingSrc { data: &data, pos: 0, pattern, calls: 0 };
    let mut ops: Vec<String> = Vec::new();
    let mut d = some_decoder(r, &mut ops)?;
    if let Some(raw) = &c.dict {
        let dd = ruzstd::decoding::Dictionary::decode_dict(raw).map_err(|e| Fail { kind: "harness", msg: format!("dictionary {e}"), ops: vec![] })?;
        let _ = d.add_dict(dd);
    }
    let mut stats: Vec<(&'static str, u64)> = Vec::new();
    let mut bump = |k: &'static str| match stats.iter_mut().find(|(n, _)| *n == k) {
        Some(e) => e.1 += 1,
        None => stats.push((k, 1)),
    };
    let mut tape: Vec<u8> = Vec::new();
    let mut last_total = 0usize;
    d.reset(&mut src).map_err(|e| Fail { kind: "valid_frame_error", msg: format!("reset: {e}"), ops: vec!["reset".into()] })?;
    ops.push("reset".into());
    let mut sink = Sink::random(r, c.expected.len(), wrap_directed);
    let mut steps = 0;
    loop {
        steps += 1;
        if steps > 200_000 {
            return Err(Fail { kind: "no_progress", msg: "schedule did not finish in 200000 steps".into(), ops });
        }
        if !d.is_finished() {
            let strat = match if wrap_directed { 1 + r.below(5) } else { r.below(6) } {
                0 => BlockDecodingStrategy::All,
                1 => BlockDecodingStrategy::UptoBlocks(1),
                2 => BlockDecodingStrategy::UptoBlocks(r.usize(1, 4)),
                3 => BlockDecodingStrategy::UptoBytes(r.usize(0, 100)),
                4 => BlockDecodingStrategy::UptoBytes(r.size(1, 300_000)),
                _ => BlockDecodingStrategy::UptoBytes(1),
            };
            ops.push(match strat {
                BlockDecodingStrategy::All => "decode(All)".to_string(),
                BlockDecodingStrategy::UptoBlocks(n) => format!("decode(UptoBlocks {n})"),
                BlockDecodingStrategy::UptoBytes(n) => format!("decode(UptoBytes {n})"),
            });
            d.decode_blocks(&mut src, strat).map_err(|e| Fail { kind: "valid_frame_error", msg: format!("decode_blocks: {e}"), ops: ops.clone() })?;
            bump("decode_blocks");
            check_step(&d, &tape, &c.expected, &mut last_total, &ops)?;
        }
        // a few drain calls, or none
        let ndrain = if d.is_finished() { r.usize(1, 4) } else { r.usize(0, 3) };
        for _ in 0..ndrain {
            let before_ring = d.verif_ring_state();
            match if wrap_directed && r.chance(3, 4) { 2 } else { r.below(3) } {
                0 => {
                    let can = d.can_collect();
                    let v = d.collect().unwrap_or_default();
                    ops.push(format!("collect->{}", v.len()));
                    if v.len() != can {
                        return Err(Fail { kind: "can_collect", msg: format!("can_collect() said {can}, collect() returned {}", v.len()), ops });
                    }
                    tape.extend_from_slice(&v);
                    bump("collect");
                }
                1 => {
                    let n = match r.below(3) {
                        0 => r.usize(1, 10),
                        1 => r.usize(1, 5000),
                        _ => r.size(1, 400_000),
                    };
                    let mut buf = vec![0u8; n];
                    let can = d.can_collect();
                    let got = Read::read(&mut d, &mut buf).map_err(|e| Fail { kind: "valid_frame_error", msg: format!("read: {e}"), ops: ops.clone() })?;
                    ops.push(format!("read({n})->{got}"));
                    if got != can.min(n) {
                        return Err(Fail { kind: "can_collect", msg: format!("can_collect() said {can}, read({n}) returned {got}"), ops });
                    }
                    tape.extend_from_slice(&buf[..got]);
                    bump(if d.is_finished() { "read_all" } else { "read" });
                }
                _ => {
                    let before = sink.got.len();
                    let faults_before = sink.injected;
                    let res = d.collect_to_writer(&mut sink);
                    let took = sink.got.len() - before;
                    {
                        // did this drain cross the wrap point of the ring, and was a fault injected during it?
                        let (_, cap, head, tail) = before_ring;
                        if tail < head && took > cap - head {
                            bump("writer_drains_across_the_wrap_point");
                            if sink.injected > faults_before {
                                bump("writer_drains_across_the_wrap_point_with_sink_fault");
                            }
                        }
                    }
                    ops.push(format!("collect_to_writer({:?})->{:?} took {took}", sink.kind, res.as_ref().map_err(|e| e.kind())));
                    if let Ok(n) = res {
                        if n != took {
                            return Err(Fail { kind: "writer_count", msg: format!("collect_to_writer reported {n} bytes, the sink received {took}"), ops });
                        }
                    }
                    let t = sink.got[before..].to_vec();
                    tape.extend_from_slice(&t);
                    bump("collect_to_writer");
                }
            }
            check_step(&d, &tape, &c.expected, &mut last_total, &ops)?;
        }
        if d.is_finished() && d.can_collect() == 0 {
            break;
        }
    }
    if sink.injected > 0 {
        bump("sink_faults_injected");
    }
    Ok(Outcome {
        tape,
        ops,
        stats,
        checksums: Some((d.get_calculated_checksum(), d.get_checksum_from_data())),
        consumed_reported: d.bytes_read_from_source(),
        pulled: Some(src.pos),
        finished: d.is_finished(),
    })
    .map(|o| {
        let _ = frame_len;
        o
    })
}

/// mode 2: StreamingDecoder::read with all buffer sizes
fn drive_streaming(r: &mut Rng, c: &FrameCase, garbage: usize) -> Result<Outcome, Fail> {
    let mut data = c.bytes.clone();
    data.extend(r.bytes(garbage));
    let pattern: Vec<usize> = match r.below(3) {
        0 => vec![usize::MAX],
        1 => vec![r.usize(1, 9)],
        _ => (0..r.usize(2, 5)).map(|_| r.size(1, 70_000)).collect(),
    };
    let mut src = CountingSrc { data: &data, pos: 0, pattern, calls: 0 };
    let mut ops = Vec::new();
    let mut d = some_decoder(r, &mut ops)?;
    if let Some(raw) = &c.dict {
        if let Ok(dd) = ruzstd::decoding::Dictionary::decode_dict(raw) {
            let _ = d.add_dict(dd);
        }
    }
    ops.push("StreamingDecoder::new_with_decoder".to_string());
    let mut tape = Vec::new();
    let style = r.below(4);
    {
        let mut s = StreamingDecoder::new_with_decoder(&mut src, &mut d).map_err(|e| Fail { kind: "valid_frame_error", msg: format!("init: {e}"), ops: ops.clone() })?;
        let mut last_total = 0usize;
        let mut steps = 0;
        loop {
            steps += 1;
            if steps > 2_000_000 {
                return Err(Fail { kind: "no_progress", msg: "streaming reads did not reach the end".into(), ops });
            }
            let n = match style {
                0 => 1,
                1 => r.usize(1, 17),
                2 => r.size(1, 300_000),
                _ => *r.pick(&[1usize, 2, 1023, 1024, 4096, 65536, 131072, 131073]),
            };
            let mut buf = vec![0u8; n];
            let got = s.read(&mut buf).map_err(|e| Fail { kind: "valid_frame_error", msg: format!("read: {e}"), ops: ops.clone() })?;
            if ops.len() < 400 {
                ops.push(format!("read({n})->{got}"));
            }
            tape.extend_from_slice(&buf[..got]);
            check_step(s.decoder, &tape, &c.expected, &mut last_total, &ops)?;
            if got == 0 {
                break;
            }
        }
    }
    Ok(Outcome { tape, ops, stats: vec![("streaming_read", 1)], checksums: Some((d.get_calculated_checksum(), d.get_checksum_from_data())), consumed_reported: d.bytes_read_from_source(), pulled: Some(src.pos), finished: d.is_finished() })
}

/// mode 3: decode_from_to with every chunking; chunk ends are placed at (or around) structural boundaries
fn drive_from_to(r: &mut Rng, c: &FrameCase, boundaries: &[usize], header_len: usize) -> Result<Outcome, Fail> {
    let frame = &c.bytes;
    let mut ops: Vec<String> = Vec::new();
    let mut d = some_decoder(r, &mut ops)?;
    let mut tape = Vec::new();
    let mut pos = 0usize;
    let mut total_read = 0u64;
    if !ops.is_empty() {
        // decode_from_to reads a frame header only on a decoder that never had a frame; on a used decoder the caller
        // starts the next frame with reset() on the header and continues with decode_from_to
        let mut hdr = &frame[..];
        d.reset(&mut hdr).map_err(|e| Fail { kind: "valid_frame_error", msg: format!("reset: {e}"), ops: ops.clone() })?;
        pos = frame.len() - hdr.len();
        total_read = pos as u64;
        ops.push(format!("reset on the header ({pos} bytes)"));
    }
    let directed = r.chance(2, 3);
    let next_end = |r: &mut Rng, pos: usize, end: usize| -> usize {
        // where the caller's next chunk of source ends
        let cand = if directed && !boundaries.is_empty() {
            let b = *r.pick(boundaries) as i64 + r.range(0, 8) as i64 - 4;
            b.clamp(0, frame.len() as i64) as usize
        } else {
            end + r.size(1, 140_000)
        };
        if cand > end {
            cand.min(frame.len())
        } else {
            // boundaries behind us: just move on a little
            (end + r.usize(1, 5)).min(frame.len()).max(pos)
        }
    };
    // the first chunk has to contain the frame header
    let mut end = next_end(r, pos, pos).max(header_len).min(frame.len());
    let mut last_total = 0usize;
    let mut steps = 0;
    let mut idle_at_end = 0;
    loop {
        steps += 1;
        if steps > 400_000 {
            return Err(Fail { kind: "no_progress", msg: "decode_from_to schedule did not finish".into(), ops });
        }
        let tn = match r.below(4) {
            0 => 0,
            1 => r.usize(1, 64),
            2 => r.usize(1, 5000),
            _ => r.size(1, 300_000),
        };
        let mut target = vec![0u8; tn];
        let given = end - pos;
        let (rd, wr) = d.decode_from_to(&frame[pos..end], &mut target).map_err(|e| Fail { kind: "valid_frame_error", msg: format!("decode_from_to: {e}"), ops: ops.clone() })?;
        if ops.len() < 400 {
            ops.push(format!("from_to(src {given}, dst {tn})->({rd},{wr})"));
        }
        if rd > given {
            return Err(Fail { kind: "read_more_than_given", msg: format!("decode_from_to was given {given} source bytes and reports {rd} read"), ops });
        }
        if wr > tn {
            return Err(Fail { kind: "wrote_more_than_given", msg: format!("decode_from_to was given a {tn} byte target and reports {wr} written"), ops });
        }
        pos += rd;
        total_read += rd as u64;
        tape.extend_from_slice(&target[..wr]);
        check_step(&d, &tape, &c.expected, &mut last_total, &ops)?;
        if d.is_finished() && d.can_collect() == 0 && d.verif_buffer_len() == 0 {
            break;
        }
        if rd != 0 || wr != 0 {
            idle_at_end = 0;
        }
        if rd == 0 && wr == 0 {
            if end == frame.len() && tn == 0 {
                // nothing can happen with an empty target once the source is used up: not the decoder's fault
            } else if end == frame.len() {
                idle_at_end += 1;
                // all source offered; if only a zero sized target was the reason keep going
                if idle_at_end > 50 {
                    return Err(Fail { kind: "stuck", msg: format!("whole frame offered ({} bytes, {pos} consumed) but the decoder neither finishes nor makes progress", frame.len()), ops });
                }
            } else {
                end = next_end(r, pos, end);
            }
        } else if r.chance(1, 3) && end < frame.len() {
            end = next_end(r, pos, end);
        }
    }
    Ok(Outcome { tape, ops, stats: vec![("decode_from_to", 1)], checksums: Some((d.get_calculated_checksum(), d.get_checksum_from_data())), consumed_reported: total_read, pulled: None, finished: d.is_finished() })
}

pub fn run(args: &Args) -> i32 {
    let role = args.extra.get("role").cloned().unwrap_or_else(|| "C06".to_string());
    let rec = Recorder::new(&role, "exploration", args);
    rec.set_rule(match role.as_str() {
        "C08" => "one evaluation = one driver program (schedule of decode and drain calls) run on a valid frame, with an independent XXH64 over the tape compared with get_calculated_checksum() and the stored checksum once all output has been taken; distinct_nontrivial = distinct schedules (hash of the operation sequence) that completed",
        _ => "one evaluation = one driver program (schedule of decode and drain calls with budgets, buffer sizes, source fragmentation and sink behaviour) run on a valid frame with the tape checked after every step; distinct_nontrivial = distinct schedules (hash of the operation sequence incl. results) that completed",
    });
    rec.assume("legal driver programs only: the first decode_from_to chunk contains the frame header, (0,0) means 'give me more', no call after an error; sinks react to cumulative bytes");
    if let Err(e) = frames::self_test(args.seed) {
        rec.inconclusive(&e);
        return rec.finish();
    }
    let n = args.vol(5000, 300_000);
    par_cases(&rec, 6, n, |i, r| {
        // frames with several blocks and small windows are the interesting ones
        // one case in six: content several times the (small) window, drained mostly through faulting sinks while decoding
        // goes on, so that drains straddle the wrap point of the ring buffer while the sink stops in the middle
        let wrap_directed = i % 6 == 5;
        let mut c = match if wrap_directed { 6 } else { r.below(6) } {
            6 => {
                let len = r.usize(40_000, 400_000);
                let shape = crate::wl::random_shape(r);
                let data = crate::wl::gen(r, shape, len);
                let wlog = r.usize(10, 15) as u32;
                match refz::compress(&data, *r.pick(&[1, 3, 5]), &[refz::CP::WindowLog(wlog), refz::CP::ChecksumFlag(r.chance(1, 2))], None) {
                    Ok(bytes) => FrameCase { bytes, expected: data, dict: None, origin: format!("libzstd windowLog {wlog}, {len} bytes {shape:?}") },
                    Err(_) => frames::libzstd_frame(r, 100_000),
                }
            }
            0 => frames::seq_frame(r),
            1 => frames::any_frame(r, 300_000),
            _ => {
                let shape = crate::wl::random_shape(r);
                let len = match r.below(3) {
                    0 => r.usize(0, 3000),
                    _ => crate::wl::interesting_len(r, 600_000),
                };
                frames::shape_frame(r, shape, len)
            }
        };
        if c.expected.len() > (4 << 20) {
            c = frames::libzstd_frame(r, 100_000);
        }
        let info = match frames::walk(&c.bytes, c.dict.as_deref()) {
            Ok(i) => i,
            Err(_) => {
                rec.count("frames_the_model_rejects", 1);
                return;
            }
        };
        // a frame that needs force_dict cannot be driven through every front end: C09 covers those
        if c.dict.is_some() && info.header.dict_id.is_none() {
            return;
        }
        rec.eval();
        let mut boundaries: Vec<usize> = vec![info.header.header_len];
        for b in &info.blocks {
            boundaries.push(b.offset);
            boundaries.push(b.offset + 3);
            boundaries.push(b.offset + 3 + b.body_len);
        }
        boundaries.push(info.frame_len);
        if info.header.checksum {
            boundaries.push(info.frame_len - 4);
        }
        let mode = if wrap_directed { 0 } else { r.below(3) };
        let garbage = if r.chance(1, 2) { r.usize(1, 40) } else { 0 };
        let res = catch(|| match mode {
            0 => drive_blocks(r, &c, info.frame_len, garbage, wrap_directed),
            1 => drive_streaming(r, &c, garbage),
            _ => {
                if c.dict.is_some() {
                    // decode_from_to has no way to register a dictionary before init on a fresh decoder: use the block mode
                    drive_blocks(r, &c, info.frame_len, garbage, false)
                } else {
                    drive_from_to(r, &c, &boundaries, info.header.header_len)
                }
            }
        });
        let mode_name = ["decode_blocks+drains", "StreamingDecoder::read", "decode_from_to"][mode as usize];
        let replay = |ops: &[String]| json!({"frame": if c.bytes.len() <= 150_000 { hex(&c.bytes) } else { format!("(len {}) re-run with the recorded seed", c.bytes.len()) }, "origin": c.origin, "mode": mode_name, "case": [args.seed, 6, i], "operations": ops.iter().take(300).collect::<Vec<_>>()});
        let is08 = role == "C08";
        match res {
            Err(p) => {
                if !is08 {
                    rec.panic_violation(&p, mode_name, json!({"origin": c.origin}), replay(&[]));
                }
            }
            Ok(Err(f)) => {
                if f.kind == "harness" {
                    rec.inconclusive(&f.msg);
                } else if !is08 {
                    rec.violation(Sig::new(f.kind, mode_name, &f.msg.chars().filter(|ch| !ch.is_ascii_digit()).take(80).collect::<String>()), json!({"what": f.msg, "origin": c.origin, "last_operations": f.ops.iter().rev().take(6).rev().collect::<Vec<_>>()}), replay(&f.ops));
                }
            }
            Ok(Ok(o)) => {
                let mut ok = true;
                if !is08 {
                    if o.tape != c.expected || !o.finished {
                        ok = false;
                        rec.violation(Sig::new("final_tape", mode_name, "tape != content at the end"), json!({"tape_len": o.tape.len(), "content_len": c.expected.len(), "finished": o.finished, "origin": c.origin}), replay(&o.ops));
                    } else if o.consumed_reported != info.frame_len as u64 {
                        ok = false;
                        rec.violation(Sig::new("consumed_count", mode_name, if info.header.checksum { "checksummed frame" } else { "frame without checksum" }), json!({"reported": o.consumed_reported, "frame_len": info.frame_len, "origin": c.origin, "last_operations": o.ops.iter().rev().take(5).rev().collect::<Vec<_>>()}), replay(&o.ops));
                    } else if o.pulled.map(|p| p != info.frame_len).unwrap_or(false) {
                        ok = false;
                        rec.violation(Sig::new("pulled_from_source", mode_name, "bytes pulled != frame length"), json!({"pulled": o.pulled, "frame_len": info.frame_len, "origin": c.origin}), replay(&o.ops));
                    } else if let Some((calc, stored)) = o.checksums {
                        // "the final checksum values ... are identical no matter how decoding is driven": they are functions of the content
                        let want = wlcore::xxh::xxh64(&c.expected, 0) as u32;
                        if calc != Some(want) || (info.header.checksum && stored != Some(want)) || (!info.header.checksum && stored.is_some()) {
                            ok = false;
                            rec.violation(Sig::new("final_checksum_values", mode_name, "depend on how the decoder was driven"), json!({"calculated": calc, "stored": stored, "xxh64_low32_of_content": want, "origin": c.origin, "last_operations": o.ops.iter().rev().take(5).rev().collect::<Vec<_>>()}), replay(&o.ops));
                        }
                    }
                } else if let Some((calc, stored)) = o.checksums {
                    let want = wlcore::xxh::xxh64(&o.tape, 0) as u32;
                    if calc != Some(want) {
                        ok = false;
                        rec.violation(Sig::new("calculated_checksum", mode_name, "calculated != XXH64(tape)"), json!({"calculated": calc, "xxh64_low32_of_tape": want, "origin": c.origin, "tape_len": o.tape.len()}), replay(&o.ops));
                    } else if info.header.checksum && (stored != Some(want) || stored != info.checksum) {
                        ok = false;
                        rec.violation(Sig::new("stored_checksum", mode_name, "stored != calculated"), json!({"stored": stored, "in_frame": info.checksum, "calculated": calc, "origin": c.origin}), replay(&o.ops));
                    } else if !info.header.checksum && stored.is_some() {
                        ok = false;
                        rec.violation(Sig::new("stored_checksum", mode_name, "checksum reported for a frame without one"), json!({"stored": stored}), replay(&o.ops));
                    }
                    if info.header.checksum {
                        rec.count("checksummed_frames", 1);
                    }
                }
                if ok {
                    rec.distinct(fnv_str(&o.ops.join(";")));
                    rec.count(&format!("mode_{mode_name}"), 1);
                    for (k, v) in o.stats {
                        rec.count(k, v);
                    }
                    if i < 5 {
                        rec.sample(json!({"origin": c.origin, "mode": mode_name, "operations": o.ops.iter().take(12).collect::<Vec<_>>(), "content_len": c.expected.len()}));
                    }
                }
            }
        }
    });
    rec.set_extra("exhaustive", json!(false));
    for f in ["buf_drain_two_slices", "buf_drain_partial"] {
        if rec.feat(f) == 0 {
            rec.inconclusive(&format!("coverage floor: {f} never happened (no drain crossed the ring's wrap point / no partial write)"));
        }
    }
    if rec.counter("writer_drains_across_the_wrap_point_with_sink_fault") == 0 {
        rec.inconclusive("coverage floor: no sink fault was injected during a writer drain that crossed the ring's wrap point");
    }
    let _: Option<Value> = None;
    rec.finish()
}
