//! C09 Dictionary frames decode correctly; a missing dictionary is an error.

use crate::common::*;
use crate::frames;
use crate::refz::{self, CP};
use crate::wl;
use ruzstd::decoding::errors::FrameDecoderError;
use ruzstd::decoding::{BlockDecodingStrategy, Dictionary, FrameDecoder, StreamingDecoder};
use serde_json::json;
use std::io::Read;
use zspec::frame::HeaderSpec;
use zspec::synth::{self, BlockPlan, CompressedPlan, CountForm, FramePlan, LitPlan, OffsetPlan, SeqPlan, TableMode};

struct TrainedDict {
    raw: Vec<u8>,
    id: u32,
    family: u64,
    what: String,
}

fn sample(r: &mut Rng, family: u64, len: usize) -> Vec<u8> {
    let mut v = Vec::with_capacity(len);
    while v.len() < len {
        match family {
            0 => v.extend_from_slice(format!("{{\"id\": {}, \"name\": \"user{}\", \"active\": {}, \"tags\": [\"a\", \"b\"]}}\n", r.below(100000), r.below(500), r.chance(1, 2)).as_bytes()),
            1 => v.extend_from_slice(format!("GET /api/v{}/items/{}?sort=asc&page={} HTTP/1.1\r\nHost: example.org\r\nAccept: */*\r\n\r\n", r.below(3), r.below(9999), r.below(50)).as_bytes()),
            2 => {
                let words = ["window", "offset", "literal", "sequence", "dictionary", "frame", "block", "the", "of", "and", " ", " ", ", ", ".\n"];
                v.extend_from_slice(r.pick(&words).as_bytes());
            }
            3 => {
                // binary records with a fixed header
                v.extend_from_slice(&[0xCA, 0xFE, 0xBA, 0xBE, 0, 1, 0, 2]);
                let n = r.usize(4, 40);
                for _ in 0..n {
                    v.push(r.below(16) as u8);
                }
            }
            4 => v.extend_from_slice(format!("2026-09-{:02} 12:{:02}:{:02} INFO worker-{} finished job {} in {} ms\n", r.range(1, 28), r.below(60), r.below(60), r.below(8), r.below(100000), r.below(5000)).as_bytes()),
            _ => {
                for _ in 0..r.usize(1, 30) {
                    v.push(b'a' + (r.below(6) * r.below(6) / 6) as u8);
                }
                v.push(b'\n');
            }
        }
    }
    v.truncate(len);
    v
}

fn train(r: &mut Rng, family: u64, size: usize) -> Option<TrainedDict> {
    let samples: Vec<Vec<u8>> = (0..400).map(|_| {
        let n = r.usize(40, 600);
        sample(r, family, n)
    }).collect();
    let raw = refz::train_dict(&samples, size).ok()?;
    let id = u32::from_le_bytes([raw[4], raw[5], raw[6], raw[7]]);
    Some(TrainedDict { raw, id, family, what: format!("ZDICT family {family} size {}", size) })
}

fn decoder_with(dicts: &[&TrainedDict]) -> Result<FrameDecoder, String> {
    let mut d = FrameDecoder::new();
    d.set_max_window_size(1 << 30);
    for t in dicts {
        let dd = Dictionary::decode_dict(&t.raw).map_err(|e| format!("decode_dict({}): {e}", t.what))?;
        if dd.id != t.id {
            return Err(format!("decode_dict reports id {} for a dictionary with id {}", dd.id, t.id));
        }
        d.add_dict(dd).map_err(|e| e.to_string())?;
    }
    Ok(d)
}

/// decode a frame that names (or, with `force`, does not name) its dictionary
fn decode(d: &mut FrameDecoder, frame: &[u8], force: Option<u32>, front: u64) -> Result<Vec<u8>, String> {
    match front {
        0 => {
            let mut src = frame;
            d.reset(&mut src).map_err(|e| format!("reset: {e}"))?;
            if let Some(id) = force {
                d.force_dict(id).map_err(|e| format!("force_dict: {e}"))?;
            }
            d.decode_blocks(&mut src, BlockDecodingStrategy::All).map_err(|e| format!("decode: {e}"))?;
            Ok(d.collect().unwrap_or_default())
        }
        1 => {
            let mut s = StreamingDecoder::new_with_decoder(frame, d).map_err(|e| format!("init: {e}"))?;
            if let Some(id) = force {
                s.decoder.force_dict(id).map_err(|e| format!("force_dict: {e}"))?;
            }
            let mut out = Vec::new();
            s.read_to_end(&mut out).map_err(|e| format!("read: {e}"))?;
            Ok(out)
        }
        2 => {
            if force.is_some() {
                return decode(d, frame, force, 0);
            }
            let mut out = Vec::with_capacity(8 << 20);
            d.decode_all_to_vec(frame, &mut out).map_err(|e| format!("decode_all_to_vec: {e}"))?;
            Ok(out)
        }
        _ => {
            // slice to slice: front 3 starts the frame with reset(), front 4 lets decode_from_to read the header itself
            // (possible only on a decoder that never had a frame, and without force_dict)
            let never_used = d.bytes_read_from_source() == 0;
            let mut pos = 0usize;
            if front == 3 || !never_used || force.is_some() {
                let mut src = frame;
                d.reset(&mut src).map_err(|e| format!("reset: {e}"))?;
                if let Some(id) = force {
                    d.force_dict(id).map_err(|e| format!("force_dict: {e}"))?;
                }
                pos = frame.len() - src.len();
            }
            let mut out = Vec::new();
            let mut target = vec![0u8; 50_000];
            // source handed over in pieces of 150 KiB (more than a block, so that progress is always possible)
            let mut idle = 0;
            loop {
                let end = (pos + 150_000).min(frame.len());
                let (rd, wr) = d.decode_from_to(&frame[pos..end], &mut target).map_err(|e| format!("decode_from_to: {e}"))?;
                pos += rd;
                out.extend_from_slice(&target[..wr]);
                if rd == 0 && wr == 0 {
                    idle += 1;
                    if d.is_finished() || idle > 3 {
                        break;
                    }
                } else {
                    idle = 0;
                }
            }
            if !d.is_finished() {
                return Err("decode_from_to: the whole frame was offered but the decoder did not finish".into());
            }
            Ok(out)
        }
    }
}

fn short(msg: &str) -> String {
    msg.chars().filter(|c| !c.is_ascii_digit()).take(70).collect()
}

/// frames that place the first match at every alignment around the dictionary / output boundary
fn boundary_cases(dict: &zspec::dict::Dict) -> Vec<(String, Vec<u8>, Option<Vec<u8>>)> {
    let mut out = Vec::new();
    let l = dict.content.len();
    let mk = |prefix_raw: usize, lits: usize, ml: u32, reach: usize, window_desc: u8| -> (Vec<u8>, Vec<u8>, Vec<String>) {
        // output so far = prefix_raw + lits; the match starts `reach` bytes before the start of the output
        let mut blocks = Vec::new();
        if prefix_raw > 0 {
            blocks.push(BlockPlan::Raw((0..prefix_raw).map(|i| (i % 251) as u8).collect()));
        }
        let literals: Vec<u8> = (0..lits).map(|i| b'A' + (i % 26) as u8).collect();
        let offset = (prefix_raw + lits + reach) as u32;
        blocks.push(BlockPlan::Compressed(CompressedPlan {
            literals,
            lit: LitPlan::Raw { size_format: None },
            seqs: vec![SeqPlan { ll: lits as u32, ml, offset: OffsetPlan::Raw(offset) }],
            ll_mode: TableMode::Predefined,
            of_mode: TableMode::Predefined,
            ml_mode: TableMode::Predefined,
            seq_count_form: CountForm::Auto,
        }));
        let plan = FramePlan { header: HeaderSpec { window_descriptor: Some(window_desc), dict_id: Some((dict.id, 4)), ..Default::default() }, blocks, dict: Some(dict.clone()), checksum_override: None };
        let s = synth::synthesise(&plan);
        (s.bytes, s.expected, s.rule_violations)
    };
    for lits in [0usize, 1, 5] {
        for ml in [3u32, 4, 8, 20] {
            // reach 1..=ml+1: fully inside the dictionary (reach >= ml), straddling (1..ml-1), and deep ones
            let mut reaches: Vec<usize> = (1..=(ml as usize + 1)).collect();
            reaches.extend([l / 2, l - 1, l, l + 1, l + 2, l + 100]);
            for reach in reaches {
                let (bytes, expected, viol) = mk(0, lits, ml, reach, 0x20);
                let valid = reach <= l;
                if valid != viol.is_empty() {
                    continue; // model and construction disagree: not used
                }
                out.push((format!("boundary: literals {lits} ml {ml} reaching {reach} bytes into a {l} byte dictionary"), bytes, if valid { Some(expected) } else { None }));
            }
        }
    }
    // a match that starts in the dictionary and runs k bytes into the output, then literals up to j bytes below the
    // window size, then a match into the dictionary (still reachable: the output is within the window); j < k
    for (k, j) in [(5usize, 1usize), (40, 3), (200, 1), (200, 150), (700, 2)] {
        let reach = 4usize.min(l);
        let ml1 = (reach + k) as u32;
        let lits2 = 1024 - j - ml1 as usize;
        let literals: Vec<u8> = (0..lits2).map(|i| b'a' + (i % 23) as u8).collect();
        // second match: starts 3 bytes before the start of the output, 3 bytes long (inside the dictionary)
        let offset2 = (ml1 as usize + lits2 + 3.min(l)) as u32;
        let plan = FramePlan {
            header: HeaderSpec { window_descriptor: Some(0x00), dict_id: Some((dict.id, 4)), ..Default::default() },
            blocks: vec![BlockPlan::Compressed(CompressedPlan {
                literals,
                lit: LitPlan::Raw { size_format: None },
                seqs: vec![SeqPlan { ll: 0, ml: ml1, offset: OffsetPlan::Raw(reach as u32) }, SeqPlan { ll: lits2 as u32, ml: 3, offset: OffsetPlan::Raw(offset2) }],
                ll_mode: TableMode::Predefined,
                of_mode: TableMode::Predefined,
                ml_mode: TableMode::Predefined,
                seq_count_form: CountForm::Auto,
            })],
            dict: Some(dict.clone()),
            checksum_override: None,
        };
        let s = synth::synthesise(&plan);
        if s.rule_violations.is_empty() {
            out.push((format!("boundary: a match running {k} bytes from the dictionary into the output, then a dictionary match {j} bytes before the window is full"), s.bytes, Some(s.expected)));
        }
    }
    // output == window - 1 and == window: the dictionary is still reachable (window 1 KiB)
    for produced in [1023usize, 1024] {
        let (bytes, expected, viol) = mk(produced - 2, 2, 6, 3, 0x00);
        if viol.is_empty() {
            out.push((format!("boundary: match into the dictionary after {produced} bytes of output, window 1024"), bytes, Some(expected)));
        }
    }
    out
}

pub fn run(args: &Args) -> i32 {
    let rec = Recorder::new("C09", "exploration", args);
    rec.set_rule("one evaluation = one (dictionary, frame) decode through a front end with the output compared with the original data (and the reference decoder using the same dictionary), or one missing-dictionary / out-of-reach-offset / later-plain-frame probe; distinct_nontrivial = distinct (dictionary, level class, window log, flags, front end) tuples that decoded correctly with a dictionary");
    rec.assume("dictionaries come from ZDICT_trainFromBuffer on generated sample families, from the repository (dict_tests/dictionary) and from the format model; raw-content dictionaries cannot be loaded through the public API and are not covered");
    if let Err(e) = frames::self_test(args.seed) {
        rec.inconclusive(&e);
        return rec.finish();
    }
    let mut r0 = Rng::for_case(args.seed, 9, 0);
    let mut dicts: Vec<TrainedDict> = Vec::new();
    for family in 0..6u64 {
        let size = *r0.pick(&[1024usize, 4096, 16 * 1024, 110 * 1024]);
        match train(&mut r0, family, size) {
            Some(t) => dicts.push(t),
            None => rec.count("dictionary_trainings_that_failed", 1),
        }
    }
    // dictionary ids of every field width: ZDICT draws ids from 32768..2^31 (four byte field); re-label two of the trained
    // dictionaries so that frames naming them carry a one byte and a two byte Dictionary_ID field
    for (k, t) in dicts.iter_mut().enumerate().take(2) {
        let id: u32 = if k == 0 { r0.range(1, 255) as u32 } else { r0.range(256, 65535) as u32 };
        t.raw[4..8].copy_from_slice(&id.to_le_bytes());
        t.id = id;
        t.what = format!("{} relabelled with id {id}", t.what);
    }
    if let Ok(raw) = std::fs::read("/repo/ruzstd/dict_tests/dictionary") {
        if raw.len() > 8 {
            let id = u32::from_le_bytes([raw[4], raw[5], raw[6], raw[7]]);
            dicts.push(TrainedDict { raw, id, family: 2, what: "repository dict_tests/dictionary".into() });
        }
    }
    if dicts.len() < 4 {
        rec.inconclusive("fewer than 4 dictionaries available");
        return rec.finish();
    }
    rec.count("dictionaries", dicts.len() as u64);

    // ---------------- reference compressor with dictionaries
    let n = args.vol(8000, 300_000);
    par_cases(&rec, 91, n, |i, r| {
        rec.eval();
        let t = r.pick(&dicts);
        let len = match r.below(4) {
            0 => r.usize(0, 200),
            1 => r.usize(0, 5000),
            _ => wl::interesting_len(r, 300_000),
        };
        // data from the dictionary's family (matches into the dictionary) or unrelated
        let data = if r.chance(3, 4) {
            sample(r, t.family, len)
        } else {
            let shape = wl::random_shape(r);
            wl::gen(r, shape, len)
        };
        let level = *r.pick(&[-3i32, 1, 1, 3, 5, 9, 15, 19]);
        let wlog = r.range(10, 22) as u32;
        let checksum = r.chance(1, 2);
        let with_id = r.chance(3, 4);
        let frame = match refz::compress(&data, level, &[CP::WindowLog(wlog), CP::ChecksumFlag(checksum), CP::DictIdFlag(with_id)], Some(&t.raw)) {
            Ok(f) => f,
            Err(e) => {
                rec.inconclusive(&format!("reference compressor with dictionary failed: {e}"));
                return;
            }
        };
        let front = r.below(5);
        let replay = json!({"dictionary": t.what, "frame": if frame.len() < 100_000 { hex(&frame) } else { format!("(len {})", frame.len()) }, "case": [args.seed, 91, i], "with_dict_id": with_id, "front": front});
        let site = format!("front{front} dict_id_in_frame={with_id}");
        // several dictionaries registered, the right one has to be picked
        let others: Vec<&TrainedDict> = dicts.iter().collect();
        let res = catch(|| {
            let mut d = decoder_with(&others)?;
            decode(&mut d, &frame, if with_id { None } else { Some(t.id) }, front)
        });
        match res {
            Err(p) => rec.panic_violation(&p, &site, json!({"dictionary": t.what}), replay.clone()),
            Ok(Err(e)) => rec.violation(Sig::new("dictionary_frame_rejected", &site, &short(&e)), json!({"error": e, "dictionary": t.what, "level": level, "wlog": wlog, "input_len": len}), replay.clone()),
            Ok(Ok(out)) => {
                if out != data {
                    let pos = out.iter().zip(data.iter()).position(|(a, b)| a != b).unwrap_or(out.len().min(data.len()));
                    rec.violation(Sig::new("wrong_output", &site, "dictionary frame"), json!({"dictionary": t.what, "level": level, "wlog": wlog, "input_len": len, "got_len": out.len(), "first_difference_at": pos}), replay.clone());
                } else {
                    rec.distinct(fnv_str(&format!("{}|{}|{wlog}|{checksum}|{with_id}|{front}", t.what, level)));
                    rec.count("dictionary_frames_decoded", 1);
                }
            }
        }
        rec.absorb_feats();
        // the same frame without the dictionary registered: refused at reset, naming the dictionary
        if with_id && i % 3 == 0 {
            rec.eval();
            let res = catch(|| {
                let missing: Vec<&TrainedDict> = dicts.iter().filter(|x| x.id != t.id).collect();
                let mut d = decoder_with(&missing)?;
                let mut src = &frame[..];
                Ok::<_, String>(match d.reset(&mut src) {
                    Err(FrameDecoderError::DictNotProvided { dict_id }) => Ok(dict_id),
                    Err(e) => Err(format!("other error: {e}")),
                    Ok(()) => Err("reset succeeded".to_string()),
                })
            });
            match res {
                Err(p) => rec.panic_violation(&p, "missing dictionary", json!({}), replay.clone()),
                Ok(Err(e)) => rec.inconclusive(&e),
                Ok(Ok(Ok(id))) if id == t.id => {
                    rec.count("missing_dictionary_refusals", 1);
                    // the caller reacts to the refusal: registers the dictionary the error names, selects it, decodes
                    let late = catch(|| -> Result<Vec<u8>, String> {
                        let missing: Vec<&TrainedDict> = dicts.iter().filter(|x| x.id != t.id).collect();
                        let mut d = decoder_with(&missing)?;
                        let mut src = &frame[..];
                        let _ = d.reset(&mut src);
                        let dd = Dictionary::decode_dict(&t.raw).map_err(|e| format!("HARNESS decode_dict: {e}"))?;
                        d.add_dict(dd).map_err(|e| format!("add_dict: {e}"))?;
                        d.force_dict(t.id).map_err(|e| format!("force_dict: {e}"))?;
                        d.decode_blocks(&mut src, BlockDecodingStrategy::All).map_err(|e| format!("decode: {e}"))?;
                        Ok(d.collect().unwrap_or_default())
                    });
                    match late {
                        Err(p) => rec.panic_violation(&p, "dictionary given after the refusal", json!({}), replay.clone()),
                        Ok(Ok(out)) if out == data => rec.count("dictionary_given_after_refusal_decodes", 1),
                        Ok(Ok(out)) => rec.violation(Sig::new("wrong_output", "dictionary given after the refusal", "add_dict + force_dict + decode"), json!({"got_len": out.len(), "expected_len": data.len()}), replay.clone()),
                        Ok(Err(e)) if e.starts_with("HARNESS") => rec.inconclusive(&e),
                        Ok(Err(e)) => rec.violation(Sig::new("dictionary_frame_rejected", "dictionary given after the refusal", &short(&e)), json!({"error": e, "dictionary": t.what}), replay.clone()),
                    }
                }
                Ok(Ok(other)) => rec.violation(Sig::new("missing_dictionary_not_refused", "reset", &short(&format!("{other:?}"))), json!({"got": format!("{other:?}"), "expected_dict_id": t.id}), replay.clone()),
            }
        }
        // a later plain frame on the same decoder is not affected by the dictionary
        if i % 4 == 0 {
            rec.eval();
            let plain = frames::libzstd_frame(r, 20_000);
            // a plain frame whose first match reaches before the start of the output: must fail, the old dictionary is gone
            let reach = FramePlan {
                header: HeaderSpec { window_descriptor: Some(0x20), ..Default::default() },
                blocks: vec![BlockPlan::Compressed(CompressedPlan { literals: b"xy".to_vec(), lit: LitPlan::Raw { size_format: None }, seqs: vec![SeqPlan { ll: 2, ml: 4, offset: OffsetPlan::Raw(3 + r.usize(0, 50) as u32) }], ll_mode: TableMode::Predefined, of_mode: TableMode::Predefined, ml_mode: TableMode::Predefined, seq_count_form: CountForm::Auto })],
                dict: None,
                checksum_override: None,
            };
            let reach_bytes = synth::synthesise(&reach).bytes;
            let res = catch(|| {
                let mut d = decoder_with(&others)?;
                let _ = decode(&mut d, &frame, if with_id { None } else { Some(t.id) }, 0)?;
                let a = decode(&mut d, &plain.bytes, None, 0);
                let b = decode(&mut d, &reach_bytes, None, 0);
                Ok::<_, String>((a, b))
            });
            match res {
                Err(p) => rec.panic_violation(&p, "plain frame after dictionary frame", json!({}), replay.clone()),
                Ok(Err(_)) => {}
                Ok(Ok((a, b))) => {
                    if a.as_deref().ok() != Some(&plain.expected[..]) {
                        rec.violation(Sig::new("later_plain_frame_affected", "valid plain frame", "after a dictionary frame"), json!({"plain": plain.origin, "result": format!("{:?}", a.map(|v| v.len()))}), replay.clone());
                    } else if b.is_ok() {
                        rec.violation(Sig::new("later_plain_frame_affected", "offset before start of output", "accepted after a dictionary frame"), json!({"plain_frame": hex(&reach_bytes)}), replay.clone());
                    } else {
                        rec.count("later_plain_frames_checked", 1);
                    }
                }
            }
        }
        if i < 3 {
            rec.sample(json!({"dictionary": t.what, "dict_len": t.raw.len(), "input_len": len, "level": level, "wlog": wlog, "checksum": checksum, "dict_id_in_frame": with_id, "front": front}));
        }
    });

    // ---------------- synthesised boundary alignments, with model dictionaries
    let mut z = zspec::rng::Rng::new(args.seed ^ 0xD1C7);
    for k in 0..3u32 {
        let d = synth::make_dict(&mut z, 77 + k, [64usize, 500, 3000][k as usize]);
        let raw = zspec::dict::write_dict(&d);
        let cases = boundary_cases(&d);
        rec.count("boundary_cases", cases.len() as u64);
        for (ci, (name, bytes, expected)) in cases.into_iter().enumerate() {
            rec.eval();
            let _g = case_guard(92, u64::from(k) << 32 | ci as u64);
            // the reference decoder agrees with the model about valid ones
            if let Some(exp) = &expected {
                match refz::decompress_with_dict(&bytes, &raw) {
                    Ok(x) if x == *exp => {}
                    _ => {
                        rec.count("boundary_cases_the_reference_disagrees_on", 1);
                        continue;
                    }
                }
            }
            let res = catch(|| {
                let mut dec = FrameDecoder::new();
                let dd = Dictionary::decode_dict(&raw).map_err(|e| e.to_string())?;
                dec.add_dict(dd).map_err(|e| e.to_string())?;
                Ok::<_, String>(decode(&mut dec, &bytes, None, 0))
            });
            rec.absorb_feats();
            let replay = json!({"frame": hex(&bytes), "dictionary": hex(&raw), "name": name});
            match res {
                Err(p) => rec.panic_violation(&p, "boundary", json!({"name": name}), replay),
                Ok(Err(e)) => rec.inconclusive(&format!("model dictionary rejected by decode_dict: {e}")),
                Ok(Ok(got)) => match (&expected, got) {
                    (Some(exp), Ok(out)) if out == *exp => rec.distinct(fnv_str(&name)),
                    (Some(_), other) => rec.violation(Sig::new("boundary_match_wrong", "dictionary/output boundary", &short(&name)), json!({"name": name, "result": format!("{:?}", other.map(|v| hex_brief(&v)))}), replay),
                    (None, Ok(out)) => rec.violation(Sig::new("offset_beyond_dictionary_accepted", "dictionary/output boundary", &short(&name)), json!({"name": name, "output": hex_brief(&out)}), replay),
                    (None, Err(_)) => rec.distinct(fnv_str(&name)),
                },
            }
        }
    }
    rec.set_extra("exhaustive", json!(false));
    for f in ["buf_repeat_dict_inside", "buf_repeat_dict_straddle", "buf_repeat_dict_missing"] {
        if rec.feat(f) == 0 {
            rec.inconclusive(&format!("coverage floor: dictionary copy path {f} never executed"));
        }
    }
    for f in ["fh_dict_id_1", "fh_dict_id_2", "fh_dict_id_4"] {
        if rec.feat(f) == 0 {
            rec.inconclusive(&format!("coverage floor: no frame header with this Dictionary_ID field width was parsed ({f})"));
        }
    }
    if rec.counter("missing_dictionary_refusals") == 0 || rec.counter("dictionary_frames_decoded") == 0 {
        rec.inconclusive("nothing was observed");
    }
    rec.finish()
}
