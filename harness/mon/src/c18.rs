//! C18 Behaviour is the same with and without the std I/O layer and the hash feature.
//!
//! Writes one workload file, lets the four builds of the generic driver (`harness/feat4`) replay it
//! and compares the four digest logs line by line (offline checker over recorded logs).

use crate::common::*;
use crate::refz;
use crate::wl;
use serde_json::json;
use std::fmt::Write as _;
use std::process::Command;

struct Item {
    line: String,
    site: String,
}

fn mutate(r: &mut Rng, frame: &[u8]) -> Vec<u8> {
    let mut f = frame.to_vec();
    match r.below(3) {
        0 if f.len() > 1 => {
            let cut = r.usize(1, f.len() - 1);
            f.truncate(cut);
        }
        1 if !f.is_empty() => {
            for _ in 0..r.usize(1, 3) {
                let i = r.usize(0, f.len() - 1);
                f[i] ^= 1 << r.below(8);
            }
        }
        _ => {
            let n = r.usize(1, 20);
            let extra = r.bytes(n);
            f.extend_from_slice(&extra);
        }
    }
    f
}

fn build_workload(args: &Args) -> Vec<Item> {
    let mut items = Vec::new();
    let n = args.vol(2000, 60000);
    for i in 0..n {
        let mut r = Rng::for_case(args.seed, 18, i);
        let shape = wl::random_shape(&mut r);
        let len = if r.chance(1, 8) { wl::interesting_len(&mut r, 400_000) } else { wl::interesting_len(&mut r, 60_000) };
        let data = wl::gen(&mut r, shape, len);
        if i % 2 == 0 {
            // compress: fragmenting reader, take limited source, short writer, Interrupted in the drain
            let small = len <= 3000;
            let chunk = if small { *r.pick(&[1usize, 3, 7, 1000, 1 << 30]) } else { *r.pick(&[997usize, 4096, 65536, 131072, 1 << 30]) };
            let per_write = if small { *r.pick(&[1usize, 5, 13, 1 << 30]) } else { *r.pick(&[1013usize, 4096, 1 << 30]) };
            let mut line = String::new();
            write!(
                line,
                "compress level={} chunk={} per_write={} wint={} frames={} take={} data={}",
                r.below(2),
                chunk,
                per_write,
                *r.pick(&[0usize, 0, 2, 3, 7]),
                *r.pick(&[1usize, 1, 1, 2, 3]),
                if r.chance(1, 4) { r.usize(0, len) } else { 0 },
                hex(&data)
            )
            .unwrap();
            items.push(Item { line, site: "compress".into() });
        } else {
            // decode: frames from the reference compressor (with and without checksum) and from ruzstd, valid and damaged
            let checksum = r.chance(1, 2);
            let wrap_directed = i % 16 == 1;
            let data = if wrap_directed { wl::gen(&mut r, shape, 250_000 + len) } else { data };
            let len = data.len();
            let mut frame = if wrap_directed {
                refz::compress(&data, *r.pick(&[1i32, 3]), &[refz::CP::ChecksumFlag(checksum), refz::CP::WindowLog(r.usize(10, 14) as u32)], None).expect("reference compression")
            } else if r.chance(1, 4) {
                ruzstd::encoding::compress_to_vec(&data[..], if r.chance(1, 2) { ruzstd::encoding::CompressionLevel::Fastest } else { ruzstd::encoding::CompressionLevel::Uncompressed })
            } else {
                let level = *r.pick(&[-3i32, 1, 3, 6, 12, 19]);
                let wlog = r.usize(10, 20) as u32;
                refz::compress(&data, level, &[refz::CP::ChecksumFlag(checksum), refz::CP::WindowLog(wlog), refz::CP::ContentSizeFlag(r.chance(1, 2))], None).expect("reference compression")
            };
            if r.chance(1, 4) && !wrap_directed {
                frame = mutate(&mut r, &frame);
            }
            let front = if wrap_directed { "collect" } else { "" };
            let front_random = *r.pick(&["stream", "stream", "stream_take", "stream_exact", "blocks", "blocks", "fromto", "fromto", "collect", "collect", "all", "all_vec"]);
            let front = if front.is_empty() { front_random } else { front };
            let small = frame.len() <= 3000;
            let chunk = if small { *r.pick(&[1usize, 2, 5, 64, 1 << 30]) } else { *r.pick(&[511usize, 4096, 1 << 30]) };
            let mut line = String::new();
            write!(
                line,
                "decode front={} chunk={} rint={} readsize={} take={} strat={} per_write={} wint={} frame={}",
                front,
                if front == "fromto" { *r.pick(&[40usize, 1000, 140_000, 1 << 30]) } else { chunk },
                *r.pick(&[0usize, 0, 2, 5]),
                *r.pick(&[1usize, 7, 100, 4096, 200_000]),
                r.usize(0, len + 10),
                *r.pick(&[0usize, 1, 2, 5000, 200_000]),
                (*r.pick(&[1usize, 50, 1 << 30])).max(if len > 20_000 { 50 } else { 1 }),
                *r.pick(&[0usize, 0, 2, 3]),
                hex(&frame)
            )
            .unwrap();
            items.push(Item { line, site: format!("decode/{front}") });
        }
    }
    items
}

fn field<'a>(line: &'a str, key: &str) -> Option<&'a str> {
    line.split(' ').find_map(|p| p.strip_prefix(key).and_then(|v| v.strip_prefix('=')))
}

pub fn run(args: &Args) -> i32 {
    let rec = Recorder::new("C18", "exploration", args);
    rec.set_rule("one evaluation = one workload item (a compression through fragmenting reader / short writer, or a decode of a valid or damaged frame through one front end) executed by all four builds {std,no_std} x {hash,no hash} of the same generic driver; distinct_nontrivial = distinct digest lines of the std+hash build (distinct observable behaviours compared)");
    rec.assume("Interrupted is injected only where the library is written to retry it (decoder sources via read_exact, compressor drain via write_all); the compressor unwraps errors of its source in every build");
    let Some(dir) = args.extra.get("feat4-dir").cloned() else {
        rec.inconclusive("no --feat4-dir");
        return rec.finish();
    };
    let items = build_workload(args);
    let wl_path = format!("{VERIF_DIR}/target/tmp/c18_{}_{}.wl", args.seed, std::process::id());
    std::fs::create_dir_all(format!("{VERIF_DIR}/target/tmp")).unwrap();
    let mut text = String::new();
    for it in &items {
        text.push_str(&it.line);
        text.push('\n');
    }
    std::fs::write(&wl_path, &text).unwrap();

    let variants = ["x", "xstd", "xhash", "xstd_hash"];
    let mut logs: Vec<Vec<String>> = Vec::new();
    for v in variants {
        let bin = format!("{dir}/{v}/release/feat4");
        let out = Command::new(&bin).arg(&wl_path).output();
        match out {
            Ok(o) if o.status.success() => {
                let lines: Vec<String> = String::from_utf8_lossy(&o.stdout).lines().map(|s| s.to_string()).collect();
                let want_hdr = format!("feat4 std={} hash={}", v.contains("std"), v.contains("hash"));
                if lines.first() != Some(&want_hdr) || lines.len() != items.len() + 1 {
                    rec.inconclusive(&format!("driver {v} printed {} lines / header {:?}, expected {} / {want_hdr}", lines.len(), lines.first(), items.len() + 1));
                    return rec.finish();
                }
                logs.push(lines[1..].to_vec());
            }
            other => {
                rec.inconclusive(&format!("driver {v} did not run: {:?}", other.map(|o| o.status)));
                return rec.finish();
            }
        }
    }
    let _ = std::fs::remove_file(&wl_path);
    let (nostd_nohash, std_nohash, nostd_hash, std_hash) = (&logs[0], &logs[1], &logs[2], &logs[3]);

    let strip = |l: &str, keys: &[&str]| -> String { l.split(' ').filter(|p| !keys.iter().any(|k| p.starts_with(&format!("{k}=")))).collect::<Vec<_>>().join(" ") };
    for (i, it) in items.iter().enumerate() {
        rec.eval();
        let replay = json!({"item": it.line.chars().take(200_000).collect::<String>(), "lines": {"std_hash": std_hash[i], "nostd_hash": nostd_hash[i], "std_nohash": std_nohash[i], "nostd_nohash": nostd_nohash[i]}});
        rec.distinct(fnv_str(&std_hash[i][std_hash[i].find(' ').unwrap_or(0)..]));
        if i < 6 {
            rec.sample(json!({"item": it.line.chars().take(160).collect::<String>(), "std_hash": std_hash[i], "nostd_nohash": nostd_nohash[i]}));
        }
        let any_panic = [std_hash, nostd_hash, std_nohash, nostd_nohash].iter().any(|l| l[i].ends_with("PANIC"));
        if any_panic {
            let all = [std_hash, nostd_hash, std_nohash, nostd_nohash].iter().all(|l| l[i].ends_with("PANIC"));
            if all {
                rec.count("items_panicking_in_all_builds", 1);
                continue;
            }
            rec.violation(Sig::new("panic_in_some_builds", &it.site, "panic"), json!({"lines": replay["lines"]}), replay.clone());
            continue;
        }
        // std vs no_std: identical, with and without hash
        if std_hash[i] != nostd_hash[i] {
            rec.violation(Sig::new("std_vs_nostd", &it.site, "hash"), json!({"std": std_hash[i], "no_std": nostd_hash[i]}), replay.clone());
        }
        if std_nohash[i] != nostd_nohash[i] {
            rec.violation(Sig::new("std_vs_nostd", &it.site, "nohash"), json!({"std": std_nohash[i], "no_std": nostd_nohash[i]}), replay.clone());
        }
        // hash vs no hash: only the checksum flag / trailer / calculated checksum may differ
        let (h, n) = (&std_hash[i], &std_nohash[i]);
        if it.site == "compress" {
            let frames: usize = field(&it.line, "frames").and_then(|s| s.parse().ok()).unwrap_or(1);
            let lh: i64 = field(h, "len").and_then(|s| s.parse().ok()).unwrap_or(-1);
            let ln: i64 = field(n, "len").and_then(|s| s.parse().ok()).unwrap_or(-2);
            let ok = field(h, "decode_ok") == Some("true") && field(n, "decode_ok") == Some("true") && lh == ln + 4 * frames as i64 && (frames != 1 || field(h, "norm_fnv") == field(n, "norm_fnv"));
            if !ok {
                rec.violation(Sig::new("hash_vs_nohash", &it.site, "frame"), json!({"hash": h, "nohash": n}), replay.clone());
            }
            if field(h, "decode_ok") != Some("true") {
                rec.count("compress_items_not_decoding", 1);
            }
        } else if strip(h, &["calc"]) != strip(n, &["calc"]) {
            rec.violation(Sig::new("hash_vs_nohash", &it.site, "decode"), json!({"hash": h, "nohash": n}), replay.clone());
        }
    }
    let count = |pat: &str| std_hash.iter().filter(|l| l.contains(pat)).count();
    rec.set_extra("decode_ok_items", json!(count("decode ok")));
    rec.set_extra("decode_error_items", json!(count("decode err") + count("decode exact_end") + count("decode stalled")));
    rec.set_extra("compress_items", json!(count("compress len")));
    rec.set_extra("builds", json!(variants));
    rec.set_extra("exhaustive", json!(false));
    rec.finish()
}
