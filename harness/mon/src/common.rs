//! Shared monitor infrastructure: arguments, panic capture, CPU clock, recorder (evidence,
//! violations, known findings, replay files).

use serde_json::{json, Map, Value};
use std::cell::RefCell;
use std::collections::{BTreeMap, HashSet};
use std::panic::{catch_unwind, AssertUnwindSafe};
use std::sync::atomic::{AtomicU64, Ordering};
use std::sync::Mutex;
use std::time::Instant;

pub const VERIF_DIR: &str = "/verif";

#[derive(Clone, Debug)]
pub struct Args {
    pub check: String,
    pub tier: String,
    pub seed: u64,
    pub out: Option<String>,
    pub replay: Option<String>,
    pub build: String,
    pub threads: usize,
    pub extra: BTreeMap<String, String>,
}

impl Args {
    pub fn parse() -> Args {
        let mut it = std::env::args().skip(1);
        let check = it.next().unwrap_or_else(|| usage());
        let mut a = Args {
            check,
            tier: std::env::var("VERIF_TIER").unwrap_or_else(|_| "quick".into()),
            seed: std::env::var("VERIF_SEED")
                .ok()
                .and_then(|s| s.parse().ok())
                .unwrap_or(1),
            out: None,
            replay: None,
            build: "rel".into(),
            threads: 16,
            extra: BTreeMap::new(),
        };
        while let Some(k) = it.next() {
            let mut val = || it.next().unwrap_or_else(|| usage());
            match k.as_str() {
                "--tier" => a.tier = val(),
                "--seed" => a.seed = val().parse().unwrap_or_else(|_| usage()),
                "--out" => a.out = Some(val()),
                "--replay" => a.replay = Some(val()),
                "--build" => a.build = val(),
                "--threads" => a.threads = val().parse().unwrap_or_else(|_| usage()),
                other if other.starts_with("--") => {
                    let v = val();
                    a.extra.insert(other[2..].to_string(), v);
                }
                _ => usage(),
            }
        }
        if a.tier != "quick" && a.tier != "thorough" {
            usage();
        }
        a
    }
    pub fn thorough(&self) -> bool {
        self.tier == "thorough"
    }
    /// pick a volume depending on the tier, scaled down by `--scale <percent>` (used for slow builds)
    pub fn vol(&self, quick: u64, thorough: u64) -> u64 {
        let v = if self.thorough() { thorough } else { quick };
        let scale: u64 = self
            .extra
            .get("scale")
            .and_then(|s| s.parse().ok())
            .unwrap_or(100);
        (v * scale / 100).max(1)
    }
    pub fn extra_u64(&self, key: &str, default: u64) -> u64 {
        self.extra
            .get(key)
            .and_then(|s| s.parse().ok())
            .unwrap_or(default)
    }
}

fn usage() -> ! {
    eprintln!("usage: mon <check> [--tier quick|thorough] [--seed N] [--out file] [--replay file] [--build name] [--threads N] [--key value ...]");
    std::process::exit(2)
}

// ---------------------------------------------------------------- panic capture

thread_local! {
    static LAST_PANIC: RefCell<Option<String>> = const { RefCell::new(None) };
}

pub fn install_panic_hook() {
    std::panic::set_hook(Box::new(|info| {
        let loc = info
            .location()
            .map(|l| format!("{}:{}", l.file(), l.line()))
            .unwrap_or_else(|| "?".into());
        let msg = if let Some(s) = info.payload().downcast_ref::<&str>() {
            (*s).to_string()
        } else if let Some(s) = info.payload().downcast_ref::<String>() {
            s.clone()
        } else {
            "<non string panic>".to_string()
        };
        let mut msg: String = msg.chars().take(300).collect();
        msg = msg.replace('\n', " ");
        // a panic inside the harness itself is not caught anywhere: say what it was before the process dies with 101
        if loc.contains("/verif/harness/") || loc.starts_with("mon/src") || loc.starts_with("wlcore/") || loc.starts_with("zspec/") {
            eprintln!("HARNESS-PANIC {loc}: {msg}");
        }
        LAST_PANIC.with(|p| *p.borrow_mut() = Some(format!("{loc}: {msg}")));
    }));
}

#[derive(Debug, Clone)]
pub struct Panicked {
    /// "file:line: message"
    pub what: String,
}

impl Panicked {
    /// file:line of the panic, with the path shortened to start at the crate directory
    pub fn site(&self) -> String {
        let loc = self.what.split(": ").next().unwrap_or("?");
        if let Some(i) = loc.find("/registry/src/") {
            // a dependency: crate-version/src/file.rs:line
            let rest = &loc[i + "/registry/src/".len()..];
            return rest.split_once('/').map(|x| x.1).unwrap_or(rest).to_string();
        }
        match loc.find("ruzstd/src/") {
            Some(i) => loc[i..].to_string(),
            None => match loc.find("/src/") {
                Some(i) => loc[i + 1..].to_string(),
                None => loc.to_string(),
            },
        }
    }
}

impl Panicked {
    /// did the panic come from the harness (a bug in the monitor) rather than from the code under test?
    pub fn in_harness(&self) -> bool {
        let loc = self.what.split(": ").next().unwrap_or("?");
        loc.starts_with("mon/src") || loc.starts_with("wlcore/src") || loc.starts_with("zspec/src") || loc.contains("/verif/harness/")
    }
}

/// Run `f`, turning a panic into an `Err` that says where it happened
pub fn catch<T>(f: impl FnOnce() -> T) -> Result<T, Panicked> {
    LAST_PANIC.with(|p| *p.borrow_mut() = None);
    match catch_unwind(AssertUnwindSafe(f)) {
        Ok(v) => Ok(v),
        Err(_) => {
            let what = LAST_PANIC
                .with(|p| p.borrow_mut().take())
                .unwrap_or_else(|| "?: unknown panic".into());
            Err(Panicked { what })
        }
    }
}

// ---------------------------------------------------------------- cpu clock

/// CPU time consumed by the calling thread, in seconds
pub fn thread_cpu_s() -> f64 {
    let mut ts = libc::timespec {
        tv_sec: 0,
        tv_nsec: 0,
    };
    unsafe { libc::clock_gettime(libc::CLOCK_THREAD_CPUTIME_ID, &mut ts) };
    ts.tv_sec as f64 + ts.tv_nsec as f64 * 1e-9
}

// ---------------------------------------------------------------- misc helpers

pub fn fnv(data: &[u8]) -> u64 {
    let mut h: u64 = 0xcbf29ce484222325;
    for b in data {
        h ^= u64::from(*b);
        h = h.wrapping_mul(0x100000001b3);
    }
    h
}

pub fn fnv_str(s: &str) -> u64 {
    fnv(s.as_bytes())
}

pub fn hex(data: &[u8]) -> String {
    let mut s = String::with_capacity(data.len() * 2);
    for b in data {
        s.push_str(&format!("{b:02x}"));
    }
    s
}

pub fn unhex(s: &str) -> Vec<u8> {
    (0..s.len() / 2)
        .map(|i| u8::from_str_radix(&s[2 * i..2 * i + 2], 16).unwrap_or(0))
        .collect()
}

/// hex of the data if short, else head + length + hash
pub fn hex_brief(data: &[u8]) -> String {
    if data.len() <= 48 {
        hex(data)
    } else {
        format!(
            "{}..(len {} fnv {:016x})",
            hex(&data[..24]),
            data.len(),
            fnv(data)
        )
    }
}

pub use wlcore::Rng;

// ---------------------------------------------------------------- recorder

/// Identifies *what* failed so that a known finding only ever matches the defect it describes
#[derive(Clone, Debug, PartialEq, Eq, Hash)]
pub struct Sig {
    pub kind: String,
    pub site: String,
    pub discriminator: String,
}

impl Sig {
    pub fn new(kind: &str, site: &str, discriminator: &str) -> Sig {
        Sig {
            kind: kind.into(),
            site: site.into(),
            discriminator: discriminator.into(),
        }
    }
}

struct KnownFinding {
    property: String,
    kind: String,
    site: String,
    discriminator: String,
    status: String,
    what: String,
}

pub struct Recorder {
    pub property: String,
    pub level: String,
    pub args: Args,
    start: Instant,
    evaluations: AtomicU64,
    distinct: Mutex<HashSet<u64>>,
    samples: Mutex<Vec<Value>>,
    counters: Mutex<BTreeMap<String, u64>>,
    feats: Mutex<Vec<u64>>,
    violations: Mutex<Vec<(Sig, Value)>>,
    known_hits: Mutex<BTreeMap<String, u64>>,
    seen_sigs: Mutex<HashSet<Sig>>,
    inconclusive: Mutex<Vec<String>>,
    extra: Mutex<Map<String, Value>>,
    known: Vec<KnownFinding>,
    pub rule: Mutex<String>,
    pub assumptions: Mutex<Vec<String>>,
}

const MAX_SAMPLES: usize = 12;
const MAX_DISTINCT_DUMP: usize = 400_000;

impl Recorder {
    pub fn new(property: &str, level: &str, args: &Args) -> Recorder {
        let mut known = Vec::new();
        let path = format!("{VERIF_DIR}/known_findings.json");
        if let Ok(text) = std::fs::read_to_string(&path) {
            if let Ok(Value::Object(o)) = serde_json::from_str::<Value>(&text) {
                if let Some(Value::Array(arr)) = o.get("findings") {
                    for f in arr {
                        let g = |k: &str| {
                            f.get(k)
                                .and_then(|v| v.as_str())
                                .unwrap_or_default()
                                .to_string()
                        };
                        known.push(KnownFinding {
                            property: g("property"),
                            kind: g("kind"),
                            site: g("site"),
                            discriminator: g("discriminator"),
                            status: g("status"),
                            what: g("what"),
                        });
                    }
                }
            }
        }
        start_watchdog(property.to_string(), args.clone());
        Recorder {
            property: property.into(),
            level: level.into(),
            args: args.clone(),
            start: Instant::now(),
            evaluations: AtomicU64::new(0),
            distinct: Mutex::new(HashSet::new()),
            samples: Mutex::new(Vec::new()),
            counters: Mutex::new(BTreeMap::new()),
            feats: Mutex::new(vec![0; ruzstd::verif::num_feats()]),
            violations: Mutex::new(Vec::new()),
            known_hits: Mutex::new(BTreeMap::new()),
            seen_sigs: Mutex::new(HashSet::new()),
            inconclusive: Mutex::new(Vec::new()),
            extra: Mutex::new(Map::new()),
            known,
            rule: Mutex::new(String::new()),
            assumptions: Mutex::new(Vec::new()),
        }
    }

    pub fn eval(&self) {
        self.evaluations.fetch_add(1, Ordering::Relaxed);
    }
    pub fn evals(&self, n: u64) {
        self.evaluations.fetch_add(n, Ordering::Relaxed);
    }
    /// register a non-trivial case by its signature hash
    pub fn distinct(&self, sig: u64) {
        self.distinct.lock().unwrap().insert(sig);
    }
    pub fn distinct_count(&self) -> usize {
        self.distinct.lock().unwrap().len()
    }
    pub fn sample(&self, v: Value) {
        let mut s = self.samples.lock().unwrap();
        if s.len() < MAX_SAMPLES {
            s.push(v);
        }
    }
    pub fn count(&self, key: &str, n: u64) {
        *self
            .counters
            .lock()
            .unwrap()
            .entry(key.to_string())
            .or_insert(0) += n;
    }
    pub fn counter(&self, key: &str) -> u64 {
        *self.counters.lock().unwrap().get(key).unwrap_or(&0)
    }
    pub fn set_extra(&self, key: &str, v: Value) {
        self.extra.lock().unwrap().insert(key.to_string(), v);
    }
    pub fn set_rule(&self, rule: &str) {
        *self.rule.lock().unwrap() = rule.to_string();
    }
    pub fn assume(&self, a: &str) {
        self.assumptions.lock().unwrap().push(a.to_string());
    }
    /// add this thread's hook counters (and reset them)
    pub fn absorb_feats(&self) {
        let c = ruzstd::verif::take_counters();
        let mut f = self.feats.lock().unwrap();
        for (i, v) in c.iter().enumerate() {
            f[i] += v;
        }
    }
    pub fn feat(&self, name: &str) -> u64 {
        let f = self.feats.lock().unwrap();
        ruzstd::verif::FEAT_NAMES
            .iter()
            .position(|n| *n == name)
            .map(|i| f[i])
            .unwrap_or(0)
    }
    pub fn inconclusive(&self, why: &str) {
        self.inconclusive.lock().unwrap().push(why.to_string());
    }

    /// A panic escaped from a call into the library: a violation, unless the panic is in the harness itself (inconclusive)
    pub fn panic_violation(&self, p: &Panicked, discriminator: &str, mut detail: Value, replay: Value) {
        if p.in_harness() {
            self.inconclusive(&format!("harness panic {}", p.what));
            return;
        }
        if let Value::Object(o) = &mut detail {
            o.insert("panic".into(), json!(p.what));
        }
        self.violation(Sig::new("panic", &p.site(), discriminator), detail, replay);
    }

    /// Report that the property was violated. `replay` must contain everything needed to reproduce the case.
    pub fn violation(&self, sig: Sig, detail: Value, replay: Value) {
        // known finding?
        for k in &self.known {
            if k.property == self.property
                && k.status == "open"
                && k.kind == sig.kind
                && k.site == sig.site
                && k.discriminator == sig.discriminator
            {
                let line = format!("KNOWN-FINDING: property={} {}", self.property, k.what);
                let mut hits = self.known_hits.lock().unwrap();
                let e = hits.entry(line.clone()).or_insert(0);
                if *e == 0 {
                    println!("{line}");
                }
                *e += 1;
                return;
            }
        }
        // report each signature once, count the rest
        let first = self.seen_sigs.lock().unwrap().insert(sig.clone());
        self.count("violations_total", 1);
        if !first {
            return;
        }
        let dir = format!("{VERIF_DIR}/replay/{}", self.property);
        let _ = std::fs::create_dir_all(&dir);
        let name = format!(
            "{:016x}.json",
            fnv_str(&format!("{}|{}|{}", sig.kind, sig.site, sig.discriminator))
        );
        let path = format!("{dir}/{name}");
        let doc = json!({
            "property": self.property,
            "check": self.args.check,
            "build": self.args.build,
            "tier": self.args.tier,
            "seed": self.args.seed,
            "signature": {"kind": sig.kind, "site": sig.site, "discriminator": sig.discriminator},
            "detail": detail,
            "replay": replay,
        });
        let _ = std::fs::write(&path, serde_json::to_string_pretty(&doc).unwrap());
        println!("VIOLATION property={} replay={}", self.property, path);
        println!(
            "  kind={} site={} discriminator={} detail={}",
            sig.kind,
            sig.site,
            sig.discriminator,
            serde_json::to_string(&detail)
                .unwrap()
                .chars()
                .take(600)
                .collect::<String>()
        );
        self.violations.lock().unwrap().push((sig, detail));
    }

    /// Write the (partial) evidence file and return the process exit code
    pub fn finish(&self) -> i32 {
        let wall = self.start.elapsed().as_secs_f64();
        let violations = self.violations.lock().unwrap();
        let inconclusive = self.inconclusive.lock().unwrap();
        let distinct = self.distinct.lock().unwrap();
        let feats = self.feats.lock().unwrap();
        let mut feat_map = Map::new();
        for (i, n) in ruzstd::verif::FEAT_NAMES.iter().enumerate() {
            if feats[i] > 0 {
                feat_map.insert(n.to_string(), json!(feats[i]));
            }
        }
        let mut coverage = Map::new();
        coverage.insert(
            "evaluations".into(),
            json!(self.evaluations.load(Ordering::Relaxed)),
        );
        coverage.insert("distinct_nontrivial".into(), json!(distinct.len()));
        coverage.insert("rule".into(), json!(*self.rule.lock().unwrap()));
        coverage.insert("samples".into(), json!(*self.samples.lock().unwrap()));
        coverage.insert("counters".into(), json!(*self.counters.lock().unwrap()));
        coverage.insert("hook_hits".into(), Value::Object(feat_map));
        coverage.insert(
            "known_findings_matched".into(),
            json!(*self.known_hits.lock().unwrap()),
        );
        for (k, v) in self.extra.lock().unwrap().iter() {
            coverage.insert(k.clone(), v.clone());
        }
        let mut hashes: Vec<String> = Vec::new();
        if distinct.len() <= MAX_DISTINCT_DUMP {
            hashes = distinct.iter().map(|h| format!("{h:x}")).collect();
        }
        let doc = json!({
            "property_id": self.property,
            "tier": self.args.tier,
            "seed": self.args.seed,
            "level": self.level,
            "build": self.args.build,
            "check": self.args.check,
            "coverage": Value::Object(coverage),
            "assumptions": *self.assumptions.lock().unwrap(),
            "wall_s": wall,
            "violations": violations.len(),
            "violation_signatures": violations.iter().map(|(s, _)| json!({"kind": s.kind, "site": s.site, "discriminator": s.discriminator})).collect::<Vec<_>>(),
            "inconclusive": *inconclusive,
            "distinct_hashes": hashes,
        });
        if let Some(out) = &self.args.out {
            if let Some(parent) = std::path::Path::new(out).parent() {
                let _ = std::fs::create_dir_all(parent);
            }
            std::fs::write(out, serde_json::to_string(&doc).unwrap()).expect("write evidence");
        }
        eprintln!(
            "[{} {} {}] evaluations={} distinct={} violations={} inconclusive={} wall={:.1}s",
            self.property,
            self.args.check,
            self.args.build,
            self.evaluations.load(Ordering::Relaxed),
            distinct.len(),
            violations.len(),
            inconclusive.len(),
            wall
        );
        if !violations.is_empty() {
            1
        } else if !inconclusive.is_empty() {
            for why in inconclusive.iter() {
                println!("INCONCLUSIVE property={} reason={}", self.property, why);
            }
            2
        } else {
            0
        }
    }
}

// ---------------------------------------------------------------- hang watchdog (CPU time based)

struct WatchSlot {
    active: bool,
    thread: libc::pthread_t,
    cpu_at_start: f64,
    stream: u64,
    idx: u64,
}

static WATCH: std::sync::OnceLock<Vec<Mutex<WatchSlot>>> = std::sync::OnceLock::new();
static WATCH_NEXT: AtomicU64 = AtomicU64::new(0);
thread_local! {
    static WATCH_MINE: usize = (WATCH_NEXT.fetch_add(1, Ordering::Relaxed) as usize) % 128;
}

fn watch_slots() -> &'static Vec<Mutex<WatchSlot>> {
    WATCH.get_or_init(|| (0..128).map(|_| Mutex::new(WatchSlot { active: false, thread: 0, cpu_at_start: 0.0, stream: 0, idx: 0 })).collect())
}

fn cpu_of_thread(t: libc::pthread_t) -> Option<f64> {
    let mut clock: libc::clockid_t = 0;
    if unsafe { libc::pthread_getcpuclockid(t, &mut clock) } != 0 {
        return None;
    }
    let mut ts = libc::timespec { tv_sec: 0, tv_nsec: 0 };
    if unsafe { libc::clock_gettime(clock, &mut ts) } != 0 {
        return None;
    }
    Some(ts.tv_sec as f64 + ts.tv_nsec as f64 * 1e-9)
}

pub struct CaseGuard;

/// Mark the calling thread as working on case (stream, idx) until the guard is dropped
pub fn case_guard(stream: u64, idx: u64) -> CaseGuard {
    let k = WATCH_MINE.with(|k| *k);
    let mut s = watch_slots()[k].lock().unwrap();
    s.active = true;
    s.thread = unsafe { libc::pthread_self() };
    s.cpu_at_start = thread_cpu_s();
    s.stream = stream;
    s.idx = idx;
    CaseGuard
}

impl Drop for CaseGuard {
    fn drop(&mut self) {
        let k = WATCH_MINE.with(|k| *k);
        watch_slots()[k].lock().unwrap().active = false;
    }
}

/// A case that burns more CPU time than this (orders of magnitude above any legitimate case) never returns: a hang.
/// The verdict is based on the CPU time of the worker thread, not on wall time.
fn start_watchdog(property: String, args: Args) {
    static STARTED: std::sync::Once = std::sync::Once::new();
    STARTED.call_once(|| {
        let limit = args.extra_u64("case-cpu-limit", if args.thorough() { 2700 } else { 900 }) as f64;
        std::thread::spawn(move || loop {
            std::thread::sleep(std::time::Duration::from_secs(5));
            for s in watch_slots() {
                let (stuck, stream, idx, used) = {
                    let g = s.lock().unwrap();
                    if !g.active {
                        continue;
                    }
                    let used = cpu_of_thread(g.thread).map(|c| c - g.cpu_at_start).unwrap_or(0.0);
                    (used > limit, g.stream, g.idx, used)
                };
                if stuck {
                    let dir = format!("{VERIF_DIR}/replay/{property}");
                    let _ = std::fs::create_dir_all(&dir);
                    let path = format!("{dir}/hang_{}_{}_{}_{}.json", args.check, args.seed, stream, idx);
                    let doc = json!({"property": property, "check": args.check, "build": args.build, "tier": args.tier, "seed": args.seed,
                        "signature": {"kind": "hang", "site": format!("case stream {stream} index {idx}"), "discriminator": "cpu budget per case"},
                        "detail": {"cpu_s_so_far": used, "limit_s": limit},
                        "replay": {"how": format!("re-run `mon {} --tier {} --seed {}`: the case is generated from (seed, stream {stream}, index {idx})", args.check, args.tier, args.seed)}});
                    let _ = std::fs::write(&path, serde_json::to_string_pretty(&doc).unwrap());
                    println!("VIOLATION property={property} replay={path}");
                    println!("  kind=hang site=case stream {stream} index {idx}: the case has used {used:.0} s of CPU time (limit {limit:.0} s) and has not returned");
                    std::process::exit(1);
                }
            }
        });
    });
}

/// Run `n` cases on the rayon pool. Each case gets its own deterministic RNG; hook counters of
/// the worker threads are absorbed into the recorder.
pub fn par_cases(rec: &Recorder, stream: u64, n: u64, f: impl Fn(u64, &mut Rng) + Sync) {
    use rayon::prelude::*;
    (0..n).into_par_iter().for_each(|i| {
        let mut rng = Rng::for_case(rec.args.seed, stream, i);
        let _g = case_guard(stream, i);
        f(i, &mut rng);
        rec.absorb_feats();
    });
}
