//! C02 Compress then decompress returns the input, and the frame is valid Zstandard
//! (also serves the compressor halves of C08 and C15 through `--role`).
//!
//! Public API only: `compress_to_vec`, `FrameCompressor` (reused for several frames, level
//! switches, fragmenting readers). Oracles: the input itself through ruzstd's decoders and through
//! the reference decoder (which verifies the checksum), an independent XXH64 for the trailer (C08),
//! the size formula and - when the format model is compiled in - the strict frame walker (C15).

use crate::common::*;
use crate::refz;
use crate::wl::{self, Shape, BLOCK};
use ruzstd::encoding::{CompressionLevel, FrameCompressor};
use ruzstd::verif::EncEvent;
use serde_json::{json, Value};

struct FragReader<'a> {
    data: &'a [u8],
    /// bytes per read call: cycles through this list
    pattern: Vec<usize>,
    calls: usize,
}

impl std::io::Read for FragReader<'_> {
    fn read(&mut self, buf: &mut [u8]) -> std::io::Result<usize> {
        let want = self.pattern[self.calls % self.pattern.len()].max(1);
        self.calls += 1;
        let n = buf.len().min(want).min(self.data.len());
        buf[..n].copy_from_slice(&self.data[..n]);
        self.data = &self.data[n..];
        Ok(n)
    }
}

#[derive(Clone)]
struct FrameJob {
    data: Vec<u8>,
    level: u8,
    pattern: Vec<usize>,
    what: String,
}

fn level_of(l: u8) -> CompressionLevel {
    if l == 0 {
        CompressionLevel::Uncompressed
    } else {
        CompressionLevel::Fastest
    }
}

fn events_string(ev: &[EncEvent]) -> String {
    let mut s = String::new();
    for e in ev {
        match e {
            EncEvent::Block { block_type, raw_fallback, input_size, .. } => {
                s.push_str(match (block_type, raw_fallback) {
                    (0, true) => "F",
                    (0, false) => {
                        if *input_size == 0 {
                            "E"
                        } else {
                            "R"
                        }
                    }
                    (1, _) => "L",
                    _ => "C",
                });
            }
            EncEvent::Literals { mode, raw_fallback, .. } => s.push_str(match (mode, raw_fallback) {
                (0, _) => "r",
                (_, true) => "f",
                (2, _) => "h",
                _ => "t",
            }),
            EncEvent::Sequences { num_sequences } => s.push_str(match num_sequences {
                0 => "0",
                1..=127 => "a",
                128..=0x7EFF => "b",
                _ => "c",
            }),
        }
    }
    s
}

fn collapse(s: &str) -> String {
    let mut out = String::new();
    let mut last = '\0';
    for c in s.chars() {
        if c != last {
            out.push(c);
        }
        last = c;
    }
    out.chars().take(48).collect()
}

/// did a block fall back to raw after a new Huffman table had been kept, and was a later block written treeless before a new table reached the decoder?
fn stale_table_situation(events: &[EncEvent]) -> (bool, bool) {
    let (mut enc_ver, mut dec_ver, mut pending, mut treeless) = (0u32, 0u32, false, false);
    let (mut fallback_kept, mut stale_treeless) = (false, false);
    for e in events {
        match e {
            EncEvent::Literals { mode: 2, raw_fallback: false, .. } => {
                enc_ver += 1;
                pending = true;
            }
            EncEvent::Literals { mode: 3, raw_fallback: false, .. } => treeless = true,
            EncEvent::Block { block_type, last_block, .. } => {
                if *block_type == 2 {
                    if pending {
                        dec_ver = enc_ver;
                    }
                    if treeless && dec_ver != enc_ver {
                        stale_treeless = true;
                    }
                } else if pending {
                    fallback_kept = true;
                }
                pending = false;
                treeless = false;
                if *last_block {
                    enc_ver = 0;
                    dec_ver = 0;
                }
            }
            _ => {}
        }
    }
    (fallback_kept, stale_treeless)
}

/// Compress all jobs with one compressor object; returns the frames and the encoder events per frame
fn compress_jobs(jobs: &[FrameJob]) -> Result<Vec<(Vec<u8>, Vec<EncEvent>)>, Panicked> {
    ruzstd::verif::enc_log_enable(true);
    let res = catch(|| {
        let mut out = Vec::new();
        let first = &jobs[0];
        let mut comp: FrameCompressor<FragReader<'_>, Vec<u8>, ruzstd::encoding::MatchGeneratorDriver> = FrameCompressor::new(level_of(first.level));
        for (k, j) in jobs.iter().enumerate() {
            comp.set_compression_level(level_of(j.level));
            // later frames are sometimes fed by refilling the existing source through source_mut() (the pattern the
            // documentation suggests for endless sources) instead of installing a new one
            let refill = k > 0 && (k + j.data.len()) % 2 == 0;
            match comp.source_mut() {
                Some(src) if refill => {
                    src.data = &j.data;
                    src.pattern = j.pattern.clone();
                    src.calls = 0;
                }
                _ => {
                    comp.set_source(FragReader { data: &j.data, pattern: j.pattern.clone(), calls: 0 });
                }
            }
            comp.set_drain(Vec::new());
            comp.compress();
            let frame = comp.take_drain().unwrap_or_default();
            out.push((frame, ruzstd::verif::take_enc_log()));
        }
        out
    });
    ruzstd::verif::enc_log_enable(false);
    res
}

#[cfg(feature = "model")]
fn walk(frame: &[u8]) -> Option<Result<zspec::walker::FrameInfo, String>> {
    let opts = zspec::walker::WalkOpts { dict: None, max_output: 1 << 30, require_dict_if_id: true };
    Some(zspec::walker::walk_frame(frame, &opts))
}

#[cfg(not(feature = "model"))]
fn walk(_frame: &[u8]) -> Option<Result<(), String>> {
    None
}

struct Judge<'a> {
    rec: &'a Recorder,
    role: &'a str,
}

impl Judge<'_> {
    fn jobs(&self, jobs: Vec<FrameJob>, family: &str) {
        let rec = self.rec;
        rec.eval();
        let total: usize = jobs.iter().map(|j| j.data.len()).sum();
        let replay = if total <= 400_000 {
            json!({"family": family, "jobs": jobs.iter().map(|j| json!({"data": hex(&j.data), "level": j.level, "pattern": j.pattern, "what": j.what})).collect::<Vec<_>>()})
        } else {
            json!({"family": family, "note": "inputs too large to inline: re-run the check with the recorded seed", "jobs": jobs.iter().map(|j| json!({"len": j.data.len(), "level": j.level, "what": j.what})).collect::<Vec<_>>()})
        };
        let frames = match compress_jobs(&jobs) {
            Ok(f) => f,
            Err(p) => {
                rec.panic_violation(&p, &format!("family={family}"), json!({"jobs": jobs.iter().map(|j| j.what.clone()).collect::<Vec<_>>()}), replay);
                return;
            }
        };
        for (k, ((frame, events), job)) in frames.iter().zip(jobs.iter()).enumerate() {
            let ev = events_string(events);
            let (fallback_kept, stale_treeless) = stale_table_situation(events);
            if fallback_kept {
                rec.count("blocks_stored_raw_after_their_huffman_table_was_kept", 1);
            }
            if stale_treeless {
                rec.count("treeless_blocks_referring_to_a_table_the_decoder_never_got", 1);
            }
            {
                // a literals section that fell back to raw inside a block that stayed compressed, and Huffman literals later in the frame
                let mut lit_fallback = false;
                let mut seen = false;
                for e in events.iter() {
                    match e {
                        EncEvent::Literals { mode, raw_fallback, .. } => {
                            if seen && *mode >= 2 && !*raw_fallback {
                                rec.count("huffman_literals_after_a_raw_literals_fallback_inside_a_compressed_block", 1);
                                seen = false;
                            }
                            if *mode >= 2 {
                                lit_fallback = *raw_fallback;
                            }
                        }
                        EncEvent::Block { block_type, last_block, .. } => {
                            if lit_fallback && *block_type == 2 {
                                seen = true;
                            }
                            lit_fallback = false;
                            if *last_block {
                                seen = false;
                            }
                        }
                        _ => {}
                    }
                }
            }
            let site = format!("frame{}of{} level={}", (k + 1).min(2), jobs.len().min(2), job.level);
            let flags = format!("family={family} stale_huffman_table={stale_treeless}");
            let detail = |what: Value| json!({"what": what, "frame_index": k, "input_len": job.data.len(), "input": job.what, "events": ev.chars().take(120).collect::<String>(), "frame_head": hex_brief(frame)});
            match self.role {
                "C02" => {
                    // reference decoder (also verifies the content checksum)
                    match refz::decompress_single(frame) {
                        Ok(d) if d == job.data => {}
                        other => {
                            rec.violation(Sig::new("reference_decoder_rejects", &site, &flags), detail(json!(format!("{:?}", other.map(|d| d.len())))), replay.clone());
                            return;
                        }
                    }
                    // this crate's decoders: multi frame call and streaming reader
                    let own = catch(|| {
                        let mut d = ruzstd::decoding::FrameDecoder::new();
                        let mut out = Vec::with_capacity(job.data.len() + 8);
                        let r1 = d.decode_all_to_vec(frame, &mut out).map(|_| out).map_err(|e| e.to_string());
                        let r2 = match ruzstd::decoding::StreamingDecoder::new(&frame[..]) {
                            Ok(mut s) => {
                                let mut out = Vec::new();
                                std::io::Read::read_to_end(&mut s, &mut out).map(|_| out).map_err(|e| e.to_string())
                            }
                            Err(e) => Err(e.to_string()),
                        };
                        (r1, r2)
                    });
                    match own {
                        Ok((Ok(a), Ok(b))) if a == job.data && b == job.data => {}
                        Ok((a, b)) => {
                            rec.violation(Sig::new("own_decoder_rejects", &site, &flags), detail(json!(format!("decode_all_to_vec {:?} streaming {:?}", a.map(|d| d.len()), b.map(|d| d.len())))), replay.clone());
                            return;
                        }
                        Err(p) => {
                            rec.panic_violation(&p, &format!("decode {flags}"), detail(json!("decoder panic")), replay.clone());
                            return;
                        }
                    }
                }
                "C08" => {
                    // the frame ends with the low 32 bits of XXH64(input), little endian
                    let want = (wlcore::xxh::xxh64(&job.data, 0) as u32).to_le_bytes();
                    let flag = frame.len() > 4 && frame[4] & 4 != 0;
                    if !flag || frame.len() < 4 || frame[frame.len() - 4..] != want {
                        rec.violation(
                            Sig::new("trailer_checksum", &site, &format!("family={family}")),
                            detail(json!({"checksum_flag": flag, "trailer": hex(&frame[frame.len().saturating_sub(4)..]), "xxh64_low32_le": hex(&want)})),
                            replay.clone(),
                        );
                        return;
                    }
                }
                _ => {
                    // C15: size bound and structure
                    let n = job.data.len();
                    let bound = n + 6 + 3 * (n / BLOCK + 1) + 4;
                    if frame.len() > bound {
                        rec.violation(Sig::new("larger_than_raw_framing", &site, &format!("family={family}")), detail(json!({"frame_len": frame.len(), "bound": bound})), replay.clone());
                        return;
                    }
                    if let Some(res) = walk(frame) {
                        #[cfg(feature = "model")]
                        match res {
                            Ok(info) => {
                                if info.frame_len != frame.len() {
                                    rec.violation(Sig::new("bytes_after_frame", &site, &format!("family={family}")), detail(json!({"frame_len_by_walker": info.frame_len, "written": frame.len()})), replay.clone());
                                    return;
                                }
                                if info.output != job.data || info.checksum_ok == Some(false) {
                                    rec.violation(Sig::new("walker_output_differs", &site, &flags), detail(json!({"checksum_ok": info.checksum_ok})), replay.clone());
                                    return;
                                }
                                for f in &info.features {
                                    rec.count(&format!("walker_feature_{f}"), 1);
                                }
                            }
                            Err(rule) => {
                                rec.violation(Sig::new("structure", &site, &format!("{flags} rule={}", rule.chars().filter(|c| !c.is_ascii_digit()).take(60).collect::<String>())), detail(json!(rule)), replay.clone());
                                return;
                            }
                        }
                        #[cfg(not(feature = "model"))]
                        let _ = res;
                    }
                }
            }
            if !events.is_empty() {
                rec.distinct(fnv_str(&format!("{}|{}", job.level, collapse(&ev))));
            }
        }
        rec.count(&format!("family_{family}"), 1);
    }
}

fn frag_pattern(r: &mut Rng, len: usize) -> Vec<usize> {
    match r.below(6) {
        0 => vec![usize::MAX],
        1 if len <= 5000 => vec![1],
        2 => vec![r.usize(1, 70)],
        3 => vec![BLOCK - 1, 1, BLOCK, 2],
        4 => (0..r.usize(2, 6)).map(|_| r.size(1, 200_000)).collect(),
        _ => vec![r.size(1, 70_000)],
    }
}

/// a block worth of literals that the built-in matcher finds (almost) no match in
fn no_match_data(r: &mut Rng, n: usize, alphabet: u64) -> Vec<u8> {
    (0..n).map(|_| r.below(alphabet) as u8).collect()
}

/// shuffled permutations of the symbols 0..=254 (the Huffman code gets one 7 bit and 254 8 bit codes:
/// coding the literals saves only a few dozen bytes per block); `favourite` is made the most frequent symbol
fn perm255(r: &mut Rng, n: usize, favourite: u8) -> Vec<u8> {
    let mut perm: Vec<u8> = (0..=254u8).collect();
    let mut v = Vec::with_capacity(n + 255);
    while v.len() < n {
        for i in (1..perm.len()).rev() {
            let j = r.usize(0, i);
            perm.swap(i, j);
        }
        v.extend_from_slice(&perm);
    }
    v.truncate(n);
    // make the favourite symbol the most frequent one
    for _ in 0..3 {
        let i = r.usize(0, n - 1);
        v[i] = favourite;
    }
    v
}

/// A compressed block whose *literals section* falls back to raw (about 1100 literals over ~200 symbols: the table
/// description costs more than it saves) while the block itself stays compressed because the rest of it is matches,
/// followed by a block with many literals of the same statistics (same symbols, same order of frequencies), for which
/// Huffman coding pays off. A table built for the first block must not be remembered: the decoder never got it.
/// `prior_table`: a block in front installs a table for the same symbols with other code lengths.
fn raw_literals_then_same_stats(r: &mut Rng, prior_table: bool) -> (Vec<u8>, String) {
    let symbols = r.usize(190, 240);
    let first_value = r.usize(0, 255 - symbols) as u8;
    let lits = |r: &mut Rng, times: usize, flipped: bool| -> Vec<u8> {
        let mut v = Vec::new();
        for s in 0..symbols {
            let count = if (s < symbols / 2) != flipped { 6 } else { 5 } * times;
            v.extend(std::iter::repeat(first_value + s as u8).take(count));
        }
        for i in (1..v.len()).rev() {
            let j = r.usize(0, i);
            v.swap(i, j);
        }
        v
    };
    let mut data = Vec::new();
    if prior_table {
        let mut p = lits(r, 130, true);
        p.truncate(BLOCK);
        while p.len() < BLOCK {
            p.push(first_value);
        }
        data.extend(p);
    }
    let run = lits(r, 1, false);
    data.extend(run.iter().copied().cycle().take(BLOCK));
    let times2 = r.usize(15, 60);
    let mut second = lits(r, times2, false);
    second.truncate(BLOCK - 1);
    data.extend(second);
    (data, format!("{symbols} symbols: {}a run of {} literals repeated to fill a block, then {} literals with the same statistics", if prior_table { "a block with other code lengths, " } else { "" }, run.len(), times2 * symbols * 11 / 2))
}

/// Search for a first block that is stored raw although its Huffman table was kept (steered by the encoder event log),
/// then append a block that is coded with "the same" table.
///
/// `same_distance`: all planted repeats of the first block use one distance D, and the second block starts with
/// literals followed by a repeat at exactly that distance - so that anything the discarded block did to the
/// repeat offset history (or any other per-frame encoder state) would be used by the next block.
fn near_break_even(r: &mut Rng, same_distance: bool) -> Option<(Vec<u8>, String)> {
    let fav = r.below(255) as u8;
    let dist = 1000usize;
    for attempt in 0..40 {
        let mut b1 = perm255(r, BLOCK, fav);
        // plant a few short repeats: each sequence costs about as much as it saves
        let repeats = if same_distance { 1 + attempt % 7 } else { attempt % 8 };
        for k in 0..repeats {
            let len = 5 + (k % 2);
            let dst = r.usize(BLOCK / 2 + 10, BLOCK - 10);
            let src = if same_distance { dst - dist } else { r.usize(0, BLOCK / 2) };
            let c = b1[src..src + len].to_vec();
            b1[dst..dst + len].copy_from_slice(&c);
        }
        // probe: how does the compressor treat this block when another block follows?
        let mut probe = b1.clone();
        probe.push(0);
        ruzstd::verif::enc_log_enable(true);
        let ok = catch(|| ruzstd::encoding::compress_to_vec(&probe[..], CompressionLevel::Fastest)).is_ok();
        let ev = ruzstd::verif::take_enc_log();
        ruzstd::verif::enc_log_enable(false);
        if !ok {
            return Some((probe, format!("near_break_even probe attempt {attempt}")));
        }
        let (fallback_kept, _) = stale_table_situation(&ev[..ev.len().min(3)]);
        let first_block_fell_back = ev.iter().find_map(|e| match e {
            EncEvent::Block { raw_fallback, .. } => Some(*raw_fallback),
            _ => None,
        }) == Some(true);
        let first_block_sequences = ev.iter().find_map(|e| match e {
            EncEvent::Sequences { num_sequences } => Some(*num_sequences),
            _ => None,
        }).unwrap_or(0);
        if same_distance {
            if first_block_fell_back && first_block_sequences > 0 {
                // second block: fresh match-free bytes, then a repeat at distance `dist`, then compressible data
                let mut b2 = perm255(r, 3000, fav);
                let p = b2.len();
                let copy: Vec<u8> = b2[p - dist..p - dist + 60].to_vec();
                b2.extend_from_slice(&copy);
                let tail = r.usize(5000, 60_000);
                b2.extend((0..tail).map(|_| if r.chance(2, 3) { fav } else { r.below(255) as u8 }));
                let mut data = b1;
                data.extend_from_slice(&b2);
                return Some((data, format!("discarded block with {first_block_sequences} matches at distance {dist}, next block repeats that distance (attempt {attempt})")));
            }
            continue;
        }
        if fallback_kept {
            // second block: every symbol present, the favourite very frequent: same rank order at the top
            let n2 = r.usize(3000, BLOCK);
            let mut b2: Vec<u8> = (0..n2).map(|_| if r.chance(2, 3) { fav } else { r.below(255) as u8 }).collect();
            for s in 0..255usize {
                let i = r.usize(0, n2 - 1);
                b2[i] = s as u8;
            }
            let mut data = b1;
            data.extend_from_slice(&b2);
            return Some((data, format!("near_break_even attempt {attempt} repeats {repeats}")));
        }
    }
    None
}

pub fn run(args: &Args) -> i32 {
    let role = args.extra.get("role").cloned().unwrap_or_else(|| "C02".to_string());
    let rec = Recorder::new(&role, "exploration", args);
    rec.set_rule(match role.as_str() {
        "C02" => "one evaluation = one compressor object fed 1-6 frames (level switches, fragmenting readers) with every frame decoded by the reference decoder, decode_all_to_vec and StreamingDecoder and compared with the input; distinct_nontrivial = distinct (level, collapsed encoder event string) pairs: the combinations of block types / literal modes / sequence count forms the compressor went through",
        "C08" => "one evaluation = one compressor object fed 1-6 frames; every frame's trailer is compared with the low 32 bits of an independently implemented XXH64 of the input; distinct_nontrivial = distinct (level, collapsed encoder event string) pairs",
        _ => "one evaluation = one compressor object fed 1-6 frames; every frame is checked against the size formula and walked by the strict format walker (every structural rule, offsets against window and produced data); distinct_nontrivial = distinct (level, collapsed encoder event string) pairs",
    });
    rec.assume("levels Default/Better/Best are unimplemented!() in the library and outside 'every implemented level'");
    if let Err(e) = wlcore::xxh::self_test() {
        rec.inconclusive(&format!("harness self test failed: xxh64 {e}"));
        return rec.finish();
    }
    let judge = Judge { rec: &rec, role: &role };

    if let Some(path) = &args.replay {
        let doc: Value = std::fs::read_to_string(path).ok().and_then(|t| serde_json::from_str(&t).ok()).unwrap_or(Value::Null);
        let rp = &doc["replay"];
        let jobs: Option<Vec<FrameJob>> = rp["jobs"].as_array().map(|a| {
            a.iter()
                .filter_map(|j| {
                    Some(FrameJob {
                        data: unhex(j["data"].as_str()?),
                        level: j["level"].as_u64()? as u8,
                        pattern: j["pattern"].as_array()?.iter().map(|x| x.as_u64().unwrap_or(u64::MAX) as usize).collect(),
                        what: "replay".into(),
                    })
                })
                .collect()
        });
        match jobs {
            Some(j) if !j.is_empty() => {
                judge.jobs(j, rp["family"].as_str().unwrap_or("replay"));
                rec.distinct(1);
                rec.distinct(2);
            }
            _ => rec.inconclusive("replay file has no inline inputs: re-run the check with the recorded seed"),
        }
        rec.absorb_feats();
        return rec.finish();
    }

    // ---------------- directed families (fixed matrix, always run)
    let mut directed: Vec<(String, Vec<FrameJob>)> = Vec::new();
    {
        let mut r = Rng::for_case(args.seed, 2, 0);
        let one = |data: Vec<u8>, level: u8, what: &str| vec![FrameJob { data, level, pattern: vec![usize::MAX], what: what.to_string() }];
        for level in [0u8, 1] {
            // lengths: empty, tiny, around the literal thresholds and the block size
            for n in [0usize, 1, 2, 5, 6, 1023, 1024, 1025, 1026, 16383, 16384, 16385, BLOCK - 1, BLOCK, BLOCK + 1, 2 * BLOCK - 1, 2 * BLOCK, 2 * BLOCK + 1, 3 * BLOCK] {
                directed.push(("lengths".into(), one(no_match_data(&mut r, n, 60), level, &format!("60 symbol random, {n} bytes"))));
                directed.push(("lengths".into(), one(wl::gen(&mut r, Shape::Text, n), level, &format!("text, {n} bytes"))));
            }
            // RLE blocks, incompressible blocks (raw fallback), mixed
            directed.push(("rle".into(), one(vec![7u8; 3 * BLOCK + 5], level, "one byte value")));
            directed.push(("raw_fallback".into(), one(wl::gen(&mut r, Shape::Random, 2 * BLOCK + 17), level, "random")));
            let mut mixed = vec![9u8; BLOCK];
            mixed.extend(wl::gen(&mut r, Shape::Random, BLOCK));
            mixed.extend(wl::gen(&mut r, Shape::Text, BLOCK));
            mixed.extend(vec![1u8; 100]);
            directed.push(("mixed_blocks".into(), one(mixed, level, "rle + random + text + rle")));
            // few / many Huffman symbols (direct vs FSE compressed weights)
            for alpha in [2u64, 3, 16, 17, 18, 128, 129, 255, 256] {
                directed.push(("alphabets".into(), one(no_match_data(&mut r, 40_000, alpha), level, &format!("{alpha} symbols"))));
            }
            // treeless reuse: consecutive blocks with the same distribution
            let mut same: Vec<u8> = Vec::new();
            for _ in 0..3 {
                same.extend((0..BLOCK).map(|_| (r.below(12) * r.below(12) / 12) as u8));
            }
            directed.push(("treeless".into(), one(same, level, "three blocks, same skewed distribution")));
            // ... and the same with a later block that brings byte values the kept table has no code for:
            // one above its maximum, one in a gap below it
            for variant in 0..3 {
                let mut v: Vec<u8> = Vec::new();
                for b in 0..4usize {
                    let mut block: Vec<u8> = (0..BLOCK).map(|_| 40 + 2 * (r.below(12) * r.below(12) / 12) as u8).collect();
                    if b >= 1 {
                        for _ in 0..(1 + variant) {
                            let i = r.usize(0, BLOCK - 1);
                            block[i] = match (b + variant) % 3 {
                                0 => 200,  // above the maximum
                                1 => 41,   // in a gap
                                _ => 3,    // below the minimum
                            };
                        }
                    }
                    v.extend(block);
                }
                directed.push(("treeless_new_symbols".into(), one(v, level, "four blocks of one skewed distribution, later blocks add single bytes the kept table cannot code")));
            }
            // long matches, maximal match length codes, match at the far end of the block
            let mut long = wl::gen(&mut r, Shape::Random, 1000);
            let head = long.clone();
            for _ in 0..140 {
                long.extend_from_slice(&head);
            }
            directed.push(("long_matches".into(), one(long, level, "1000 random bytes repeated 140 times")));
            let mut far = wl::gen(&mut r, Shape::Random, BLOCK);
            let tail = far[..300].to_vec();
            far.truncate(BLOCK - 300);
            far.extend_from_slice(&tail);
            directed.push(("far_match".into(), one(far, level, "match at the far end of the block")));
        }
        // many match distance classes used about equally often plus a rare one: the offset code histogram that needs the
        // largest table (same for literal / match length classes)
        for _ in 0..3 {
            let d = wl::flat_offset_classes(&mut r);
            directed.push(("flat_offset_codes".into(), one(d, 1, "matches in many distance classes, equally often")));
        }
        // compressor reuse: hasher, matcher and tables must not leak between frames
        let a = wl::gen(&mut r, Shape::Text, 50_000);
        let b = wl::gen(&mut r, Shape::Skewed, BLOCK + 50_000);
        let c = Vec::new();
        let jobs: Vec<FrameJob> = [(a.clone(), 1u8), (b.clone(), 0), (c, 1), (a, 1), (b, 1)]
            .into_iter()
            .map(|(d, l)| FrameJob { data: d, level: l, pattern: vec![usize::MAX], what: "reuse".into() })
            .collect();
        directed.push(("reuse".into(), jobs));
        // near break even blocks (steered by the encoder event log)
        for k in 0..6 {
            match near_break_even(&mut r, k % 2 == 1) {
                Some((data, what)) => directed.push((if k % 2 == 1 { "discarded_block_state".into() } else { "near_break_even".into() }, vec![FrameJob { data, level: 1, pattern: vec![usize::MAX], what }])),
                None => rec.count("near_break_even_searches_without_hit", 1),
            }
        }
        // a block with one match that is discarded (stored raw: noise with a single 8 byte repeat), then a block whose
        // only sequence has the same literal length code and the same offset code (and really compresses): whatever the
        // compressor remembered from the discarded block (entropy tables for the sequence codes, offsets) is unknown
        // to the decoder
        for k in 0..6usize {
            let p = r.usize(33_000, 60_000);
            let d = r.usize(32_800, p);
            let mut data: Vec<u8> = Vec::new();
            if k % 2 == 1 {
                // a kept compressed block in front (other code histograms)
                data.extend(wl::gen(&mut r, Shape::Text, BLOCK));
            }
            let mut b1 = r.bytes(BLOCK);
            let src: Vec<u8> = b1[p - d..p - d + 8].to_vec();
            b1[p..p + 8].copy_from_slice(&src);
            data.extend(b1);
            let mut b2 = r.bytes(p);
            for _ in 0..20_000 {
                let b = b2[b2.len() - d];
                b2.push(b);
            }
            data.extend(b2);
            if k >= 4 {
                // and once more: discarded, then kept
                let mut b3 = r.bytes(BLOCK);
                let src: Vec<u8> = b3[p - d..p - d + 8].to_vec();
                b3[p..p + 8].copy_from_slice(&src);
                data.extend(b3);
                let mut b4 = r.bytes(p);
                for _ in 0..9_000 {
                    let b = b4[b4.len() - d];
                    b4.push(b);
                }
                data.extend(b4);
            }
            directed.push(("discarded_block_then_same_codes".into(), vec![FrameJob { data, level: 1, pattern: vec![usize::MAX], what: format!("noise with one 8 byte repeat after {p} literals at distance {d}, then {p} literals and a long match at the same distance") }]));
        }
        for k in 0..6 {
            let (data, what) = raw_literals_then_same_stats(&mut r, k % 2 == 1);
            directed.push(("raw_literals_in_compressed_block".into(), vec![FrameJob { data, level: 1, pattern: vec![usize::MAX], what }]));
        }
    }
    rec.count("directed_cases", directed.len() as u64);
    use rayon::prelude::*;
    directed.into_par_iter().enumerate().for_each(|(k, (family, jobs))| {
        let _g = case_guard(200, k as u64);
        judge.jobs(jobs, &family);
        rec.absorb_feats();
    });

    // ---------------- random part
    let n = args.vol(8000, 150_000);
    par_cases(&rec, 21, n, |i, r| {
        let nframes = if r.chance(1, 4) { r.usize(2, 6) } else { 1 };
        let mut jobs = Vec::new();
        for _ in 0..nframes {
            let shape = wl::random_shape(r);
            let max = if args.thorough() && r.chance(1, 50) { 8 << 20 } else if r.chance(1, 6) { 700_000 } else { 150_000 };
            let len = wl::interesting_len(r, max);
            let data = wl::gen(r, shape, len);
            let pattern = frag_pattern(r, len);
            jobs.push(FrameJob { data, level: r.below(2) as u8, pattern, what: format!("{shape:?} {len} bytes") });
        }
        if i < 5 {
            rec.sample(json!({"frames": jobs.iter().map(|j| json!({"input": j.what, "level": j.level, "read_pattern": j.pattern.iter().map(|p| (*p).min(1 << 40)).collect::<Vec<_>>()})).collect::<Vec<_>>()}));
        }
        judge.jobs(jobs, "random");
    });

    rec.set_extra("exhaustive", json!(false));
    rec.set_extra("format_model_compiled_in", json!(cfg!(feature = "model")));
    for f in ["enc_blk_rle", "enc_blk_raw", "enc_blk_compressed", "enc_blk_raw_fallback", "enc_blk_empty", "enc_lit_raw", "enc_lit_huf_new", "enc_lit_huf_treeless", "enc_lit_raw_fallback", "enc_huf_weights_direct", "enc_huf_weights_fse", "enc_seq_none", "enc_seqnum_1byte", "enc_seqnum_2byte"] {
        if rec.feat(f) == 0 {
            rec.inconclusive(&format!("coverage floor: encoder path {f} was never taken"));
        }
    }
    rec.finish()
}
