//! C01 Decoder reproduces the original data for every valid Zstandard frame.
//!
//! Differential: every frame comes with the bytes that were compressed (encoder input, or the
//! synthesiser plan's executed output, both confirmed by the reference decoder). Each frame is
//! decoded through all four front ends; output and reported metadata must match.

use crate::common::*;
use crate::frames::{self, FrameCase};
use crate::refz;
use ruzstd::decoding::{BlockDecodingStrategy, FrameDecoder, StreamingDecoder};
use serde_json::json;

pub const FRONTS: [&str; 4] = ["streaming", "decode_blocks+collect", "decode_all_to_vec", "decode_from_to"];

/// decode `bytes` through one front end
pub fn decode_with(front: usize, bytes: &[u8], expected_len: usize, dict: Option<&[u8]>) -> Result<(Vec<u8>, u64, Option<u32>), String> {
    decode_with_force(front, bytes, expected_len, dict, false)
}

/// `force`: the frame does not name its dictionary, the caller has to select it (only possible with front ends 0 and 1)
pub fn decode_with_force(front: usize, bytes: &[u8], expected_len: usize, dict: Option<&[u8]>, force: bool) -> Result<(Vec<u8>, u64, Option<u32>), String> {
    let mut dict_id = 0u32;
    let mut mk = || -> Result<FrameDecoder, String> {
        let mut d = FrameDecoder::new();
        d.set_max_window_size(u64::MAX);
        if let Some(raw) = dict {
            let dd = ruzstd::decoding::Dictionary::decode_dict(raw).map_err(|e| format!("dictionary: {e}"))?;
            dict_id = dd.id;
            d.add_dict(dd).map_err(|e| e.to_string())?;
        }
        Ok(d)
    };
    match front {
        0 => {
            let mut d = mk()?;
            let mut s = StreamingDecoder::new_with_decoder(bytes, &mut d).map_err(|e| format!("init: {e}"))?;
            if force {
                s.decoder.force_dict(dict_id).map_err(|e| format!("force_dict: {e}"))?;
            }
            let mut out = Vec::with_capacity(expected_len);
            std::io::Read::read_to_end(&mut s, &mut out).map_err(|e| format!("read: {e}"))?;
            drop(s);
            Ok((out, d.content_size(), d.get_checksum_from_data()))
        }
        1 => {
            let mut d = mk()?;
            let mut src = bytes;
            d.reset(&mut src).map_err(|e| format!("init: {e}"))?;
            if force {
                d.force_dict(dict_id).map_err(|e| format!("force_dict: {e}"))?;
            }
            d.decode_blocks(&mut src, BlockDecodingStrategy::All).map_err(|e| format!("decode: {e}"))?;
            let out = d.collect().unwrap_or_default();
            Ok((out, d.content_size(), d.get_checksum_from_data()))
        }
        2 => {
            let mut d = mk()?;
            let mut out = Vec::with_capacity(expected_len);
            d.decode_all_to_vec(bytes, &mut out).map_err(|e| format!("decode: {e}"))?;
            Ok((out, d.content_size(), d.get_checksum_from_data()))
        }
        _ => {
            let mut d = mk()?;
            let mut out = Vec::with_capacity(expected_len);
            let mut target = vec![0u8; 64 * 1024];
            let mut pos = 0usize;
            let mut idle = 0;
            loop {
                let (r, w) = d.decode_from_to(&bytes[pos..], &mut target).map_err(|e| format!("decode: {e}"))?;
                pos += r;
                out.extend_from_slice(&target[..w]);
                if r == 0 && w == 0 {
                    idle += 1;
                    if idle > 2 {
                        break;
                    }
                } else {
                    idle = 0;
                }
                if out.len() > expected_len + (1 << 20) {
                    return Err("decode_from_to produces more than expected".into());
                }
            }
            if !d.is_finished() {
                return Err("decode_from_to: not finished after the whole frame was given".into());
            }
            Ok((out, d.content_size(), d.get_checksum_from_data()))
        }
    }
}

pub fn judge(rec: &Recorder, c: &FrameCase, fronts: &[usize]) {
    rec.eval();
    let info = match frames::walk(&c.bytes, c.dict.as_deref()) {
        Ok(i) => i,
        Err(e) => {
            // the model must accept what the reference decoder accepted: a harness problem, not a violation
            rec.count("frames_the_model_rejects", 1);
            rec.count(&format!("model_rejects: {}", e.chars().take(60).collect::<String>()), 1);
            return;
        }
    };
    if info.output != c.expected {
        rec.inconclusive(&format!("harness: the model decodes {} differently from its origin", c.origin));
        return;
    }
    let feats: Vec<&str> = info.features.iter().copied().collect();
    let origin_class: String = c.origin.split(':').next().unwrap_or("?").to_string();
    let replay = json!({"frame": if c.bytes.len() <= 200_000 { hex(&c.bytes) } else { format!("(len {}) re-run with the recorded seed", c.bytes.len()) }, "dict": c.dict.as_ref().map(|d| hex(d)), "origin": c.origin});
    // a frame that uses a dictionary without naming it: the caller has to select the dictionary
    let force = c.dict.is_some() && info.header.dict_id.is_none();
    for &f in fronts {
        if force && f >= 2 {
            continue;
        }
        let res = catch(|| decode_with_force(f, &c.bytes, c.expected.len(), c.dict.as_deref(), force));
        rec.absorb_feats();
        let site = FRONTS[f];
        match res {
            Err(p) => {
                rec.panic_violation(&p, &format!("valid frame, {origin_class}"), json!({"front_end": site, "origin": c.origin, "features": feats}), replay.clone());
                return;
            }
            Ok(Err(e)) => {
                rec.violation(
                    Sig::new("valid_frame_rejected", site, &format!("{origin_class}: {}", e.chars().filter(|ch| !ch.is_ascii_digit()).take(70).collect::<String>())),
                    json!({"error": e, "origin": c.origin, "features": feats, "expected_len": c.expected.len()}),
                    replay.clone(),
                );
                return;
            }
            Ok(Ok((out, content_size, stored))) => {
                if out != c.expected {
                    let pos = out.iter().zip(c.expected.iter()).position(|(a, b)| a != b).unwrap_or(out.len().min(c.expected.len()));
                    rec.violation(
                        Sig::new("wrong_output", site, &origin_class),
                        json!({"origin": c.origin, "features": feats, "got_len": out.len(), "expected_len": c.expected.len(), "first_difference_at": pos}),
                        replay.clone(),
                    );
                    return;
                }
                // metadata as the header declares it
                let want_fcs = info.header.fcs.unwrap_or(0);
                if content_size != want_fcs {
                    rec.violation(Sig::new("content_size", site, &format!("fcs_field_len={}", info.header.fcs_field_len)), json!({"reported": content_size, "declared": info.header.fcs, "origin": c.origin}), replay.clone());
                    return;
                }
                if stored.is_some() != info.header.checksum || (info.header.checksum && stored != info.checksum) {
                    rec.violation(Sig::new("checksum_presence", site, &origin_class), json!({"reported": stored, "declared_flag": info.header.checksum, "stored_in_frame": info.checksum, "origin": c.origin}), replay.clone());
                    return;
                }
            }
        }
    }
    if info.blocks.iter().any(|b| b.btype == 2) {
        rec.distinct(fnv_str(&feats.join(",")));
    }
    for f in &feats {
        rec.count(&format!("walker_feature_{f}"), 1);
    }
    rec.count(&format!("origin_{origin_class}"), 1);
}

pub fn run(args: &Args) -> i32 {
    let rec = Recorder::new("C01", "exploration", args);
    rec.set_rule("one evaluation = one valid frame (confirmed by the reference decoder) decoded through all four front ends with output and metadata compared; distinct_nontrivial = distinct feature vectors (as tagged by the independent frame walker: block / literals / table / offset / header features) among frames with at least one compressed block");
    rec.assume("a synthesised frame counts only if the reference decoder accepts it and agrees with the plan; frames the model walker rejects are counted and skipped (never a violation)");
    if let Err(e) = frames::self_test(args.seed) {
        rec.inconclusive(&e);
        return rec.finish();
    }
    let all = [0usize, 1, 2, 3];

    if let Some(path) = &args.replay {
        let doc: serde_json::Value = std::fs::read_to_string(path).ok().and_then(|t| serde_json::from_str(&t).ok()).unwrap_or_default();
        let rp = &doc["replay"];
        match rp["frame"].as_str().filter(|s| !s.starts_with('(')) {
            Some(h) => {
                let bytes = unhex(h);
                let dict = rp["dict"].as_str().map(unhex);
                let expected = match &dict {
                    None => crate::refz::decompress_single(&bytes),
                    Some(d) => crate::refz::decompress_with_dict(&bytes, d),
                };
                match expected {
                    Ok(expected) => {
                        judge(&rec, &FrameCase { bytes, expected, origin: format!("replay: {}", rp["origin"].as_str().unwrap_or("")), dict }, &all);
                        rec.distinct(1);
                        rec.distinct(2);
                    }
                    Err(e) => rec.inconclusive(&format!("the reference decoder rejects the replayed frame: {e}")),
                }
            }
            None => rec.inconclusive("replay file has no inline frame: re-run the check with the recorded seed"),
        }
        return rec.finish();
    }

    // directed part: the synthesiser's feature matrix and the repository corpus
    use rayon::prelude::*;
    let matrix = frames::synth_matrix();
    rec.count("feature_matrix_plans_confirmed_by_reference", matrix.len() as u64);
    let small_only = args.build.starts_with("asan");
    matrix.par_iter().enumerate().for_each(|(k, c)| {
        if small_only && c.expected.len() > (8 << 20) {
            return;
        }
        let _g = case_guard(100, k as u64);
        judge(&rec, c, &all)
    });
    frames::corpus().par_iter().enumerate().for_each(|(k, c)| {
        let _g = case_guard(101, k as u64);
        judge(&rec, c, &all)
    });

    // a frame whose content does not fit 32 bits: 8 byte Frame_Content_Size, 32 769 RLE blocks (131 KB of frame, 4 GiB + 1234 bytes of content)
    if !small_only {
        rec.eval();
        let total: u64 = (1u64 << 32) + 1234;
        let mut f = vec![0x28, 0xB5, 0x2F, 0xFD, 0xC0, 0x38];
        f.extend_from_slice(&total.to_le_bytes());
        let mut left = total;
        while left > 0 {
            let n = left.min(128 * 1024) as u32;
            left -= u64::from(n);
            let hdr = (n << 3) | (1 << 1) | u32::from(left == 0);
            f.extend_from_slice(&hdr.to_le_bytes()[..3]);
            f.push(0x5A);
        }
        // the reference implementation reads the same declared size from the header (and, in the thorough tier, decodes the frame)
        let declared = zstd_safe::get_frame_content_size(&f).ok().flatten();
        let mut reference_ok = declared == Some(total);
        if reference_ok && args.thorough() {
            let mut d = zstd::stream::Decoder::new(&f[..]).unwrap();
            let mut buf = vec![0u8; 1 << 20];
            let mut n = 0u64;
            loop {
                match std::io::Read::read(&mut d, &mut buf) {
                    Ok(0) => break,
                    Ok(k) => n += k as u64,
                    Err(_) => {
                        n = 0;
                        break;
                    }
                }
            }
            reference_ok = n == total;
        }
        if !reference_ok {
            rec.inconclusive("harness: the reference implementation does not agree with the hand built 4 GiB frame");
        } else {
            let res = catch(|| {
                let mut s = StreamingDecoder::new(&f[..]).map_err(|e| e.to_string())?;
                let reported = s.decoder.content_size();
                let mut buf = vec![0u8; 1 << 20];
                let mut n = 0u64;
                let mut all_right = true;
                loop {
                    match std::io::Read::read(&mut s, &mut buf) {
                        Ok(0) => break,
                        Ok(k) => {
                            n += k as u64;
                            all_right &= buf[..k].iter().all(|b| *b == 0x5A);
                        }
                        Err(e) => return Err(e.to_string()),
                    }
                }
                Ok::<_, String>((reported, n, all_right, s.decoder.bytes_read_from_source()))
            });
            let replay = json!({"frame": "hand built: magic, descriptor 0xC0, window descriptor 0x38, FCS 2^32+1234 (8 bytes), RLE blocks of 128 KiB of 0x5A", "origin": "huge frame"});
            match res {
                Err(p) => rec.panic_violation(&p, "frame with more than 4 GiB of content", json!({}), replay),
                Ok(Err(e)) => rec.violation(Sig::new("valid_frame_rejected", "streaming", "frame with more than 4 GiB of content"), json!({"error": e}), replay),
                Ok(Ok((reported, n, all_right, consumed))) => {
                    if reported != total {
                        rec.violation(Sig::new("content_size", "streaming", "fcs_field_len=8 value >= 2^32"), json!({"reported": reported, "declared": total}), replay);
                    } else if n != total || !all_right || consumed != f.len() as u64 {
                        rec.violation(Sig::new("wrong_output", "streaming", "frame with more than 4 GiB of content"), json!({"bytes": n, "expected": total, "all_bytes_right": all_right, "consumed": consumed, "frame_len": f.len()}), replay);
                    } else {
                        rec.count("frames_with_more_than_4gib_of_content", 1);
                    }
                }
            }
        }
    }

    // valid frames whose sequences use the largest codes that fit into a block together with offsets of 16 MiB and more
    // (offset codes 24..=27, up to 58 extra bits in one sequence): tens of MiB of RLE blocks, then compressed blocks whose
    // matches reach back to the beginning. One after the other (each holds a few hundred MiB while it runs).
    if !small_only {
        use zspec::frame::HeaderSpec;
        use zspec::synth::{BlockPlan, CompressedPlan, CountForm, FramePlan, LitPlan, OffsetPlan, SeqPlan, TableMode};
        let mut r = Rng::for_case(args.seed, 1, 77);
        let of_codes: &[u32] = if args.thorough() { &[24, 25, 26, 27, 28] } else { &[24, 26, 27] };
        for &of_code in of_codes {
            let base: u64 = 1 << of_code;
            let nblocks = (base / (128 * 1024)) as usize + 3;
            let mut blocks: Vec<BlockPlan> = (0..nblocks).map(|i| BlockPlan::Rle { byte: (i * 7 + 3) as u8, len: 128 * 1024 }).collect();
            // (ll, ml): codes 35+51 (16+15 bits), 34+51 (15+15), 35+50 (16+14), small ones in front to shift the bit alignment
            // the widest sequences (58 bits and more with offset codes from 27) at many bit alignments
            let mut shapes: Vec<(u32, u32)> = vec![(65_536u32, 32_771u32), (40_000, 60_000), (70_000, 20_000), (65_600, 32_800)];
            if of_code >= 27 {
                shapes.extend((0..14u32).map(|j| (65_536 + j * 37, 32_771 + j * 101)));
            }
            for (k, (ll, ml)) in shapes.into_iter().enumerate() {
                let mut seqs = Vec::new();
                for _ in 0..k {
                    seqs.push(SeqPlan { ll: 1, ml: 3, offset: OffsetPlan::Raw(1) });
                }
                // the distance keeps the offset value inside the code: 2^code <= distance + 3 < 2^(code+1), and inside the data
                let distance = (base - 3 + r.range(0, 100_000)) as u32;
                seqs.push(SeqPlan { ll, ml, offset: OffsetPlan::Raw(distance) });
                // ... and behind it: the stream is read backwards and ends byte aligned, so the alignment of the wide
                // read depends on what follows it
                let after = k / 2 + k % 3;
                for j in 0..after {
                    seqs.push(SeqPlan { ll: (j % 3) as u32, ml: 3 + (j % 5) as u32, offset: OffsetPlan::Raw(1 + (j % 7) as u32) });
                }
                let nlit = (ll as usize) + k + 3 * after + r.usize(0, 20);
                let modes = match k % 3 {
                    0 => (TableMode::Predefined, TableMode::Predefined, TableMode::Predefined),
                    1 => (TableMode::Fse { acc_log: None, norm: None }, TableMode::Fse { acc_log: None, norm: None }, TableMode::Fse { acc_log: None, norm: None }),
                    _ => (TableMode::Predefined, TableMode::Fse { acc_log: None, norm: None }, TableMode::Predefined),
                };
                blocks.push(BlockPlan::Compressed(CompressedPlan { literals: r.bytes(nlit), lit: LitPlan::Raw { size_format: None }, seqs, ll_mode: modes.0, of_mode: modes.1, ml_mode: modes.2, seq_count_form: CountForm::Auto }));
            }
            // window: the next power of two above everything, so that every distance is inside it
            let window_log = of_code + 1;
            let plan = FramePlan { header: HeaderSpec { window_descriptor: Some(((window_log - 10) << 3) as u8), ..Default::default() }, blocks, dict: None, checksum_override: None };
            let s = zspec::synth::synthesise(&plan);
            if !s.rule_violations.is_empty() {
                rec.inconclusive(&format!("harness: far offset plan (offset code {of_code}) breaks a rule: {:?}", s.rule_violations.first()));
                continue;
            }
            match refz::decompress_expecting(&s.bytes, s.expected.len()) {
                Ok(d) if d == s.expected => {}
                other => {
                    rec.inconclusive(&format!("harness: the reference decoder does not agree with the far offset plan (offset code {of_code}): {:?}", other.map(|d| d.len())));
                    continue;
                }
            }
            let c = FrameCase { bytes: s.bytes, expected: s.expected, origin: format!("synth: far offsets, offset code {of_code}, largest literal and match length codes"), dict: None };
            let _g = case_guard(102, u64::from(of_code));
            judge(&rec, &c, &[0, 2, 3]);
            rec.count("far_offset_frames", 1);
        }
    }

    // random part
    let n = args.vol(6000, 200_000);
    par_cases(&rec, 1, n, |i, r| {
        let max = if args.thorough() && r.chance(1, 200) { 64 << 20 } else if r.chance(1, 10) { 1 << 20 } else { 200_000 };
        let c = match r.below(10) {
            0..=2 => match frames::synth_random(r, max.min(500_000)) {
                Some(c) => c,
                None => {
                    rec.count("synthesised_frames_the_reference_rejects", 1);
                    return;
                }
            },
            3 => frames::seq_frame(r),
            _ => frames::libzstd_frame(r, max),
        };
        if i < 6 {
            rec.sample(json!({"origin": c.origin, "frame_len": c.bytes.len(), "content_len": c.expected.len(), "frame_head": hex(&c.bytes[..c.bytes.len().min(24)])}));
        }
        judge(&rec, &c, &all);
    });

    rec.set_extra("exhaustive", json!(false));
    if rec.counter("synthesised_frames_the_reference_rejects") * 50 > n {
        rec.inconclusive("too many synthesised frames are rejected by the reference decoder: generator invalid");
    }
    // coverage floor: what the directed part guarantees
    for f in [
        "lit_raw", "lit_rle", "lit_compressed", "lit_treeless", "lit_1stream", "lit_4streams", "lit_size_format_0", "lit_size_format_1", "lit_size_format_2", "lit_size_format_3", "huf_weights_direct", "huf_weights_fse",
        "seq_count_1byte", "seq_count_2byte", "seq_count_3byte", "seq_ll_predefined", "seq_ll_rle", "seq_ll_fse", "seq_ll_repeat", "seq_of_predefined", "seq_of_rle", "seq_of_fse", "seq_of_repeat", "seq_ml_predefined", "seq_ml_rle",
        "seq_ml_fse", "seq_ml_repeat", "exec_rep1", "exec_rep2", "exec_rep3", "exec_rep1_ll0", "exec_rep2_ll0", "exec_rep3_ll0", "buf_repeat_chunked", "bits_triple_fast", "blk_raw", "blk_rle", "blk_compressed", "fh_single_segment", "fh_checksum", "fh_fcs_1",
        "fh_fcs_2", "fh_fcs_4", "fh_fcs_8",
    ] {
        if rec.feat(f) == 0 {
            rec.inconclusive(&format!("coverage floor: decoder path {f} was never executed"));
        }
    }
    rec.finish()
}
