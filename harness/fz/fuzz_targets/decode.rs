//! C03 under coverage guided fuzzing: bytes -> (entry point, flags, [dictionary], input) -> wlcore::hostile::drive.
//! Oracles: the panic (libFuzzer aborts), AddressSanitizer, libFuzzer's per-input timeout, and the known-good frame
//! that `drive` decodes on the same decoder afterwards. Every artifact is re-judged by the native monitor.
#![no_main]
use libfuzzer_sys::fuzz_target;

fuzz_target!(|data: &[u8]| {
    if data.len() < 2 {
        return;
    }
    let entry = (data[0] % wlcore::hostile::ENTRY_POINTS.len() as u8) as usize;
    let (aux, input) = wlcore::hostile::split_fuzz_input(entry, data);
    let outcome = wlcore::hostile::drive(entry, input, aux, true);
    if outcome.starts_with("REUSE-FAILED") {
        panic!("{outcome}");
    }
});
