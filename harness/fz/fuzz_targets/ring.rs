//! C04 under coverage guided fuzzing: the bytes are the decisions of the ring buffer / decode buffer workloads of
//! wlcore::ring (tape mode of the generator), every operation is followed by the model comparison.
//! Oracles: model mismatch (panic), AddressSanitizer.
#![no_main]
use libfuzzer_sys::fuzz_target;
use wlcore::ring::*;
use wlcore::Rng;

fuzz_target!(|data: &[u8]| {
    if data.len() < 4 {
        return;
    }
    let mut r = Rng::from_tape(&data[1..]);
    match data[0] % 3 {
        0 => {
            let cap = *r.pick(&[17usize, 33, 65, 129]);
            let head = r.usize(0, cap - 1);
            let tail = r.usize(0, cap - 1);
            let mut m = RingMon::construct(NoProbe, cap, head, tail).unwrap_or_else(|e| panic!("construct: {e}"));
            let mut n = 0;
            while !r.exhausted() && n < 40 {
                n += 1;
                let op = m.random_op(&mut r, 80);
                if let Err(e) = m.apply(&op) {
                    panic!("RING-VIOLATION construct ({cap},{head},{tail}) then {op:?}: {e}");
                }
            }
        }
        1 => {
            let mut m = RingMon::new(NoProbe);
            let max_len = *r.pick(&[30usize, 100, 600, 5000]);
            let mut n = 0;
            while !r.exhausted() && n < 300 {
                n += 1;
                let op = m.random_op(&mut r, max_len);
                if let Err(e) = m.apply(&op) {
                    panic!("RING-VIOLATION {op:?}: {e}");
                }
            }
        }
        _ => {
            let window = *r.pick(&[1usize, 8, 64, 300, 4096]);
            let dict: Vec<u8> = if r.chance(1, 2) { (0..r.usize(1, 100)).map(|x| (x % 190) as u8).collect() } else { Vec::new() };
            let mut m = DecBufMon::new(window, &dict);
            m.max_chunk = 400;
            let mut n = 0;
            while !r.exhausted() && n < 300 {
                n += 1;
                if let Err(e) = m.step(&mut r) {
                    panic!("DECBUF-VIOLATION {e}");
                }
            }
        }
    }
});
