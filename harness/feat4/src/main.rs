//! C18 driver. Reads a workload file (one item per line, written by `mon c18`), runs every item
//! through ruzstd using only `ruzstd::io::{Read, Write}` (std traits or the crate's own no_std
//! replacements, depending on how this binary was built) and prints one digest line per item.
//! The four builds must print the same lines (up to what the hash feature legitimately changes).

use ruzstd::decoding::{BlockDecodingStrategy, FrameDecoder, StreamingDecoder};
use ruzstd::encoding::{CompressionLevel, FrameCompressor};
use ruzstd::io::{Error, ErrorKind, Read, Write};

fn fnv(data: &[u8]) -> u64 {
    let mut h: u64 = 0xcbf29ce484222325;
    for b in data {
        h ^= u64::from(*b);
        h = h.wrapping_mul(0x100000001b3);
    }
    h
}

fn unhex(s: &str) -> Vec<u8> {
    (0..s.len() / 2)
        .map(|i| u8::from_str_radix(&s[2 * i..2 * i + 2], 16).unwrap_or(0))
        .collect()
}

/// hands out `chunk` bytes per call, reports Interrupted before every `interrupt`-th call
struct Src<'a> {
    data: &'a [u8],
    chunk: usize,
    interrupt: usize,
    calls: usize,
}

impl Read for Src<'_> {
    fn read(&mut self, buf: &mut [u8]) -> Result<usize, Error> {
        self.calls += 1;
        if self.interrupt != 0 && self.calls % self.interrupt == 0 {
            return Err(Error::from(ErrorKind::Interrupted));
        }
        let n = buf.len().min(self.chunk.max(1)).min(self.data.len());
        buf[..n].copy_from_slice(&self.data[..n]);
        self.data = &self.data[n..];
        Ok(n)
    }
}

/// accepts `per_write` bytes per call, reports Interrupted before every `interrupt`-th call
struct Sink {
    got: Vec<u8>,
    per_write: usize,
    interrupt: usize,
    calls: usize,
}

impl Write for Sink {
    fn write(&mut self, buf: &[u8]) -> Result<usize, Error> {
        self.calls += 1;
        if self.interrupt != 0 && self.calls % self.interrupt == 0 {
            return Err(Error::from(ErrorKind::Interrupted));
        }
        let n = buf.len().min(self.per_write.max(1));
        self.got.extend_from_slice(&buf[..n]);
        Ok(n)
    }
    fn flush(&mut self) -> Result<(), Error> {
        Ok(())
    }
}

/// name of the error variant: the part of the Debug output in front of the payload
fn variant<E: core::fmt::Debug>(e: &E) -> String {
    let s = format!("{e:?}");
    s.split(|c: char| !(c.is_alphanumeric() || c == '_'))
        .next()
        .unwrap_or("")
        .to_string()
}

fn get<'a>(fields: &'a [(&'a str, &'a str)], key: &str) -> &'a str {
    fields.iter().find(|(k, _)| *k == key).map(|(_, v)| *v).unwrap_or("")
}

fn num(fields: &[(&str, &str)], key: &str) -> usize {
    get(fields, key).parse().unwrap_or(0)
}

fn compress_item(fields: &[(&str, &str)]) -> String {
    let data = unhex(get(fields, "data"));
    let level = if num(fields, "level") == 0 {
        CompressionLevel::Uncompressed
    } else {
        CompressionLevel::Fastest
    };
    let frames = num(fields, "frames").max(1);
    let take = num(fields, "take");
    let mut out = String::new();
    let mut sink = Sink {
        got: Vec::new(),
        per_write: num(fields, "per_write"),
        interrupt: num(fields, "wint"),
        calls: 0,
    };
    // one compressor reused for `frames` frames of (a rotation of) the data
    let mut inputs: Vec<Vec<u8>> = Vec::new();
    let mut rotated = data.clone();
    for f in 0..frames {
        if f > 0 && !rotated.is_empty() {
            let k = (f * 131) % rotated.len();
            rotated.rotate_left(k);
        }
        inputs.push(rotated.clone());
    }
    let src0 = Src { data: &[], chunk: 1, interrupt: 0, calls: 0 };
    let mut comp = FrameCompressor::new(level);
    comp.set_source(src0.take(0));
    comp.set_drain(&mut sink);
    let mut expected_total = Vec::new();
    for input in &inputs {
        let limit = if take == 0 { input.len() as u64 } else { (take as u64).min(input.len() as u64) };
        // the compressor unwraps errors of its source in every build, so the source does not fail
        let src = Src { data: input, chunk: num(fields, "chunk"), interrupt: 0, calls: 0 };
        comp.set_source(src.take(limit));
        comp.compress();
        expected_total.extend_from_slice(&input[..limit as usize]);
    }
    drop(comp);
    let frame = sink.got;
    // decode what we wrote with this build's decoder
    let mut dec = FrameDecoder::new();
    let mut decoded = vec![0u8; expected_total.len() + 16];
    let res = dec.decode_all(&frame, &mut decoded);
    let decode_ok = matches!(res, Ok(n) if decoded[..n] == expected_total[..]);
    // what the hash feature legitimately changes: descriptor bit 2 and the four trailer bytes (per frame;
    // only normalised for single frame items, multi frame items are compared within the same hash setting)
    let mut norm = frame.clone();
    if frames == 1 && norm.len() > 4 {
        if cfg!(feature = "hash") {
            norm.truncate(norm.len() - 4);
        }
        norm[4] &= !0x04;
    }
    out.push_str(&format!(
        "compress len={} raw_fnv={:016x} norm_fnv={:016x} decode_ok={}",
        frame.len(),
        fnv(&frame),
        if frames == 1 { fnv(&norm) } else { 0 },
        decode_ok
    ));
    if cfg!(feature = "hash") && frames == 1 && frame.len() >= 4 {
        let t = &frame[frame.len() - 4..];
        out.push_str(&format!(" trailer={:02x}{:02x}{:02x}{:02x}", t[0], t[1], t[2], t[3]));
    }
    out
}

fn decode_item(fields: &[(&str, &str)]) -> String {
    let frame = unhex(get(fields, "frame"));
    let front = get(fields, "front");
    let chunk = num(fields, "chunk");
    let rint = num(fields, "rint");
    let readsize = num(fields, "readsize").max(1);
    let mut tape: Vec<u8> = Vec::new();
    let mut outcome = String::from("ok");
    #[allow(unused_mut)]
    let mut calc: Option<u32> = None;
    let mut stored: Option<u32> = None;
    let mut consumed: u64 = 0;
    match front {
        "stream" | "stream_take" | "stream_exact" => {
            let src = Src { data: &frame, chunk, interrupt: rint, calls: 0 };
            match StreamingDecoder::new(src) {
                Err(e) => outcome = format!("err_init {}", variant(&e)),
                Ok(mut s) => {
                    let mut buf = vec![0u8; readsize];
                    if front == "stream_exact" {
                        // read_exact in pieces until it fails with EOF
                        loop {
                            match s.read_exact(&mut buf) {
                                Ok(()) => tape.extend_from_slice(&buf),
                                Err(e) => {
                                    outcome = format!("exact_end kind_eof={}", e.kind() == ErrorKind::UnexpectedEof);
                                    break;
                                }
                            }
                            if tape.len() > (64 << 20) {
                                break;
                            }
                        }
                    } else {
                        let limit = if front == "stream_take" { num(fields, "take") as u64 } else { u64::MAX };
                        let mut t = (&mut s).take(limit);
                        loop {
                            match t.read(&mut buf) {
                                Ok(0) => break,
                                Ok(n) => tape.extend_from_slice(&buf[..n]),
                                Err(e) => {
                                    outcome = format!("err_read other={}", e.kind() == ErrorKind::Other);
                                    break;
                                }
                            }
                        }
                    }
                    consumed = s.decoder.bytes_read_from_source();
                    stored = s.decoder.get_checksum_from_data();
                    #[cfg(feature = "hash")]
                    {
                        calc = s.decoder.get_calculated_checksum();
                    }
                }
            }
        }
        "blocks" => {
            let mut src = Src { data: &frame, chunk, interrupt: rint, calls: 0 };
            let mut dec = FrameDecoder::new();
            match dec.reset(&mut src) {
                Err(e) => outcome = format!("err_init {}", variant(&e)),
                Ok(()) => {
                    let mut sink = Sink { got: Vec::new(), per_write: num(fields, "per_write"), interrupt: num(fields, "wint"), calls: 0 };
                    let strat = num(fields, "strat");
                    loop {
                        let s = match strat {
                            0 => BlockDecodingStrategy::All,
                            1 => BlockDecodingStrategy::UptoBlocks(1),
                            _ => BlockDecodingStrategy::UptoBytes(strat),
                        };
                        match dec.decode_blocks(&mut src, s) {
                            Err(e) => {
                                outcome = format!("err_decode {}", variant(&e));
                                break;
                            }
                            Ok(_) => {}
                        }
                        // the writer drain may stop on Interrupted: retry until nothing is collectable
                        let mut guard = 0;
                        while dec.can_collect() > 0 && guard < 1_000_000 {
                            guard += 1;
                            match dec.collect_to_writer(&mut sink) {
                                Ok(_) => {}
                                Err(e) if e.kind() == ErrorKind::Interrupted => {}
                                Err(_) => break,
                            }
                        }
                        if dec.is_finished() {
                            break;
                        }
                    }
                    tape = sink.got;
                    consumed = dec.bytes_read_from_source();
                    stored = dec.get_checksum_from_data();
                    #[cfg(feature = "hash")]
                    {
                        calc = dec.get_calculated_checksum();
                    }
                }
            }
        }
        "collect" => {
            // stepwise decoding with the Vec returning collect(), the decoder's own read() and steps without any drain
            // mixed; whatever is left is taken by a final collect()
            let mut src = Src { data: &frame, chunk, interrupt: rint, calls: 0 };
            let mut dec = FrameDecoder::new();
            match dec.reset(&mut src) {
                Err(e) => outcome = format!("err_init {}", variant(&e)),
                Ok(()) => {
                    let strat = num(fields, "strat");
                    let kind = num(fields, "take");
                    let mut buf = vec![0u8; readsize];
                    let mut step = 0usize;
                    loop {
                        let s = match strat {
                            0 | 1 => BlockDecodingStrategy::UptoBlocks(1),
                            _ => BlockDecodingStrategy::UptoBytes(strat),
                        };
                        match dec.decode_blocks(&mut src, s) {
                            Err(e) => {
                                outcome = format!("err_decode {}", variant(&e));
                                break;
                            }
                            Ok(_) => {}
                        }
                        match (step + kind) % 3 {
                            0 => {
                                if let Some(v) = dec.collect() {
                                    tape.extend_from_slice(&v);
                                }
                            }
                            1 => loop {
                                match dec.read(&mut buf) {
                                    Ok(0) | Err(_) => break,
                                    Ok(n) => tape.extend_from_slice(&buf[..n]),
                                }
                            },
                            _ => {}
                        }
                        step += 1;
                        if dec.is_finished() || step > 1_000_000 {
                            break;
                        }
                    }
                    if let Some(v) = dec.collect() {
                        tape.extend_from_slice(&v);
                    }
                    consumed = dec.bytes_read_from_source();
                    stored = dec.get_checksum_from_data();
                    #[cfg(feature = "hash")]
                    {
                        calc = dec.get_calculated_checksum();
                    }
                }
            }
        }
        "all" | "all_vec" => {
            // the multi frame calls on slices; the target is `take` bytes large
            let cap = num(fields, "take");
            let mut dec = FrameDecoder::new();
            if front == "all" {
                let mut out = vec![0u8; cap];
                match dec.decode_all(&frame, &mut out) {
                    Ok(n) => tape.extend_from_slice(&out[..n]),
                    Err(e) => outcome = format!("err_decode {}", variant(&e)),
                }
            } else {
                let mut out: Vec<u8> = Vec::with_capacity(cap);
                out.extend_from_slice(b"prefix");
                match dec.decode_all_to_vec(&frame, &mut out) {
                    Ok(()) => {}
                    Err(e) => outcome = format!("err_decode {}", variant(&e)),
                }
                tape = out;
            }
            consumed = dec.bytes_read_from_source();
            stored = dec.get_checksum_from_data();
            #[cfg(feature = "hash")]
            {
                calc = dec.get_calculated_checksum();
            }
        }
        _ => {
            // slice to slice with the source cut into chunks
            let mut dec = FrameDecoder::new();
            let mut pos = 0usize;
            let mut target = vec![0u8; readsize];
            let mut stalls = 0;
            let chunk = chunk.max(32);
            let mut end = chunk.min(frame.len());
            loop {
                match dec.decode_from_to(&frame[pos..end], &mut target) {
                    Err(e) => {
                        outcome = format!("err_decode {}", variant(&e));
                        break;
                    }
                    Ok((r, w)) => {
                        pos += r;
                        tape.extend_from_slice(&target[..w]);
                        if r == 0 && w == 0 {
                            if end == frame.len() {
                                stalls += 1;
                                if stalls > 2 {
                                    if !dec.is_finished() {
                                        outcome = String::from("stalled");
                                    }
                                    break;
                                }
                            }
                            end = (end + chunk).min(frame.len());
                        } else if end < pos + chunk {
                            end = (pos + chunk).min(frame.len());
                        }
                        if pos > frame.len() {
                            outcome = String::from("overread");
                            break;
                        }
                    }
                }
            }
            consumed = dec.bytes_read_from_source();
            stored = dec.get_checksum_from_data();
            #[cfg(feature = "hash")]
            {
                calc = dec.get_calculated_checksum();
            }
        }
    }
    let mut line = format!(
        "decode {} len={} out_fnv={:016x} consumed={} stored={:?}",
        outcome,
        tape.len(),
        fnv(&tape),
        consumed,
        stored
    );
    if cfg!(feature = "hash") {
        line.push_str(&format!(" calc={calc:?}"));
    }
    line
}

fn main() {
    let path = std::env::args().nth(1).expect("workload file");
    let text = std::fs::read_to_string(path).expect("read workload");
    println!(
        "feat4 std={} hash={}",
        cfg!(feature = "std"),
        cfg!(feature = "hash")
    );
    for (i, line) in text.lines().enumerate() {
        let mut parts = line.split(' ');
        let kind = parts.next().unwrap_or("");
        let fields: Vec<(&str, &str)> = parts.filter_map(|p| p.split_once('=')).collect();
        let res = std::panic::catch_unwind(|| match kind {
            "compress" => compress_item(&fields),
            "decode" => decode_item(&fields),
            _ => String::from("skip"),
        });
        match res {
            Ok(s) => println!("{i} {s}"),
            Err(_) => println!("{i} PANIC"),
        }
    }
}
