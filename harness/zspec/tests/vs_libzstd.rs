//! Self-tests of the model against libzstd 1.5.7 (through the `zstd` crate). These are the trust
//! anchor of `zspec`: the walker must decode everything libzstd produces, and libzstd must decode
//! everything the synthesiser produces to exactly the expected content.

use std::io::Write;

use zspec::rng::Rng;
use zspec::walker::{walk_frame, WalkOpts};
use zstd::zstd_safe::CParameter;

// ---------------------------------------------------------------------------------------------
// Input shapes
// ---------------------------------------------------------------------------------------------

const WORDS: &[&str] = &[
    "the", "of", "and", "compression", "zstandard", "frame", "block", "literal", "sequence", "offset",
    "match", "length", "table", "entropy", "huffman", "finite", "state", "window", "dictionary", "a",
    "to", "in", "is", "that", "it", "for", "with", "as", "was", "on", "be", "at", "by", "this", "\n",
    "Lorem", "ipsum", "dolor", "sit", "amet,", "consectetur", "adipiscing", "elit.", "0123456789",
];

fn gen_input(rng: &mut Rng, shape: u64, len: usize) -> Vec<u8> {
    let mut v = Vec::with_capacity(len + 64);
    match shape {
        0 => {
            v.resize(len, 0);
            rng.fill(&mut v);
        }
        1 => {
            // small skewed alphabet
            let k = rng.range(2, 20);
            while v.len() < len {
                let a = rng.below(k);
                let b = rng.below(k);
                v.push(b'a' + a.min(b) as u8);
            }
        }
        2 => {
            while v.len() < len {
                v.extend_from_slice(rng.pick(WORDS).as_bytes());
                v.push(b' ');
            }
        }
        3 => {
            // fresh data interleaved with copies from far back
            while v.len() < len {
                if v.len() > 64 && rng.chance(2, 3) {
                    let n = rng.log_range(4, 3000) as usize;
                    let dist = rng.log_range(1, v.len() as u64) as usize;
                    let start = v.len() - dist;
                    for i in 0..n {
                        let b = v[start + i];
                        v.push(b);
                    }
                } else {
                    let n = rng.log_range(1, 2000) as usize;
                    let at = v.len();
                    v.resize(at + n, 0);
                    rng.fill(&mut v[at..]);
                }
            }
        }
        4 => {
            while v.len() < len {
                let n = rng.log_range(1, 5000) as usize;
                let b = rng.below(256) as u8;
                v.resize(v.len() + n, b);
            }
        }
        6 => {
            // one block of noise, then blocks made of copies separated by a constant byte: the
            // literals of those blocks are all equal (RLE literals)
            let first = len.min(131072);
            v.resize(first, 0);
            rng.fill(&mut v);
            while v.len() < len {
                let n = rng.range(20, 300) as usize;
                let start = rng.below((first - n.min(first)) as u64 + 1) as usize;
                for i in 0..n.min(first) {
                    let b = v[start + i];
                    v.push(b);
                }
                v.push(b'q');
            }
        }
        _ => {
            // mixture
            while v.len() < len {
                let sub = rng.below(5);
                let n = rng.log_range(1, 40_000) as usize;
                let part = gen_input(rng, sub, n);
                v.extend_from_slice(&part);
            }
        }
    }
    v.truncate(len);
    v
}

fn pick_len(rng: &mut Rng, i: usize) -> usize {
    match i % 16 {
        0 => 0,
        1 => rng.range(1, 16) as usize,
        2 => (1 << 20) - rng.below(3) as usize,
        3 => rng.range(100_000, 400_000) as usize,
        4 => 131072 + rng.range(0, 2) as usize - 1,
        _ => rng.log_range(1, 200_000) as usize,
    }
}

// ---------------------------------------------------------------------------------------------
// 1. xxh64
// ---------------------------------------------------------------------------------------------

#[test]
fn t1_xxh64_matches_libzstd_checksum() {
    let mut rng = Rng::new(0x11);
    for i in 0..200 {
        let len = rng.log_range(0, 100_000) as usize;
        let data = gen_input(&mut rng, (i % 6) as u64, len);
        let mut c = zstd::bulk::Compressor::new(1).unwrap();
        c.include_checksum(true).unwrap();
        let frame = c.compress(&data).unwrap();
        let stored = u32::from_le_bytes(frame[frame.len() - 4..].try_into().unwrap());
        assert_eq!(stored, zspec::xxh64::xxh64(&data, 0) as u32, "len {len}");
        assert_eq!(stored, zspec::xxh64::frame_checksum(&data));
    }
}

// ---------------------------------------------------------------------------------------------
// 3. Walker vs libzstd-produced frames
// ---------------------------------------------------------------------------------------------

fn check_walk(frame: &[u8], data: &[u8], what: &str) -> zspec::walker::FrameInfo {
    let info = walk_frame(frame, &WalkOpts::default()).unwrap_or_else(|e| panic!("{what}: walker rejected: {e}"));
    assert_eq!(info.frame_len, frame.len(), "{what}: frame_len");
    assert!(info.output == data, "{what}: output differs");
    if info.header.checksum {
        assert_eq!(info.checksum_ok, Some(true), "{what}: checksum");
    } else {
        assert_eq!(info.checksum_ok, None);
    }
    info
}

#[test]
fn t3_walker_decodes_libzstd_frames() {
    let mut rng = Rng::new(0x33);
    let mut features = std::collections::BTreeSet::new();
    let mut n_frames = 0usize;
    let mut n_bytes = 0usize;
    let n_inputs = 600;
    for i in 0..n_inputs {
        let len = pick_len(&mut rng, i);
        let shape = rng.below(8);
        let data = gen_input(&mut rng, shape, len);
        // two parameter sets per input
        for rep in 0..2 {
            let level = if len > 300_000 { rng.range(0, 12) as i32 - 5 } else { rng.range(0, 24) as i32 - 5 };
            let checksum = rng.chance(1, 2);
            let content_size = rng.chance(2, 3);
            let what = format!("input {i} shape {shape} len {len} level {level} rep {rep}");
            let frame = if rng.chance(3, 4) {
                let mut c = zstd::bulk::Compressor::new(level).unwrap();
                c.include_checksum(checksum).unwrap();
                c.include_contentsize(content_size).unwrap();
                if rng.chance(1, 2) {
                    c.set_parameter(CParameter::WindowLog(rng.range(10, 24) as u32)).unwrap();
                }
                if rng.chance(1, 8) {
                    c.set_parameter(CParameter::EnableLongDistanceMatching(true)).unwrap();
                }
                if rng.chance(1, 6) {
                    c.set_parameter(CParameter::TargetCBlockSize(rng.log_range(1340, 60_000) as u32)).unwrap();
                }
                if rng.chance(1, 8) {
                    c.set_parameter(CParameter::MinMatch(rng.range(3, 7) as u32)).unwrap();
                }
                c.compress(&data).unwrap()
            } else {
                // streaming: no content size unless pledged, data written in pieces
                let mut e = zstd::stream::Encoder::new(Vec::new(), level).unwrap();
                e.include_checksum(checksum).unwrap();
                if rng.chance(1, 2) {
                    e.set_parameter(CParameter::WindowLog(rng.range(10, 22) as u32)).unwrap();
                }
                let mut pos = 0;
                while pos < data.len() {
                    let n = (rng.log_range(1, 100_000) as usize).min(data.len() - pos);
                    e.write_all(&data[pos..pos + n]).unwrap();
                    if rng.chance(1, 10) {
                        e.flush().unwrap(); // forces a block boundary
                    }
                    pos += n;
                }
                e.finish().unwrap()
            };
            let info = check_walk(&frame, &data, &what);
            features.extend(info.features.iter().copied());
            n_frames += 1;
            n_bytes += data.len();
        }
    }
    println!("t3: {n_frames} libzstd frames ({n_bytes} content bytes) walked; features seen: {features:?}");
    assert!(n_frames >= 1200);
    for f in ["blk_raw", "blk_rle", "blk_compressed", "lit_raw", "lit_rle", "lit_huf", "lit_treeless", "lit_1s",
              "lit_4s", "huf_fse", "seq_0", "seq_cnt1", "seq_cnt2", "ll_predef", "ll_fse", "ll_repeat", "of_rle",
              "ml_rle", "rep1", "rep1_ll0", "overlap_match", "multi_block", "checksum", "single_segment"] {
        assert!(features.contains(f), "libzstd corpus never exercised {f}");
    }
}

#[test]
fn t3_walker_handles_concatenation_and_trailing_bytes() {
    let a = zstd::bulk::compress(b"hello hello hello hello", 3).unwrap();
    let b = zstd::bulk::compress(&[7u8; 5000], 3).unwrap();
    let mut all = a.clone();
    all.extend_from_slice(&zspec::frame::skippable_frame(5, b"skip me"));
    all.extend_from_slice(&b);
    let segs = zspec::walker::walk_all(&all, &WalkOpts::default()).unwrap();
    assert_eq!(segs.len(), 3);
    let info = walk_frame(&all, &WalkOpts::default()).unwrap();
    assert_eq!(info.frame_len, a.len());
    // libzstd agrees on the concatenation (skippable frames are skipped)
    let out = zstd::stream::decode_all(&all[..]).unwrap();
    assert_eq!(out.len(), 23 + 5000);
    // truncation at every position is an error
    for cut in 0..a.len() {
        assert!(walk_frame(&a[..cut], &WalkOpts::default()).is_err(), "cut {cut}");
    }
    let small = WalkOpts { max_output: 100, ..WalkOpts::default() };
    assert!(walk_frame(&b, &small).is_err());
}

// ---------------------------------------------------------------------------------------------
// 4. Synthesiser vs libzstd
// ---------------------------------------------------------------------------------------------

use zspec::dict::{parse_dict, write_dict, Dict};
use zspec::synth::{self, FramePlan, Synthesised};

/// One-shot libzstd decode (no window limit applies in this mode).
fn libzstd_decode(bytes: &[u8], dict: Option<&[u8]>, capacity: usize) -> Result<Vec<u8>, String> {
    let mut d = match dict {
        Some(d) => zstd::bulk::Decompressor::with_dictionary(d),
        None => zstd::bulk::Decompressor::new(),
    }
    .map_err(|e| e.to_string())?;
    d.decompress(bytes, capacity).map_err(|e| e.to_string())
}

/// Streaming libzstd decode; this path uses a window-sized ring buffer, so it also checks that
/// the declared window really covers every offset.
fn libzstd_decode_streaming(bytes: &[u8], dict: Option<&[u8]>) -> Result<Vec<u8>, String> {
    use std::io::Read;
    let mut out = Vec::new();
    let mut dec = match dict {
        Some(d) => zstd::stream::Decoder::with_dictionary(bytes, d),
        None => zstd::stream::Decoder::with_buffer(bytes),
    }
    .map_err(|e| e.to_string())?;
    dec.read_to_end(&mut out).map_err(|e| e.to_string())?;
    Ok(out)
}

struct Verdict {
    libzstd_ok: bool,
    walker_ok: bool,
}

fn check_plan(name: &str, plan: &FramePlan, must_pass: bool) -> (Verdict, Synthesised, Option<zspec::walker::FrameInfo>) {
    let s = synth::synthesise(plan);
    assert!(s.rule_violations.is_empty(), "{name}: valid plan reports violations {:?}", s.rule_violations);
    let dict_bytes = plan.dict.as_ref().map(write_dict);
    let lib = libzstd_decode(&s.bytes, dict_bytes.as_deref(), s.expected.len() + 64);
    let libzstd_ok = match &lib {
        Ok(out) => {
            assert!(out == &s.expected, "{name}: libzstd output differs from expected");
            true
        }
        Err(e) => {
            assert!(!must_pass, "{name}: libzstd rejected: {e}");
            false
        }
    };
    let window = zspec::frame::parse_frame_header(&s.bytes).unwrap().window_size;
    if libzstd_ok && window <= 8 << 20 {
        let out = libzstd_decode_streaming(&s.bytes, dict_bytes.as_deref())
            .unwrap_or_else(|e| panic!("{name}: libzstd streaming rejected: {e}"));
        assert!(out == s.expected, "{name}: libzstd streaming output differs from expected");
    }
    let opts = WalkOpts { dict: plan.dict.as_ref(), max_output: 2 << 30, require_dict_if_id: true };
    let (walker_ok, info) = match walk_frame(&s.bytes, &opts) {
        Ok(info) => {
            assert!(info.output == s.expected, "{name}: walker output differs from expected");
            assert_eq!(info.frame_len, s.bytes.len(), "{name}: frame_len");
            assert_eq!(info.checksum_ok, plan.header.checksum.then_some(true), "{name}: checksum");
            let offs: Vec<usize> = info.blocks.iter().map(|b| b.offset).collect();
            assert_eq!(offs, s.block_offsets, "{name}: block offsets");
            (true, Some(info))
        }
        Err(e) => {
            assert!(!must_pass, "{name}: walker rejected: {e}");
            (false, None)
        }
    };
    (Verdict { libzstd_ok, walker_ok }, s, info)
}

#[test]
fn t4_feature_matrix_accepted_by_libzstd_and_walker() {
    let matrix = synth::feature_matrix();
    let mut seen = std::collections::BTreeSet::new();
    let mut per_plan = std::collections::BTreeMap::new();
    for (name, plan) in &matrix {
        let (_, _, info) = check_plan(name, plan, true);
        let info = info.unwrap();
        seen.extend(info.features.iter().copied());
        per_plan.insert(name.clone(), info);
    }
    println!("t4: feature_matrix: {} plans, all accepted by libzstd and the walker", matrix.len());
    println!("t4: features covered: {seen:?}");
    // Every feature tag except the ones libzstd rejects must be covered by the matrix.
    for f in zspec::walker::ALL_FEATURES {
        let lenient = f.starts_with("x_") && *f != "x_block_not_smaller";
        assert!(lenient || *f == "unused_bit" || seen.contains(f), "feature_matrix never exercises {f}");
    }
    // Spot checks: the named plan really does what its name says.
    let has = |plan: &str, tag: &str| {
        let info = per_plan.get(plan).unwrap_or_else(|| panic!("no plan {plan}"));
        assert!(info.features.contains(tag), "{plan} lacks {tag}: {:?}", info.features);
    };
    has("lit_huf_4s_sf3_big", "lit_sf3");
    has("lit_huf_4s_sf3_big", "lit_4s");
    has("lit_huf_4s_sf2", "lit_sf2");
    has("lit_huf_1s", "lit_1s");
    has("huf_direct", "huf_direct");
    has("huf_fse", "huf_fse");
    has("huf_256_symbols_11_bits", "huf_fse");
    has("seq_count_32512", "seq_cnt3");
    has("seq_count_32511", "seq_cnt2");
    has("seq_count_127", "seq_cnt1");
    has("seq_count_1_two_byte_form", "seq_cnt2");
    has("offset_codes_0_26_and_57_extra_bits", "extra_bits_gt56");
    has("dict_matches_id2", "dict_match");
    has("dict_matches_id2", "dictid2");
    has("rep_codes_ll_zero", "rep3_ll0");
    has("modes_chain", "ml_repeat");
    assert_eq!(per_plan["offset_codes_0_26_and_57_extra_bits"].blocks.last().unwrap().sequences.as_ref().unwrap().max_of_code, 26);
    assert!(per_plan["lit_huf_4s_sf3_big"].blocks[0].literals.as_ref().unwrap().regen > 16383);
    let info = &per_plan["seq_count_43000"];
    assert_eq!(info.blocks[1].sequences.as_ref().unwrap().nseq, 43000);
}

#[test]
fn t4_unused_bit_is_ignored() {
    let (_, plan) = synth::feature_matrix().into_iter().find(|(n, _)| n == "hdr_fcs4_300").unwrap();
    let mut s = synth::synthesise(&plan);
    zspec::frame::set_unused_bit(&mut s.bytes);
    assert_eq!(libzstd_decode(&s.bytes, None, 1000).unwrap(), s.expected);
    let info = walk_frame(&s.bytes, &WalkOpts::default()).unwrap();
    assert!(info.features.contains("unused_bit"));
    assert_eq!(info.output, s.expected);
}

fn run_random(seed: u64, n: usize, dict: Option<&Dict>) -> (usize, usize, usize, std::collections::BTreeSet<&'static str>) {
    let mut rng = Rng::new(seed);
    let (mut lib_ok, mut walk_ok, mut bytes) = (0, 0, 0);
    let mut seen = std::collections::BTreeSet::new();
    for i in 0..n {
        let max_total = match i % 10 {
            0 => 300_000,
            1 | 2 => 40_000,
            _ => 4_000,
        };
        let plan = match dict {
            Some(d) => synth::random_plan_with_dict(&mut rng, d, max_total),
            None => synth::random_plan(&mut rng, max_total),
        };
        let name = format!("random plan seed {seed:#x} #{i}");
        let (v, s, info) = check_plan(&name, &plan, false);
        lib_ok += v.libzstd_ok as usize;
        walk_ok += v.walker_ok as usize;
        bytes += s.expected.len();
        if let Some(info) = info {
            seen.extend(info.features.iter().copied());
        }
    }
    (lib_ok, walk_ok, bytes, seen)
}

#[test]
fn t4_random_plans_accepted_by_libzstd_and_walker() {
    let n = 5000;
    let (lib_ok, walk_ok, bytes, seen) = run_random(0x4444, n, None);
    println!("t4: random_plan: {n} frames ({bytes} content bytes): libzstd accepted {lib_ok}, walker accepted {walk_ok}");
    println!("t4: random_plan features: {seen:?}");
    assert!(lib_ok as f64 >= 0.995 * n as f64);
    assert!(walk_ok as f64 >= 0.995 * n as f64);
    for f in ["lit_raw", "lit_rle", "lit_huf", "lit_treeless", "lit_1s", "lit_4s", "huf_direct", "huf_fse", "seq_0", "seq_cnt1",
              "seq_cnt2", "ll_predef", "ll_rle", "ll_fse", "ll_repeat", "of_predef", "of_rle", "of_fse", "of_repeat", "ml_predef",
              "ml_rle", "ml_fse", "ml_repeat", "rep1", "rep2", "rep3", "rep1_ll0", "rep2_ll0", "rep3_ll0", "overlap_match",
              "single_segment", "fcs1", "fcs2", "fcs4", "fcs8", "multi_block", "blk_raw", "blk_rle"] {
        assert!(seen.contains(f), "random plans never exercised {f}");
    }
}

#[test]
fn t4_random_plans_with_dictionary() {
    let mut total = (0, 0, 0);
    let mut seen = std::collections::BTreeSet::new();
    let per_dict = 130;
    let ndicts = 5;
    for di in 0..ndicts {
        let mut rng = Rng::new(0xD1C0 + di);
        let id = [7u32, 300, 70_000, 0xFFFF_FFFF, 255][di as usize];
        let content_len = [8usize, 100, 5000, 70_000, 1500][di as usize];
        let dict = synth::make_dict(&mut rng, id, content_len);
        // our dictionary serialisation round-trips and libzstd accepts it (checked by decoding)
        assert_eq!(parse_dict(&write_dict(&dict)).unwrap(), dict);
        let (l, w, b, s) = run_random(0x5555 + di, per_dict, Some(&dict));
        total = (total.0 + l, total.1 + w, total.2 + b);
        seen.extend(s);
    }
    let n = per_dict * ndicts as usize;
    println!("t4: random_plan_with_dict: {n} frames ({} content bytes): libzstd accepted {}, walker accepted {}", total.2, total.0, total.1);
    assert!(n >= 500);
    assert!(total.0 as f64 >= 0.995 * n as f64);
    assert!(total.1 as f64 >= 0.995 * n as f64);
    for f in ["dict_match", "dictid1", "dictid2", "dictid4", "lit_treeless", "ll_repeat", "of_repeat", "ml_repeat"] {
        assert!(seen.contains(f), "dictionary plans never exercised {f}");
    }
}

// ---------------------------------------------------------------------------------------------
// 5. Invalid plans are rejected
// ---------------------------------------------------------------------------------------------

#[test]
fn t5_hostile_plans_are_rejected_by_walker() {
    let matrix = synth::hostile_matrix();
    let mut lib_rejects = 0;
    for (name, plan) in &matrix {
        let s = synth::synthesise(plan);
        assert!(!s.rule_violations.is_empty(), "{name}: no rule violation reported");
        let opts = WalkOpts { dict: plan.dict.as_ref(), max_output: 64 << 20, require_dict_if_id: true };
        let r = walk_frame(&s.bytes, &opts);
        assert!(r.is_err(), "{name}: walker accepted a frame violating {:?}", s.rule_violations);
        let dict_bytes = plan.dict.as_ref().map(write_dict);
        let cap = (s.expected.len() + 64).min(64 << 20);
        match libzstd_decode(&s.bytes, dict_bytes.as_deref(), cap) {
            Err(_) => lib_rejects += 1,
            Ok(out) => println!("t5: note: libzstd one-shot ACCEPTS {name} ({} bytes) although: {:?}", out.len(), s.rule_violations),
        }
        println!("t5: {name}: walker: {}", r.err().unwrap());
    }
    println!("t5: {} hostile plans, all rejected by the walker, {lib_rejects} rejected by libzstd one-shot", matrix.len());
}

// ---------------------------------------------------------------------------------------------
// 6. Round trips of the table descriptions (also covered by unit tests inside the crate)
// ---------------------------------------------------------------------------------------------

#[test]
fn t6_description_roundtrips() {
    let mut rng = Rng::new(0x66);
    for _ in 0..2000 {
        let log = rng.range(5, 9) as u8;
        let nsym = rng.range(2, 53.min(1 << log)) as usize;
        let mut counts = vec![0u32; nsym];
        for c in counts.iter_mut() {
            *c = if rng.chance(1, 3) { 0 } else { rng.log_range(1, 5000) as u32 };
        }
        counts[0] += 1;
        counts[nsym - 1] += 1;
        let norm = zspec::fse::normalize_with(&counts, log, rng.chance(1, 2));
        let bytes = zspec::fse::write_ncount(&norm, log);
        let (n2, l2, used) = zspec::fse::read_ncount(&bytes, 9, 52).unwrap();
        assert_eq!((n2, l2, used), (norm, log, bytes.len()));
    }
    for _ in 0..1000 {
        let mut counts = [0u32; 256];
        let k = rng.range(2, 256);
        for _ in 0..k {
            counts[rng.below(256) as usize] += rng.log_range(1, 10_000) as u32;
        }
        if counts.iter().filter(|&&c| c > 0).count() < 2 {
            counts[3] += 1;
            counts[200] += 1;
        }
        let lengths = zspec::huf::lengths_from_counts(&counts, 11);
        let (w, _) = zspec::huf::lengths_to_weights(&lengths);
        if w.len() <= 128 {
            let d = zspec::huf::write_description_direct(&w);
            assert_eq!(zspec::huf::read_description(&d).unwrap(), (w.clone(), d.len()));
        }
        if let Some(d) = zspec::huf::write_description_fse(&w) {
            assert_eq!(zspec::huf::read_description(&d).unwrap(), (w.clone(), d.len()));
        }
    }
}

// ---------------------------------------------------------------------------------------------
// Extra: dictionaries trained by libzstd, and robustness against corrupted input
// ---------------------------------------------------------------------------------------------

#[test]
fn t7_libzstd_trained_dictionary() {
    let mut rng = Rng::new(0x77);
    let samples: Vec<Vec<u8>> = (0..400).map(|_| { let n = rng.range(200, 2000) as usize; gen_input(&mut rng, 2, n) }).collect();
    let dict_bytes = zstd::dict::from_samples(&samples, 16 * 1024).expect("dictionary training failed");
    let dict = parse_dict(&dict_bytes).expect("walker cannot parse a libzstd dictionary");
    assert_eq!(parse_dict(&write_dict(&dict)).unwrap(), dict);
    let mut features = std::collections::BTreeSet::new();
    for i in 0..200 {
        let n = rng.log_range(1, 50_000) as usize;
        let data = gen_input(&mut rng, 2, n);
        let level = rng.range(1, 19) as i32;
        let mut c = zstd::bulk::Compressor::with_dictionary(level, &dict_bytes).unwrap();
        c.include_checksum(true).unwrap();
        if i % 3 == 0 {
            c.include_dictid(false).unwrap();
        }
        let frame = c.compress(&data).unwrap();
        let opts = WalkOpts { dict: Some(&dict), max_output: 1 << 30, require_dict_if_id: true };
        let info = walk_frame(&frame, &opts).unwrap_or_else(|e| panic!("dict frame {i}: {e}"));
        assert!(info.output == data, "dict frame {i}: output differs");
        assert_eq!(info.checksum_ok, Some(true));
        features.extend(info.features.iter().copied());
        // without the dictionary the frame must not decode to the same thing silently
        if info.features.contains("dict_match") {
            assert!(walk_frame(&frame, &WalkOpts::default()).is_err());
        }
    }
    println!("t7: features with a libzstd-trained dictionary: {features:?}");
    assert!(features.contains("dict_match"));
}

#[test]
fn t8_corrupted_frames_never_panic_and_agree_with_libzstd() {
    let mut rng = Rng::new(0x88);
    let mut corpus: Vec<Vec<u8>> = Vec::new();
    for i in 0..60 {
        let n = rng.log_range(1, 20_000) as usize;
        let data = gen_input(&mut rng, i % 7, n);
        let mut c = zstd::bulk::Compressor::new(rng.range(1, 15) as i32).unwrap();
        c.include_checksum(i % 2 == 0).unwrap();
        corpus.push(c.compress(&data).unwrap());
    }
    for _ in 0..140 {
        let plan = synth::random_plan(&mut rng, 5000);
        corpus.push(synth::synthesise(&plan).bytes);
    }
    let (mut both_ok, mut both_err, mut only_walker, mut only_lib, mut lenient, mut walker_lenient) = (0, 0, 0, 0, 0, 0);
    let mut notes = std::collections::BTreeMap::<String, usize>::new();
    // strip numbers so that similar messages group together
    let generic = |e: &str| -> String { e.chars().map(|c| if c.is_ascii_digit() { '#' } else { c }).collect() };
    for (ci, frame) in corpus.iter().enumerate() {
        for _ in 0..100 {
            let mut m = frame.clone();
            match rng.below(4) {
                0 => { let i = rng.below(m.len() as u64) as usize; m[i] ^= 1 << rng.below(8); }
                1 => { let i = rng.below(m.len() as u64) as usize; m[i] = rng.below(256) as u8; }
                2 => { let n = rng.range(1, m.len() as u64 - 1) as usize; m.truncate(n); }
                _ => { for _ in 0..3 { let i = rng.below(m.len() as u64) as usize; m[i] ^= 1 << rng.below(8); } }
            }
            let opts = WalkOpts { max_output: 8 << 20, dict: None, require_dict_if_id: true };
            let w = walk_frame(&m, &opts);
            let l = libzstd_decode(&m, None, 8 << 20);
            match (&w, &l) {
                (Ok(info), Ok(out)) => {
                    // libzstd verifies the checksum; the walker only reports it
                    assert!(info.checksum_ok != Some(false), "libzstd accepted a frame with a bad checksum?");
                    assert_eq!(info.frame_len, m.len());
                    assert!(&info.output == out, "corpus {ci}: outputs differ");
                    both_ok += 1;
                }
                (Err(_), Err(_)) => both_err += 1,
                (Ok(info), Err(e)) => {
                    // legitimate reasons: bad checksum (the walker reports instead of failing) and
                    // bytes left after the frame (the walker stops at the end of the frame)
                    // ... and windows above libzstd's limit of 2^31 (the format allows more)
                    let big_window = info.header.window_descriptor.is_some_and(|wd| wd >> 3 > 21);
                    if info.checksum_ok == Some(false) || info.frame_len < m.len() || big_window {
                        both_err += 1;
                    } else {
                        // constructs tagged x_*: legal by the RFC text, rejected by libzstd
                        let x: Vec<&str> = info.features.iter().copied().filter(|f| f.starts_with("x_") && *f != "x_block_not_smaller").collect();
                        if x.is_empty() {
                            only_walker += 1;
                        } else {
                            walker_lenient += 1;
                        }
                        *notes.entry(format!("walker OK / libzstd ERR ({e}) lenient tags {x:?} window {}", info.header.window_size)).or_default() += 1;
                    }
                }
                (Err(e), Ok(_)) => {
                    // Known leniencies of libzstd 1.5.7 in one-shot mode:
                    // * its fast Huffman decoder does not verify that each stream ends exactly at
                    //   its first bit (nor that it never reads before it);
                    // * raw and RLE blocks are only limited by the output capacity, not by
                    //   Block_Maximum_Size.
                    let known = e.contains("huffman stream:")
                        || e.starts_with("RLE block: regenerated size")
                        || e.starts_with("raw block: Block_Size");
                    if known {
                        lenient += 1;
                    } else {
                        only_lib += 1;
                    }
                    *notes.entry(format!("walker ERR ({}) / libzstd OK", generic(e))).or_default() += 1;
                }
            }
        }
    }
    println!("t8: mutated frames: both accept {both_ok}, both reject {both_err}, libzstd lenient (known) {lenient}, walker lenient (x_ tags) {walker_lenient}, unexplained: only walker accepts {only_walker}, only libzstd accepts {only_lib}");
    for (n, c) in &notes {
        println!("t8:   {c:4} x {n}");
    }
    assert_eq!((only_walker, only_lib), (0, 0), "unexplained disagreements between the walker and libzstd");
}

#[test]
fn t8_garbage_never_panics() {
    let mut rng = Rng::new(0x99);
    for i in 0..20_000 {
        let n = rng.log_range(0, 300) as usize;
        let mut v = vec![0u8; n];
        rng.fill(&mut v);
        if i % 2 == 0 && n >= 6 {
            v[..4].copy_from_slice(&zspec::frame::MAGIC.to_le_bytes());
            v[4] &= !0x08; // keep the reserved bit clear to get deeper
            if i % 4 == 0 {
                v[4] |= 0x20; // single segment: no window descriptor
            }
        }
        let opts = WalkOpts { max_output: 1 << 20, ..WalkOpts::default() };
        let _ = walk_frame(&v, &opts);
        let _ = zspec::walker::walk_all(&v, &opts);
        let _ = parse_dict(&v);
        let _ = zspec::fse::read_ncount(&v, 9, 52);
        let _ = zspec::huf::read_description(&v);
    }
}

/// The 1 GiB plan (offset codes 27..=30). Run with `--ignored`; needs about 4 GiB of memory.
#[test]
#[ignore]
fn t4_huge_plan() {
    let (name, plan) = synth::feature_matrix_with(true).into_iter().find(|(n, _)| n.contains("huge")).unwrap();
    let (_, _, info) = check_plan(&name, &plan, true);
    let info = info.unwrap();
    assert_eq!(info.blocks.last().unwrap().sequences.as_ref().unwrap().max_of_code, 30);
}
