//! Frame synthesiser: turns a [`FramePlan`] into the exact bytes of a frame plus the content a
//! decoder must regenerate, and generators of directed ([`feature_matrix`]) and random
//! ([`random_plan`]) plans.
//!
//! The synthesiser is an *encoder of decisions*, not a compressor: the plan says which blocks,
//! which literals, which sequences and which encodings to use, and the synthesiser serialises
//! precisely that, tracking the cross-block state a decoder tracks (repeat offsets, last Huffman
//! table, last LL / OF / ML tables, dictionary).
//!
//! It can also serialise frames that are well-formed bitstreams but break semantic limits
//! (blocks regenerating more than `Block_Maximum_Size`, offsets beyond the window, ...). Those are
//! reported in [`Synthesised::rule_violations`]; a strict decoder must reject such frames.
//!
//! # Panics
//!
//! Plans that cannot be serialised at all panic with a message: literals length above 131071,
//! match length outside 3..=131074, `TableMode::Rle` with differing codes, a code missing from the
//! chosen table, an explicit size format too small for the sizes, a block body of 2 MiB or more,
//! and so on. (`TableMode::Repeat` / `LitPlan::Treeless` without a previous table do *not* panic:
//! they are serialised against a stand-in table and reported as rule violations.)

use crate::dict::Dict;
use crate::frame::{self, BlockHeader, HeaderSpec, FCS_AUTO, MAX_BLOCK_SIZE};
use crate::fse::{self, DEntry};
use crate::huf;
use crate::seq::{self, SeqTables};
use crate::tables::*;
use crate::xxh64::xxh64;

/// `expected` stops growing at this size (256 MiB), or at 128 KiB per planned block if that is
/// more (a valid frame can never regenerate more than that); only reachable by invalid plans.
pub const EXPECTED_CAP: usize = 256 << 20;

/// A complete frame to synthesise.
#[derive(Clone, Debug)]
pub struct FramePlan {
    /// Frame header. `fcs: Some((FCS_AUTO, width))` inserts the real content size; a
    /// `window_descriptor` of `None` (without single segment) picks the smallest window covering
    /// the whole content.
    pub header: HeaderSpec,
    /// The blocks, in order; the last one gets the `Last_Block` flag. Must not be empty.
    pub blocks: Vec<BlockPlan>,
    /// Dictionary the frame is encoded against. The header's `dict_id` is *not* filled in
    /// automatically.
    pub dict: Option<Dict>,
    /// Write this value instead of the real checksum (only with `header.checksum`).
    pub checksum_override: Option<u32>,
}

/// One block.
#[derive(Clone, Debug)]
pub enum BlockPlan {
    /// `Raw_Block` with this content.
    Raw(Vec<u8>),
    /// `RLE_Block`: `len` times `byte`.
    Rle {
        /// The repeated byte.
        byte: u8,
        /// Regenerated size.
        len: u32,
    },
    /// `Compressed_Block`.
    Compressed(CompressedPlan),
}

/// A compressed block: literals, sequences and how to encode them.
#[derive(Clone, Debug)]
pub struct CompressedPlan {
    /// All literals of the block (those consumed by the sequences, then the trailing ones).
    pub literals: Vec<u8>,
    /// Encoding of the literals section.
    pub lit: LitPlan,
    /// The sequences.
    pub seqs: Vec<SeqPlan>,
    /// Literals-length table mode (ignored when there are no sequences).
    pub ll_mode: TableMode,
    /// Offset table mode.
    pub of_mode: TableMode,
    /// Match-length table mode.
    pub ml_mode: TableMode,
    /// Encoding of `Number_of_Sequences`.
    pub seq_count_form: CountForm,
}

/// How `Number_of_Sequences` is written.
#[derive(Clone, Copy, Debug, PartialEq, Eq)]
pub enum CountForm {
    /// Shortest form.
    Auto,
    /// 2-byte form (`n < 0x7F00`); legal but longer than needed for `n < 128`.
    Two,
    /// 3-byte form; it can only express `n >= 0x7F00` (it stores `n - 0x7F00`), so forcing it for
    /// a smaller count panics.
    Three,
}

/// Encoding of a literals section. `size_format` is the raw 2-bit `Size_Format` value; `None`
/// picks the smallest that fits.
#[derive(Clone, Debug)]
pub enum LitPlan {
    /// `Raw_Literals_Block` (`size_format` 0 or 2: 1-byte header, 1: 2 bytes, 3: 3 bytes).
    Raw {
        /// Forced `Size_Format`.
        size_format: Option<u8>,
    },
    /// `RLE_Literals_Block`; all literals must be equal.
    Rle {
        /// Forced `Size_Format`.
        size_format: Option<u8>,
    },
    /// `Compressed_Literals_Block` with a new Huffman tree.
    ///
    /// With `size_format: None`, if the sizes fit no format of the requested stream count (or,
    /// with `HufDesc::Auto`, no description form can hold the tree), the section silently falls
    /// back to raw literals.
    Huffman {
        /// 1 or 4.
        streams: u8,
        /// Forced `Size_Format` (0 for 1 stream; 1, 2, 3 for 4 streams).
        size_format: Option<u8>,
        /// Where the code lengths come from.
        weights: HufWeights,
        /// Form of the tree description.
        description: HufDesc,
    },
    /// `Treeless_Literals_Block`: reuses the previous Huffman tree (or the dictionary's).
    Treeless {
        /// 1 or 4.
        streams: u8,
        /// Forced `Size_Format`.
        size_format: Option<u8>,
    },
}

/// Source of Huffman code lengths.
#[derive(Clone, Debug)]
pub enum HufWeights {
    /// Build a length-limited code from the literals of the block (at least 2 distinct bytes).
    FromData {
        /// Length limit (at most 11).
        max_bits: u8,
    },
    /// Code length per symbol value (0 = absent); must be a complete prefix code covering every
    /// literal of the block.
    Explicit(Vec<u8>),
}

/// Form of a Huffman tree description.
#[derive(Clone, Copy, Debug, PartialEq, Eq)]
pub enum HufDesc {
    /// 4 bits per weight (last present symbol at most 128).
    Direct,
    /// FSE-compressed weights.
    Fse,
    /// FSE if possible, else direct.
    Auto,
}

/// One sequence.
#[derive(Clone, Copy, Debug, PartialEq, Eq)]
pub struct SeqPlan {
    /// Literals length (`0..=131071`).
    pub ll: u32,
    /// Match length (`3..=131074`).
    pub ml: u32,
    /// The offset.
    pub offset: OffsetPlan,
}

/// How the offset of a sequence is chosen / encoded.
#[derive(Clone, Copy, Debug, PartialEq, Eq)]
pub enum OffsetPlan {
    /// This actual distance; encoded as a repeat code when the repeat-offset history allows
    /// (like a real encoder), else as `offset_value = distance + 3`.
    Actual(u32),
    /// This actual distance, always encoded as `offset_value = distance + 3`.
    Raw(u32),
    /// `offset_value` 1, 2 or 3; the distance follows from the history and from `ll == 0`.
    Repeat(u8),
}

/// Symbol compression mode of one table.
#[derive(Clone, Debug, PartialEq, Eq)]
pub enum TableMode {
    /// `Predefined_Mode`.
    Predefined,
    /// `RLE_Mode`; every sequence must have the same code.
    Rle,
    /// `FSE_Compressed_Mode`. Without `norm` the distribution is derived from the codes of the
    /// block (a second symbol is added if only one code occurs). Without `acc_log` a suitable
    /// one is chosen (or deduced from `norm`).
    Fse {
        /// Accuracy log.
        acc_log: Option<u8>,
        /// Explicit normalized distribution.
        norm: Option<Vec<i16>>,
    },
    /// `Repeat_Mode`: the table of the previous block with sequences, or of the dictionary.
    Repeat,
}

/// Result of [`synthesise`].
#[derive(Clone, Debug)]
pub struct Synthesised {
    /// The frame.
    pub bytes: Vec<u8>,
    /// What a decoder must regenerate (for invalid plans: what an executor without limits would
    /// produce, bytes that cannot be determined are 0, growth stops at [`EXPECTED_CAP`]).
    pub expected: Vec<u8>,
    /// Offset of every block header within `bytes`.
    pub block_offsets: Vec<usize>,
    /// Format rules the frame breaks; empty for a valid frame. A wrong checksum
    /// ([`FramePlan::checksum_override`]) is *not* listed: decoders report it separately.
    pub rule_violations: Vec<String>,
}

pub use crate::plans::{
    feature_matrix, feature_matrix_with, hostile_matrix, make_dict, random_plan, random_plan_with_dict,
};

#[derive(Clone)]
struct HufTable {
    lengths: Vec<u8>,
    max_bits: u8,
}

struct EncState {
    rep: [u32; 3],
    huf: Option<HufTable>,
    tables: [Option<Vec<DEntry>>; 3],
}

/// Facts collected while serialising that can only be judged once the window size is known.
#[derive(Default)]
struct Facts {
    /// (block index, kind, stored size, regenerated size, literals regenerated size)
    blocks: Vec<(usize, &'static str, usize, usize, usize)>,
    /// Largest offset of a match that stays inside the frame content.
    max_inner_offset: u64,
    /// Largest amount of content already produced when a match reached into the dictionary.
    max_produced_at_dict_match: Option<u64>,
}

fn push_capped(expected: &mut Vec<u8>, b: u8, cap: usize) {
    if expected.len() < cap {
        expected.push(b);
    }
}

/// The serialisation engine: consumes blocks one at a time while tracking the state a decoder
/// tracks. [`synthesise`] drives it over a whole plan; the random generators use it as a shadow
/// to know, while planning, which tables / history a later block can refer to.
pub(crate) struct Engine<'d> {
    st: EncState,
    dict_content: &'d [u8],
    has_dict: bool,
    pub(crate) expected: Vec<u8>,
    /// True regenerated size so far (larger than `expected.len()` once the cap was hit).
    pub(crate) produced: u64,
    violations: Vec<String>,
    facts: Facts,
    body: Vec<u8>,
    block_offsets: Vec<usize>,
    nblocks: usize,
    cap: usize,
}

impl<'d> Engine<'d> {
    pub(crate) fn new(dict: Option<&'d Dict>) -> Self {
        let mut st = EncState { rep: INITIAL_REPEAT_OFFSETS, huf: None, tables: [None, None, None] };
        if let Some(d) = dict {
            let (mut lengths, max_bits) = d.huf_lengths().expect("plan dictionary: invalid Huffman weights");
            lengths.resize(256, 0);
            st.huf = Some(HufTable { lengths, max_bits });
            st.tables = [Some(d.ll_table()), Some(d.of_table()), Some(d.ml_table())];
            st.rep = d.rep;
        }
        Engine {
            st,
            dict_content: dict.map_or(&[], |d| &d.content),
            has_dict: dict.is_some(),
            expected: Vec::new(),
            produced: 0,
            violations: Vec::new(),
            facts: Facts::default(),
            body: Vec::new(),
            block_offsets: Vec::new(),
            nblocks: 0,
            cap: EXPECTED_CAP,
        }
    }

    /// Current repeat-offset history.
    pub(crate) fn rep(&self) -> [u32; 3] {
        self.st.rep
    }

    /// Code lengths of the Huffman table a treeless block would use now.
    pub(crate) fn huf_lengths(&self) -> Option<&[u8]> {
        self.st.huf.as_ref().map(|h| &h.lengths[..])
    }

    /// The table `Repeat_Mode` would use now for table `k` (0 LL, 1 OF, 2 ML).
    pub(crate) fn table(&self, k: usize) -> Option<&[DEntry]> {
        self.st.tables[k].as_deref()
    }

    /// Largest number of bytes stored by a raw or compressed block so far.
    pub(crate) fn max_stored_block(&self) -> usize {
        self.facts.blocks.iter().filter(|b| b.1 != "RLE").map(|b| b.2).max().unwrap_or(0)
    }

    /// Drops the serialised bytes collected so far (the shadow use does not need them).
    pub(crate) fn discard_bytes(&mut self) {
        self.body.clear();
    }

    pub(crate) fn push_block(&mut self, block: &BlockPlan, last: bool) {
        let bi = self.nblocks;
        self.nblocks += 1;
        self.block_offsets.push(self.body.len());
        match block {
            BlockPlan::Raw(data) => {
                self.body.extend_from_slice(&frame::write_block_header(&BlockHeader {
                    last,
                    btype: 0,
                    size: u32::try_from(data.len()).expect("raw block too large"),
                }));
                self.body.extend_from_slice(data);
                let room = self.cap.saturating_sub(self.expected.len()).min(data.len());
                self.expected.extend_from_slice(&data[..room]);
                self.produced += data.len() as u64;
                self.facts.blocks.push((bi, "raw", data.len(), data.len(), 0));
            }
            BlockPlan::Rle { byte, len } => {
                self.body
                    .extend_from_slice(&frame::write_block_header(&BlockHeader { last, btype: 1, size: *len }));
                self.body.push(*byte);
                let room = self.cap.saturating_sub(self.expected.len()).min(*len as usize);
                self.expected.resize(self.expected.len() + room, *byte);
                self.produced += *len as u64;
                self.facts.blocks.push((bi, "RLE", 1, *len as usize, 0));
            }
            BlockPlan::Compressed(cp) => {
                let before = self.produced;
                let bytes = emit_compressed(
                    cp,
                    bi,
                    &mut self.st,
                    &mut self.expected,
                    &mut self.produced,
                    self.dict_content,
                    self.has_dict,
                    self.cap,
                    &mut self.violations,
                    &mut self.facts,
                );
                self.body.extend_from_slice(&frame::write_block_header(&BlockHeader {
                    last,
                    btype: 2,
                    size: u32::try_from(bytes.len()).expect("compressed block too large"),
                }));
                self.body.extend_from_slice(&bytes);
                let regen = (self.produced - before) as usize;
                self.facts.blocks.push((bi, "compressed", bytes.len(), regen, cp.literals.len()));
            }
        }
    }

    fn finish(self, plan: &FramePlan) -> Synthesised {
        let Engine { expected, produced, mut violations, facts, body, mut block_offsets, cap, .. } = self;
        if produced > expected.len() as u64 {
            violations
                .push(format!("(note) expected output truncated at {cap} bytes, the frame regenerates {produced}"));
        }
        let mut header = plan.header.clone();
        if let Some((v, w)) = header.fcs {
            if v == FCS_AUTO {
                header.fcs = Some((produced, w));
            } else if v != produced {
                violations.push(format!("Frame_Content_Size {v} differs from the regenerated size {produced}"));
            }
        }
        if !header.single_segment && header.window_descriptor.is_none() {
            // Cover the whole content and every stored block (a block may be larger than what
            // it regenerates).
            let stored = facts.blocks.iter().filter(|b| b.1 != "RLE").map(|b| b.2).max().unwrap_or(0);
            header.window_descriptor = Some(frame::window_descriptor_for(produced.max(stored as u64)));
        }
        if header.reserved_bit {
            violations.push("frame header: reserved bit is set".to_string());
        }
        let window = match header.window_descriptor {
            Some(wd) => frame::window_size_from_descriptor(wd),
            None => header.fcs.map_or(0, |f| f.0),
        };
        let block_max = window.min(MAX_BLOCK_SIZE as u64) as usize;
        for &(bi, kind, stored, regen, lit_regen) in &facts.blocks {
            if kind != "RLE" && stored > block_max {
                violations
                    .push(format!("block {bi} ({kind}): Block_Size {stored} exceeds Block_Maximum_Size {block_max}"));
            }
            if regen > block_max {
                violations.push(format!(
                    "block {bi} ({kind}): regenerates {regen} bytes, more than Block_Maximum_Size {block_max}"
                ));
            }
            if lit_regen > block_max {
                violations.push(format!(
                    "block {bi}: literals section regenerates {lit_regen} bytes, more than Block_Maximum_Size {block_max}"
                ));
            }
        }
        if facts.max_inner_offset > window {
            violations.push(format!("a match offset ({}) exceeds Window_Size {window}", facts.max_inner_offset));
        }
        if let Some(p) = facts.max_produced_at_dict_match {
            if p > window {
                violations.push(format!(
                    "a match reaches into the dictionary after {p} bytes, beyond Window_Size {window}"
                ));
            }
        }
        let mut bytes = frame::write_frame_header(&header);
        let hlen = bytes.len();
        bytes.extend_from_slice(&body);
        if header.checksum {
            let sum = plan.checksum_override.unwrap_or(xxh64(&expected, 0) as u32);
            bytes.extend_from_slice(&sum.to_le_bytes());
        }
        for o in block_offsets.iter_mut() {
            *o += hlen;
        }
        Synthesised { bytes, expected, block_offsets, rule_violations: violations }
    }
}

/// Serialises a plan. See the module documentation for what panics.
pub fn synthesise(plan: &FramePlan) -> Synthesised {
    assert!(!plan.blocks.is_empty(), "a frame needs at least one block");
    let mut engine = Engine::new(plan.dict.as_ref());
    engine.cap = EXPECTED_CAP.max(plan.blocks.len().saturating_mul(MAX_BLOCK_SIZE));
    for (bi, block) in plan.blocks.iter().enumerate() {
        engine.push_block(block, bi + 1 == plan.blocks.len());
    }
    engine.finish(plan)
}

/// Resolves the offset plan of one sequence against the history: returns the offset value.
pub(crate) fn resolve_offset_value(rep: &[u32; 3], ll: u32, offset: OffsetPlan) -> u32 {
    match offset {
        OffsetPlan::Repeat(k) => {
            assert!((1..=3).contains(&k), "OffsetPlan::Repeat takes 1, 2 or 3");
            k as u32
        }
        OffsetPlan::Raw(a) => {
            assert!(a >= 1, "offset 0 cannot be encoded");
            a.checked_add(3).expect("offset too large")
        }
        OffsetPlan::Actual(a) => {
            assert!(a >= 1, "offset 0 cannot be encoded");
            let candidates = if ll > 0 {
                [rep[0], rep[1], rep[2]]
            } else {
                [rep[1], rep[2], rep[0].wrapping_sub(1)]
            };
            match candidates.iter().position(|&c| c == a) {
                Some(i) => i as u32 + 1,
                None => a.checked_add(3).expect("offset too large"),
            }
        }
    }
}

#[allow(clippy::too_many_arguments)]
fn emit_compressed(
    cp: &CompressedPlan,
    bi: usize,
    st: &mut EncState,
    expected: &mut Vec<u8>,
    produced: &mut u64,
    dict_content: &[u8],
    has_dict: bool,
    cap: usize,
    violations: &mut Vec<String>,
    facts: &mut Facts,
) -> Vec<u8> {
    // ---- Resolve and execute the sequences ----
    let mut resolved: Vec<(u32, u32, u32)> = Vec::with_capacity(cp.seqs.len());
    let mut lit_pos = 0usize;
    let dl = dict_content.len() as u64;
    // `expected` may be capped; positions are then meaningless and bytes are simply dropped.
    for (i, s) in cp.seqs.iter().enumerate() {
        assert!(s.ll <= MAX_LL, "sequence {i}: literals length {} cannot be encoded", s.ll);
        assert!((MIN_ML..=MAX_ML).contains(&s.ml), "sequence {i}: match length {} cannot be encoded", s.ml);
        let ov = resolve_offset_value(&st.rep, s.ll, s.offset);
        let actual = repeat_offset_step(&mut st.rep, ov, s.ll);
        resolved.push((s.ll, s.ml, ov));
        // literals
        let avail = cp.literals.len() - lit_pos;
        let take = (s.ll as usize).min(avail);
        if (s.ll as usize) > avail {
            violations.push(format!("block {bi} sequence {i}: literals length {} exceeds the remaining literals", s.ll));
        }
        for &b in &cp.literals[lit_pos..lit_pos + take] {
            push_capped(expected, b, cap);
        }
        lit_pos += take;
        *produced += take as u64;
        // match
        let off = actual as u64;
        if actual == 0 {
            violations.push(format!("block {bi} sequence {i}: repeat offset 1 minus 1 is zero"));
        } else if off <= *produced {
            facts.max_inner_offset = facts.max_inner_offset.max(off);
        } else if !has_dict {
            violations.push(format!("block {bi} sequence {i}: offset {actual} exceeds the {} bytes produced", *produced));
        } else if off - *produced > dl {
            violations.push(format!("block {bi} sequence {i}: offset {actual} reaches before the dictionary content"));
        } else {
            let p = facts.max_produced_at_dict_match.unwrap_or(0);
            facts.max_produced_at_dict_match = Some(p.max(*produced));
        }
        let exact = *produced == expected.len() as u64;
        if exact && actual != 0 && off <= *produced + dl {
            let start = dl + *produced - off;
            for v in start..start + s.ml as u64 {
                if expected.len() >= cap {
                    break;
                }
                let b = if v < dl { dict_content[v as usize] } else { expected[(v - dl) as usize] };
                expected.push(b);
            }
        } else if exact {
            for _ in 0..s.ml {
                push_capped(expected, 0, cap);
            }
        }
        *produced += s.ml as u64;
    }
    for &b in &cp.literals[lit_pos..] {
        push_capped(expected, b, cap);
    }
    *produced += (cp.literals.len() - lit_pos) as u64;

    // ---- Literals section ----
    let mut out = emit_literals(&cp.literals, &cp.lit, st, violations);

    // ---- Sequences section ----
    let n = resolved.len();
    match (cp.seq_count_form, n) {
        (CountForm::Auto, 0..=127) => out.push(n as u8),
        (CountForm::Auto, 128..=0x7EFF) | (CountForm::Two, 0..=0x7EFF) => {
            out.push((n >> 8) as u8 + 128);
            out.push(n as u8);
        }
        (CountForm::Auto, _) | (CountForm::Three, 0x7F00..) => {
            let v = u16::try_from(n - 0x7F00).expect("too many sequences for one block");
            out.push(255);
            out.extend_from_slice(&v.to_le_bytes());
        }
        (CountForm::Two, _) => panic!("CountForm::Two cannot express {n} sequences"),
        (CountForm::Three, _) => panic!("CountForm::Three cannot express {n} sequences (needs at least 0x7F00)"),
    }
    if n == 0 {
        return out;
    }
    let codes: [Vec<u8>; 3] = [
        resolved.iter().map(|s| ll_code(s.0)).collect(),
        resolved.iter().map(|s| of_code(s.2)).collect(),
        resolved.iter().map(|s| ml_code(s.1)).collect(),
    ];
    let modes = [&cp.ll_mode, &cp.of_mode, &cp.ml_mode];
    let mut modes_byte = 0u8;
    let mut descs: Vec<u8> = Vec::new();
    for k in 0..3 {
        let (mode_bits, table, desc) = resolve_table(k, modes[k], &codes[k], st.tables[k].as_ref(), violations);
        modes_byte |= mode_bits << (6 - 2 * k);
        descs.extend_from_slice(&desc);
        st.tables[k] = Some(table);
    }
    out.push(modes_byte);
    out.extend_from_slice(&descs);
    let tables = SeqTables {
        ll: st.tables[0].as_deref().unwrap(),
        of: st.tables[1].as_deref().unwrap(),
        ml: st.tables[2].as_deref().unwrap(),
    };
    let variant = xxh64(&(n as u64 ^ (cp.literals.len() as u64) << 20 ^ (bi as u64) << 40).to_le_bytes(), 7);
    out.extend_from_slice(&seq::encode_bitstream(&resolved, &tables, variant));
    out
}

const TABLE_NAMES: [&str; 3] = ["literals length", "offset", "match length"];

fn default_table(k: usize) -> Vec<DEntry> {
    match k {
        0 => fse::build_dtable(&LL_DEFAULT_NORM, LL_DEFAULT_LOG),
        1 => fse::build_dtable(&OF_DEFAULT_NORM, OF_DEFAULT_LOG),
        _ => fse::build_dtable(&ML_DEFAULT_NORM, ML_DEFAULT_LOG),
    }
}

fn table_limits(k: usize) -> (u8, u8) {
    match k {
        0 => (MAX_LL_CODE, LL_MAX_LOG),
        1 => (MAX_OF_CODE, OF_MAX_LOG),
        _ => (MAX_ML_CODE, ML_MAX_LOG),
    }
}

fn assert_codes_in_table(k: usize, table: &[DEntry], codes: &[u8], what: &str) {
    let mut has = [false; 256];
    for e in table {
        has[e.symbol as usize] = true;
    }
    for &c in codes {
        assert!(has[c as usize], "{} table ({what}) has no code {c}", TABLE_NAMES[k]);
    }
}

/// Returns (mode bits, decoding table, description bytes) for one table.
fn resolve_table(
    k: usize,
    mode: &TableMode,
    codes: &[u8],
    prev: Option<&Vec<DEntry>>,
    violations: &mut Vec<String>,
) -> (u8, Vec<DEntry>, Vec<u8>) {
    let (max_sym, max_log) = table_limits(k);
    match mode {
        TableMode::Predefined => {
            let t = default_table(k);
            assert_codes_in_table(k, &t, codes, "predefined");
            (0, t, Vec::new())
        }
        TableMode::Rle => {
            let c = codes[0];
            assert!(codes.iter().all(|&x| x == c), "{} table: RLE mode needs identical codes", TABLE_NAMES[k]);
            (1, fse::rle_dtable(c), vec![c])
        }
        TableMode::Repeat => match prev {
            Some(t) => {
                assert_codes_in_table(k, t, codes, "repeated");
                (3, t.clone(), Vec::new())
            }
            None => {
                // Invalid, but serialisable: encode against the predefined table (what a sloppy
                // decoder would most plausibly fall back to).
                violations.push(format!("{} table: Repeat_Mode without a previous table", TABLE_NAMES[k]));
                let t = default_table(k);
                assert_codes_in_table(k, &t, codes, "predefined stand-in for a missing repeat table");
                (3, t, Vec::new())
            }
        },
        TableMode::Fse { acc_log, norm } => {
            let (norm, log) = match norm {
                Some(nm) => {
                    let sum: u32 = nm.iter().map(|&c| if c == -1 { 1 } else { c.max(0) as u32 }).sum();
                    let log = acc_log.unwrap_or_else(|| sum.trailing_zeros() as u8);
                    (nm.clone(), log)
                }
                None => {
                    let mut counts = vec![0u32; max_sym as usize + 1];
                    for &c in codes {
                        counts[c as usize] += 1;
                    }
                    let distinct = counts.iter().filter(|&&c| c > 0).count();
                    if distinct < 2 {
                        // A one-symbol distribution is what RLE mode is for; add a second symbol.
                        let extra = if codes[0] == 0 { 1 } else { codes[0] as usize - 1 };
                        counts[extra] += 1;
                    }
                    let distinct = counts.iter().filter(|&&c| c > 0).count() as u32;
                    let need = 32 - (distinct - 1).leading_zeros(); // ceil(log2(distinct))
                    let log = acc_log.unwrap_or_else(|| ((need + 1).max(5) as u8).min(max_log));
                    (fse::normalize(&counts, log), log)
                }
            };
            assert!(log <= max_log, "{} table: accuracy log {log} above the maximum {max_log}", TABLE_NAMES[k]);
            assert!(norm.len() <= max_sym as usize + 1, "{} table: distribution has too many symbols", TABLE_NAMES[k]);
            let t = fse::build_dtable(&norm, log);
            assert_codes_in_table(k, &t, codes, "FSE");
            (2, t, fse::write_ncount(&norm, log))
        }
    }
}

fn raw_rle_header(ltype: u8, regen: usize, size_format: Option<u8>) -> Vec<u8> {
    let form = match size_format {
        None => {
            if regen < 32 {
                0
            } else if regen < 4096 {
                1
            } else {
                3
            }
        }
        Some(0) | Some(2) => 0,
        Some(1) => 1,
        Some(3) => 3,
        Some(x) => panic!("invalid size format {x}"),
    };
    match form {
        0 => {
            assert!(regen < 32, "literals size {regen} does not fit the 1-byte header");
            vec![ltype | (regen as u8) << 3]
        }
        1 => {
            assert!(regen < 4096, "literals size {regen} does not fit the 2-byte header");
            let v = ltype as u32 | 1 << 2 | (regen as u32) << 4;
            v.to_le_bytes()[..2].to_vec()
        }
        _ => {
            assert!(regen < 1 << 20, "literals size {regen} does not fit the 3-byte header");
            let v = ltype as u32 | 3 << 2 | (regen as u32) << 4;
            v.to_le_bytes()[..3].to_vec()
        }
    }
}

/// Header of a compressed / treeless literals section, or `None` if the sizes do not fit.
fn huf_header(ltype: u8, streams: u8, regen: usize, comp: usize, size_format: Option<u8>) -> Option<Vec<u8>> {
    let fits = |sf: u8| {
        let bits = [10, 10, 14, 18][sf as usize];
        regen < 1 << bits && comp < 1 << bits
    };
    let sf = match (streams, size_format) {
        (1, None) | (1, Some(0)) => 0,
        (4, Some(sf @ 1..=3)) => sf,
        (4, None) => (1..=3).find(|&sf| fits(sf))?,
        (s, f) => panic!("literals: {s} streams cannot use size format {f:?}"),
    };
    if !fits(sf) {
        return None;
    }
    let (bits, hlen) = [(10, 3), (10, 3), (14, 4), (18, 5)][sf as usize];
    let v = ltype as u64 | (sf as u64) << 2 | (regen as u64) << 4 | (comp as u64) << (4 + bits);
    Some(v.to_le_bytes()[..hlen].to_vec())
}

fn emit_literals(literals: &[u8], lit: &LitPlan, st: &mut EncState, violations: &mut Vec<String>) -> Vec<u8> {
    match lit {
        LitPlan::Raw { size_format } => {
            let mut out = raw_rle_header(0, literals.len(), *size_format);
            out.extend_from_slice(literals);
            out
        }
        LitPlan::Rle { size_format } => {
            let b = literals.first().copied().unwrap_or(0);
            assert!(literals.iter().all(|&x| x == b), "RLE literals must all be equal");
            let mut out = raw_rle_header(1, literals.len(), *size_format);
            out.push(b);
            out
        }
        LitPlan::Huffman { streams, size_format, weights, description } => {
            let lengths: Vec<u8> = match weights {
                HufWeights::FromData { max_bits } => {
                    let mut counts = [0u32; 256];
                    for &b in literals {
                        counts[b as usize] += 1;
                    }
                    huf::lengths_from_counts(&counts, *max_bits)
                }
                HufWeights::Explicit(l) => {
                    let mut l = l.clone();
                    assert!(l.len() <= 256, "more than 256 code lengths");
                    l.resize(256, 0);
                    l
                }
            };
            let (tw, max_bits) = huf::lengths_to_weights(&lengths);
            let desc = match description {
                HufDesc::Direct => Some(huf::write_description_direct(&tw)),
                HufDesc::Fse => Some(huf::write_description_fse(&tw).expect("Huffman weights do not fit an FSE description")),
                HufDesc::Auto => huf::write_description_fse(&tw)
                    .or_else(|| (tw.len() <= 128).then(|| huf::write_description_direct(&tw))),
            };
            let table = HufTable { lengths, max_bits };
            let encoded = desc.and_then(|mut d| {
                d.extend_from_slice(&encode_streams(&table, literals, *streams));
                huf_header(2, *streams, literals.len(), d.len(), *size_format).map(|mut h| {
                    h.extend_from_slice(&d);
                    h
                })
            });
            match encoded {
                Some(out) => {
                    st.huf = Some(table);
                    out
                }
                None => {
                    assert!(size_format.is_none(), "Huffman literals do not fit the requested size format");
                    emit_literals(literals, &LitPlan::Raw { size_format: None }, st, violations)
                }
            }
        }
        LitPlan::Treeless { streams, size_format } => {
            let table = match st.huf.clone() {
                Some(t) => t,
                None => {
                    // Invalid, but serialisable: encode with a tree built from the literals.
                    violations.push("treeless literals without a previous Huffman table".to_string());
                    let mut counts = [0u32; 256];
                    for &b in literals {
                        counts[b as usize] += 1;
                    }
                    let lengths = huf::lengths_from_counts(&counts, huf::MAX_BITS);
                    let max_bits = lengths.iter().copied().max().unwrap_or(0);
                    HufTable { lengths, max_bits }
                }
            };
            let d = encode_streams(&table, literals, *streams);
            match huf_header(3, *streams, literals.len(), d.len(), *size_format) {
                Some(mut h) => {
                    h.extend_from_slice(&d);
                    h
                }
                None => {
                    assert!(size_format.is_none(), "treeless literals do not fit the requested size format");
                    emit_literals(literals, &LitPlan::Raw { size_format: None }, st, violations)
                }
            }
        }
    }
}

fn encode_streams(table: &HufTable, literals: &[u8], streams: u8) -> Vec<u8> {
    let codes = huf::canonical_codes(&table.lengths, table.max_bits);
    match streams {
        1 => huf::encode_stream(&codes, literals),
        4 => huf::encode_4streams(&codes, literals),
        s => panic!("literals: invalid stream count {s}"),
    }
}
