//! Strict decoder and frame walker.
//!
//! [`walk_frame`] decodes one Zstandard frame while enforcing every rule of the format, and
//! reports the structure it found (blocks, literals sections, sequences sections, byte offsets of
//! the interesting fields) together with a set of *feature tags* describing which parts of the
//! format the frame exercises (see [`ALL_FEATURES`]).
//!
//! Malformed input never panics: every violation is an `Err(String)` naming the rule.

use std::collections::BTreeSet;

use crate::dict::Dict;
use crate::frame::{self, FrameHeader, MAX_BLOCK_SIZE};
use crate::fse::{self, DEntry};
use crate::huf;
use crate::seq::{self, SeqTables};
use crate::tables::*;
use crate::xxh64::Xxh64;

/// Every feature tag [`walk_frame`] can put in [`FrameInfo::features`].
///
/// * `blk_raw`, `blk_rle`, `blk_compressed`, `multi_block` — block types, more than one block.
/// * `lit_raw`, `lit_rle`, `lit_huf`, `lit_treeless` — literals block types;
///   `lit_1s` / `lit_4s` — number of Huffman streams; `lit_sf0`..`lit_sf3` — raw value of the
///   2-bit `Size_Format` field (for raw / RLE literals bit 1 of the value belongs to the size
///   when bit 0 is clear, so `lit_sf2` then simply means "1-byte header, bit 3 of the size set").
/// * `huf_direct`, `huf_fse` — form of a Huffman tree description.
/// * `seq_0` — a block without sequences; `seq_cnt1`, `seq_cnt2`, `seq_cnt3` — byte length of
///   the `Number_of_Sequences` field.
/// * `ll_predef`, `ll_rle`, `ll_fse`, `ll_repeat` (and `of_*`, `ml_*`) — symbol compression modes.
/// * `rep1`, `rep2`, `rep3` — offset value 1, 2, 3 with a non-zero literals length;
///   `rep1_ll0`, `rep2_ll0`, `rep3_ll0` — the same with a zero literals length.
/// * `overlap_match` — a match whose offset is smaller than its length;
///   `dict_match` — a match that starts inside the dictionary content.
/// * `extra_bits_gt56` — a sequence with more than 56 extra bits in total.
/// * `single_segment`, `checksum`, `fcs1`, `fcs2`, `fcs4`, `fcs8`, `dictid1`, `dictid2`,
///   `dictid4`, `unused_bit` — frame header variants.
/// * Tags starting with `x_` mark constructs the RFC allows (or does not clearly forbid) but
///   the reference decoder (libzstd 1.5.7) rejects or never produces:
///   `x_lit_4s_lt6` (4 streams with fewer than 6 literals), `x_huf_no_weight1` (Huffman tree
///   without any weight-1 symbol), `x_lit_huf_regen0` (Huffman literals regenerating 0 bytes),
///   `x_seq_0_long` (zero sequences in the 2-byte count form),
///   `x_block_not_smaller` (compressed block not smaller than its content).
pub const ALL_FEATURES: &[&str] = &[
    "blk_raw", "blk_rle", "blk_compressed", "multi_block",
    "lit_raw", "lit_rle", "lit_huf", "lit_treeless", "lit_1s", "lit_4s",
    "lit_sf0", "lit_sf1", "lit_sf2", "lit_sf3", "huf_direct", "huf_fse",
    "seq_0", "seq_cnt1", "seq_cnt2", "seq_cnt3",
    "ll_predef", "ll_rle", "ll_fse", "ll_repeat",
    "of_predef", "of_rle", "of_fse", "of_repeat",
    "ml_predef", "ml_rle", "ml_fse", "ml_repeat",
    "rep1", "rep2", "rep3", "rep1_ll0", "rep2_ll0", "rep3_ll0",
    "overlap_match", "dict_match", "extra_bits_gt56",
    "single_segment", "checksum", "fcs1", "fcs2", "fcs4", "fcs8",
    "dictid1", "dictid2", "dictid4", "unused_bit",
    "x_lit_4s_lt6", "x_huf_no_weight1", "x_lit_huf_regen0", "x_seq_0_long", "x_block_not_smaller",
];

const MODE_TAGS: [[&str; 4]; 3] = [
    ["ll_predef", "ll_rle", "ll_fse", "ll_repeat"],
    ["of_predef", "of_rle", "of_fse", "of_repeat"],
    ["ml_predef", "ml_rle", "ml_fse", "ml_repeat"],
];

/// Options of [`walk_frame`].
#[derive(Clone, Copy, Debug)]
pub struct WalkOpts<'a> {
    /// Dictionary to use (entropy tables, repeat offsets and content).
    pub dict: Option<&'a Dict>,
    /// Decoding stops with an error as soon as the frame would regenerate more than this.
    pub max_output: usize,
    /// If set, a frame announcing a non-zero dictionary id is an error unless `dict` is given
    /// and has that id.
    pub require_dict_if_id: bool,
}

impl Default for WalkOpts<'_> {
    fn default() -> Self {
        WalkOpts { dict: None, max_output: 1 << 30, require_dict_if_id: false }
    }
}

/// Result of walking one frame.
#[derive(Clone, Debug)]
pub struct FrameInfo {
    /// Total length of the frame in bytes (header, blocks, checksum).
    pub frame_len: usize,
    /// The parsed frame header.
    pub header: FrameHeader,
    /// One entry per block.
    pub blocks: Vec<BlockInfo>,
    /// The regenerated content.
    pub output: Vec<u8>,
    /// The stored content checksum, if the frame has one.
    pub checksum: Option<u32>,
    /// Whether the stored checksum equals the low 32 bits of `XXH64(output, 0)`.
    pub checksum_ok: Option<bool>,
    /// Feature tags, see [`ALL_FEATURES`].
    pub features: BTreeSet<&'static str>,
}

/// Description of one block.
#[derive(Clone, Debug)]
pub struct BlockInfo {
    /// Offset of the 3-byte block header within the frame.
    pub offset: usize,
    /// `Last_Block` flag.
    pub last: bool,
    /// `Block_Type`: 0 raw, 1 RLE, 2 compressed.
    pub btype: u8,
    /// Number of bytes stored after the block header (1 for RLE blocks).
    pub body_len: usize,
    /// Number of bytes the block regenerates.
    pub regen_len: usize,
    /// Literals section (compressed blocks only).
    pub literals: Option<LitInfo>,
    /// Sequences section (compressed blocks only).
    pub sequences: Option<SeqInfo>,
}

/// Description of a literals section.
#[derive(Clone, Debug)]
pub struct LitInfo {
    /// Offset of the literals section header within the frame.
    pub offset: usize,
    /// Length of the literals section header (1..=5).
    pub header_len: usize,
    /// `Literals_Block_Type`: 0 raw, 1 RLE, 2 compressed, 3 treeless.
    pub ltype: u8,
    /// Raw value of the 2-bit `Size_Format` field.
    pub size_format: u8,
    /// Number of Huffman streams (1 or 4; 0 for raw / RLE literals).
    pub streams: u8,
    /// `Regenerated_Size`.
    pub regen: usize,
    /// `Compressed_Size` (Huffman types), else the number of payload bytes (regen or 1).
    pub comp: usize,
    /// For compressed literals: whether the tree description is FSE-compressed.
    pub weights_fse: Option<bool>,
    /// Offset of the jump table within the frame (4-stream literals).
    pub jump_table_offset: Option<usize>,
}

/// Description of a sequences section.
#[derive(Clone, Debug)]
pub struct SeqInfo {
    /// Offset of the sequences section header within the frame.
    pub offset: usize,
    /// Length of the `Number_of_Sequences` field (1, 2 or 3); the modes byte is not included.
    pub header_len: usize,
    /// Number of sequences.
    pub nseq: usize,
    /// Offset of the symbol compression modes byte within the frame (absent with 0 sequences).
    pub modes_byte_offset: Option<usize>,
    /// Literals-length mode: 0 predefined, 1 RLE, 2 FSE, 3 repeat.
    pub ll_mode: u8,
    /// Offset mode.
    pub of_mode: u8,
    /// Match-length mode.
    pub ml_mode: u8,
    /// `(offset in frame, length)` of the LL, OF, ML table descriptions or RLE bytes.
    pub table_desc_ranges: [Option<(usize, usize)>; 3],
    /// Offset of the sequences bitstream within the frame.
    pub bitstream_offset: usize,
    /// Length of the sequences bitstream.
    pub bitstream_len: usize,
    /// Decoded sequences `(literals length, match length, offset value)`.
    pub seqs: Vec<(u32, u32, u32)>,
    /// Actual match offset of every sequence after applying the repeat-offset rules.
    pub actual_offsets: Vec<u32>,
    /// Largest offset code used.
    pub max_of_code: u8,
    /// Largest total number of extra bits (LL + ML + OF) of one sequence.
    pub max_extra_bits: u8,
}

/// One element of a concatenation of frames, see [`walk_all`].
#[derive(Clone, Debug)]
pub enum Segment {
    /// A skippable frame.
    Skippable {
        /// Low nibble of the magic number.
        magic_nibble: u8,
        /// Total length including the 8-byte header.
        len: usize,
    },
    /// A Zstandard frame.
    Frame(Box<FrameInfo>),
}

/// Decoder state that persists across the blocks of a frame.
struct State {
    rep: [u32; 3],
    huf: Option<(Vec<(u8, u8)>, u8)>,
    tables: [Option<Vec<DEntry>>; 3],
}

/// Walks every frame (Zstandard or skippable) of `src`, which must consist of whole frames only.
pub fn walk_all(src: &[u8], opts: &WalkOpts) -> Result<Vec<Segment>, String> {
    let mut pos = 0;
    let mut out = Vec::new();
    while pos < src.len() {
        if let Some((magic_nibble, len)) = frame::parse_skippable(&src[pos..])? {
            out.push(Segment::Skippable { magic_nibble, len });
            pos += len;
        } else {
            let info = walk_frame(&src[pos..], opts).map_err(|e| format!("frame at {pos}: {e}"))?;
            pos += info.frame_len;
            out.push(Segment::Frame(Box::new(info)));
        }
    }
    Ok(out)
}

/// Strictly decodes the Zstandard frame starting at `src[0]`. Bytes after the end of the frame
/// are ignored (and never read); use [`FrameInfo::frame_len`] to continue.
pub fn walk_frame(src: &[u8], opts: &WalkOpts) -> Result<FrameInfo, String> {
    let header = frame::parse_frame_header(src)?;
    let mut features: BTreeSet<&'static str> = BTreeSet::new();
    if header.reserved_bit {
        return Err("frame header: reserved bit is set".to_string());
    }
    if let Some(wd) = header.window_descriptor {
        let w = frame::window_size_from_descriptor(wd);
        if !(frame::MIN_WINDOW_SIZE..=frame::MAX_WINDOW_SIZE).contains(&w) {
            return Err(format!("frame header: window size {w} out of range"));
        }
    }
    if header.single_segment {
        features.insert("single_segment");
    }
    if header.checksum {
        features.insert("checksum");
    }
    if header.unused_bit {
        features.insert("unused_bit");
    }
    match header.fcs_field_len {
        1 => features.insert("fcs1"),
        2 => features.insert("fcs2"),
        4 => features.insert("fcs4"),
        8 => features.insert("fcs8"),
        _ => false,
    };
    match header.dict_id_field_len {
        1 => features.insert("dictid1"),
        2 => features.insert("dictid2"),
        4 => features.insert("dictid4"),
        _ => false,
    };
    if opts.require_dict_if_id {
        if let Some(id) = header.dict_id {
            match opts.dict {
                None => return Err(format!("frame needs dictionary {id} but none was supplied")),
                Some(d) if d.id != id => {
                    return Err(format!("frame needs dictionary {id} but dictionary {} was supplied", d.id))
                }
                _ => {}
            }
        }
    }

    let block_max = header.block_max();
    let mut st = State { rep: INITIAL_REPEAT_OFFSETS, huf: None, tables: [None, None, None] };
    if let Some(d) = opts.dict {
        let (lengths, max_bits) = d.huf_lengths().map_err(|e| format!("dictionary: {e}"))?;
        st.huf = Some((huf::canonical_dtable(&lengths, max_bits), max_bits));
        st.tables = [Some(d.ll_table()), Some(d.of_table()), Some(d.ml_table())];
        st.rep = d.rep;
    }

    let mut output: Vec<u8> = Vec::new();
    let mut blocks: Vec<BlockInfo> = Vec::new();
    let mut hasher = Xxh64::new(0);
    let mut pos = header.header_len;
    loop {
        let bh = frame::parse_block_header(&src[pos.min(src.len())..])
            .map_err(|_| "truncated frame: missing block header".to_string())?;
        let body_start = pos + 3;
        let size = bh.size as usize;
        let before = output.len();
        let mut info = BlockInfo {
            offset: pos,
            last: bh.last,
            btype: bh.btype,
            body_len: 0,
            regen_len: 0,
            literals: None,
            sequences: None,
        };
        match bh.btype {
            0 => {
                if size > block_max {
                    return Err(format!("raw block: Block_Size {size} exceeds Block_Maximum_Size {block_max}"));
                }
                if src.len() < body_start + size {
                    return Err("truncated frame: raw block body".to_string());
                }
                check_budget(output.len(), size, opts)?;
                output.extend_from_slice(&src[body_start..body_start + size]);
                info.body_len = size;
                features.insert("blk_raw");
            }
            1 => {
                if size > block_max {
                    return Err(format!("RLE block: regenerated size {size} exceeds Block_Maximum_Size {block_max}"));
                }
                if src.len() < body_start + 1 {
                    return Err("truncated frame: RLE block body".to_string());
                }
                check_budget(output.len(), size, opts)?;
                output.resize(output.len() + size, src[body_start]);
                info.body_len = 1;
                features.insert("blk_rle");
            }
            2 => {
                if size > block_max {
                    return Err(format!("compressed block: Block_Size {size} exceeds Block_Maximum_Size {block_max}"));
                }
                if src.len() < body_start + size {
                    return Err("truncated frame: compressed block body".to_string());
                }
                let body = &src[body_start..body_start + size];
                let ctx = BlockCtx { body, body_offset: body_start, block_max, window: header.window_size, opts };
                decode_compressed_block(&ctx, &mut st, &mut output, &mut info, &mut features)
                    .map_err(|e| format!("block {} (frame offset {pos}): {e}", blocks.len()))?;
                info.body_len = size;
                features.insert("blk_compressed");
                if size >= output.len() - before {
                    features.insert("x_block_not_smaller");
                }
            }
            _ => return Err("block header: reserved block type 3".to_string()),
        }
        info.regen_len = output.len() - before;
        hasher.update(&output[before..]);
        pos = body_start + info.body_len;
        let last = info.last;
        blocks.push(info);
        if last {
            break;
        }
    }
    if blocks.len() > 1 {
        features.insert("multi_block");
    }
    let (checksum, checksum_ok) = if header.checksum {
        if src.len() < pos + 4 {
            return Err("truncated frame: missing content checksum".to_string());
        }
        let stored = u32::from_le_bytes([src[pos], src[pos + 1], src[pos + 2], src[pos + 3]]);
        pos += 4;
        (Some(stored), Some(stored == hasher.digest() as u32))
    } else {
        (None, None)
    };
    if let Some(fcs) = header.fcs {
        if fcs != output.len() as u64 {
            return Err(format!("Frame_Content_Size {fcs} differs from the regenerated size {}", output.len()));
        }
    }
    Ok(FrameInfo { frame_len: pos, header, blocks, output, checksum, checksum_ok, features })
}

fn check_budget(have: usize, more: usize, opts: &WalkOpts) -> Result<(), String> {
    if have.saturating_add(more) > opts.max_output {
        return Err(format!("max_output exceeded ({} bytes)", opts.max_output));
    }
    Ok(())
}

struct BlockCtx<'a, 'o> {
    body: &'a [u8],
    body_offset: usize,
    block_max: usize,
    window: u64,
    opts: &'a WalkOpts<'o>,
}

fn decode_compressed_block(
    ctx: &BlockCtx,
    st: &mut State,
    output: &mut Vec<u8>,
    info: &mut BlockInfo,
    features: &mut BTreeSet<&'static str>,
) -> Result<(), String> {
    let body = ctx.body;
    let (literals, lit_info, lit_total) = decode_literals(ctx, st, features)?;
    info.literals = Some(lit_info);

    // ---- Sequences section header ----
    let sbase = lit_total;
    let rest = &body[sbase..];
    let b0 = *rest.first().ok_or_else(|| "sequences section: missing Number_of_Sequences".to_string())? as usize;
    let (nseq, cnt_len) = if b0 < 128 {
        (b0, 1)
    } else if b0 < 255 {
        let b1 = *rest.get(1).ok_or_else(|| "sequences section: truncated Number_of_Sequences".to_string())? as usize;
        (((b0 - 128) << 8) + b1, 2)
    } else {
        if rest.len() < 3 {
            return Err("sequences section: truncated Number_of_Sequences".to_string());
        }
        (rest[1] as usize + ((rest[2] as usize) << 8) + 0x7F00, 3)
    };
    features.insert(["seq_cnt1", "seq_cnt2", "seq_cnt3"][cnt_len - 1]);
    let mut sinfo = SeqInfo {
        offset: ctx.body_offset + sbase,
        header_len: cnt_len,
        nseq,
        modes_byte_offset: None,
        ll_mode: 0,
        of_mode: 0,
        ml_mode: 0,
        table_desc_ranges: [None, None, None],
        bitstream_offset: ctx.body_offset + sbase + cnt_len,
        bitstream_len: 0,
        seqs: Vec::new(),
        actual_offsets: Vec::new(),
        max_of_code: 0,
        max_extra_bits: 0,
    };
    let block_start = output.len();
    if nseq == 0 {
        if rest.len() != cnt_len {
            return Err("sequences section: data after Number_of_Sequences = 0".to_string());
        }
        features.insert("seq_0");
        if cnt_len > 1 {
            features.insert("x_seq_0_long");
        }
        check_budget(output.len(), literals.len(), ctx.opts)?;
        output.extend_from_slice(&literals);
        info.sequences = Some(sinfo);
        return check_block_regen(output.len() - block_start, ctx.block_max);
    }

    let modes = *rest.get(cnt_len).ok_or_else(|| "sequences section: missing symbol compression modes".to_string())?;
    sinfo.modes_byte_offset = Some(ctx.body_offset + sbase + cnt_len);
    if modes & 3 != 0 {
        return Err("sequences section: reserved bits of the symbol compression modes are set".to_string());
    }
    let mode_of = [modes >> 6, (modes >> 4) & 3, (modes >> 2) & 3];
    sinfo.ll_mode = mode_of[0];
    sinfo.of_mode = mode_of[1];
    sinfo.ml_mode = mode_of[2];
    let limits: [(u8, u8, &str); 3] = [
        (MAX_LL_CODE, LL_MAX_LOG, "literals length"),
        (MAX_OF_CODE, OF_MAX_LOG, "offset"),
        (MAX_ML_CODE, ML_MAX_LOG, "match length"),
    ];
    let mut p = cnt_len + 1;
    for k in 0..3 {
        let (max_sym, max_log, name) = limits[k];
        features.insert(MODE_TAGS[k][mode_of[k] as usize]);
        match mode_of[k] {
            0 => {
                st.tables[k] = Some(match k {
                    0 => fse::build_dtable(&LL_DEFAULT_NORM, LL_DEFAULT_LOG),
                    1 => fse::build_dtable(&OF_DEFAULT_NORM, OF_DEFAULT_LOG),
                    _ => fse::build_dtable(&ML_DEFAULT_NORM, ML_DEFAULT_LOG),
                });
            }
            1 => {
                let sym = *rest.get(p).ok_or_else(|| format!("{name} table: missing RLE symbol"))?;
                if sym > max_sym {
                    return Err(format!("{name} table: RLE symbol {sym} exceeds {max_sym}"));
                }
                st.tables[k] = Some(fse::rle_dtable(sym));
                sinfo.table_desc_ranges[k] = Some((ctx.body_offset + sbase + p, 1));
                p += 1;
            }
            2 => {
                let (norm, log, used) = fse::read_ncount(&rest[p.min(rest.len())..], max_log, max_sym as usize)
                    .map_err(|e| format!("{name} table: {e}"))?;
                st.tables[k] = Some(fse::build_dtable(&norm, log));
                sinfo.table_desc_ranges[k] = Some((ctx.body_offset + sbase + p, used));
                p += used;
            }
            _ => {
                if st.tables[k].is_none() {
                    return Err(format!("{name} table: Repeat_Mode without a previous table"));
                }
            }
        }
    }
    let bitstream = &rest[p.min(rest.len())..];
    if bitstream.is_empty() {
        return Err("sequences section: empty bitstream".to_string());
    }
    sinfo.bitstream_offset = ctx.body_offset + sbase + p;
    sinfo.bitstream_len = bitstream.len();
    let tables = SeqTables {
        ll: st.tables[0].as_deref().unwrap(),
        of: st.tables[1].as_deref().unwrap(),
        ml: st.tables[2].as_deref().unwrap(),
    };
    let seqs = seq::decode_bitstream(bitstream, nseq, &tables)?;

    // ---- Sequence execution ----
    let dict_content: &[u8] = ctx.opts.dict.map_or(&[], |d| &d.content);
    let mut rep = st.rep;
    let mut lit_pos = 0usize;
    let mut actual_offsets = Vec::with_capacity(nseq);
    for (i, &(ll, ml, ov)) in seqs.iter().enumerate() {
        let (ll_u, ml_u) = (ll as usize, ml as usize);
        let ofc = of_code(ov);
        let extra = LL_BITS[ll_code(ll) as usize] + ML_BITS[ml_code(ml) as usize] + ofc;
        sinfo.max_of_code = sinfo.max_of_code.max(ofc);
        sinfo.max_extra_bits = sinfo.max_extra_bits.max(extra);
        if extra > 56 {
            features.insert("extra_bits_gt56");
        }
        if ov <= 3 {
            let idx = (ov - 1) as usize;
            features.insert(if ll == 0 {
                ["rep1_ll0", "rep2_ll0", "rep3_ll0"][idx]
            } else {
                ["rep1", "rep2", "rep3"][idx]
            });
        }
        if ll_u > literals.len() - lit_pos {
            return Err(format!("sequence {i}: literals length {ll} exceeds the remaining literals"));
        }
        check_block_regen(output.len() - block_start + ll_u + ml_u, ctx.block_max)?;
        check_budget(output.len(), ll_u + ml_u, ctx.opts)?;
        output.extend_from_slice(&literals[lit_pos..lit_pos + ll_u]);
        lit_pos += ll_u;
        let offset = repeat_offset_step(&mut rep, ov, ll);
        if offset == 0 {
            return Err(format!("sequence {i}: repeat offset 1 minus 1 is zero"));
        }
        actual_offsets.push(offset);
        let produced = output.len() as u64;
        let off = offset as u64;
        if off <= produced {
            if off > ctx.window {
                return Err(format!("sequence {i}: offset {offset} exceeds Window_Size {}", ctx.window));
            }
        } else {
            let into_dict = off - produced;
            if ctx.opts.dict.is_none() {
                return Err(format!("sequence {i}: offset {offset} exceeds the {produced} bytes produced"));
            }
            if produced > ctx.window {
                return Err(format!(
                    "sequence {i}: offset {offset} reaches the dictionary after the window was exceeded"
                ));
            }
            if into_dict > dict_content.len() as u64 {
                return Err(format!("sequence {i}: offset {offset} reaches before the dictionary content"));
            }
            features.insert("dict_match");
        }
        if off < ml as u64 {
            features.insert("overlap_match");
        }
        if off <= produced && off >= ml as u64 {
            let start = output.len() - offset as usize;
            output.extend_from_within(start..start + ml_u);
        } else {
            // Byte by byte over the virtual buffer "dictionary content ++ output".
            let dl = dict_content.len() as u64;
            let start = dl + produced - off;
            for v in start..start + ml as u64 {
                let b = if v < dl { dict_content[v as usize] } else { output[(v - dl) as usize] };
                output.push(b);
            }
        }
    }
    let rest_lits = literals.len() - lit_pos;
    check_block_regen(output.len() - block_start + rest_lits, ctx.block_max)?;
    check_budget(output.len(), rest_lits, ctx.opts)?;
    output.extend_from_slice(&literals[lit_pos..]);
    st.rep = rep;
    sinfo.seqs = seqs;
    sinfo.actual_offsets = actual_offsets;
    info.sequences = Some(sinfo);
    Ok(())
}

fn check_block_regen(regen: usize, block_max: usize) -> Result<(), String> {
    if regen > MAX_BLOCK_SIZE {
        return Err("compressed block regenerates more than 128 KiB".to_string());
    }
    if regen > block_max {
        return Err(format!("compressed block regenerates more than Block_Maximum_Size {block_max}"));
    }
    Ok(())
}

/// Decodes the literals section at the start of the block body. Returns the literals, the
/// description and the total size of the section.
fn decode_literals(
    ctx: &BlockCtx,
    st: &mut State,
    features: &mut BTreeSet<&'static str>,
) -> Result<(Vec<u8>, LitInfo, usize), String> {
    let body = ctx.body;
    let b0 = *body.first().ok_or_else(|| "literals section: empty block".to_string())?;
    let ltype = b0 & 3;
    let sf = (b0 >> 2) & 3;
    features.insert(["lit_sf0", "lit_sf1", "lit_sf2", "lit_sf3"][sf as usize]);
    let le = |n: usize| -> Result<u64, String> {
        if body.len() < n {
            return Err("literals section: truncated header".to_string());
        }
        Ok(body[..n].iter().rev().fold(0u64, |acc, &b| (acc << 8) | b as u64))
    };
    let mut info = LitInfo {
        offset: ctx.body_offset,
        header_len: 0,
        ltype,
        size_format: sf,
        streams: 0,
        regen: 0,
        comp: 0,
        weights_fse: None,
        jump_table_offset: None,
    };
    if ltype < 2 {
        let (hlen, regen) = match sf {
            0 | 2 => (1, (b0 >> 3) as usize),
            1 => (2, (le(2)? >> 4) as usize),
            _ => (3, (le(3)? >> 4) as usize),
        };
        info.header_len = hlen;
        info.regen = regen;
        if regen > ctx.block_max {
            return Err(format!("literals section: Regenerated_Size {regen} exceeds Block_Maximum_Size {}", ctx.block_max));
        }
        if ltype == 0 {
            features.insert("lit_raw");
            if body.len() < hlen + regen {
                return Err("literals section: raw literals exceed the block".to_string());
            }
            info.comp = regen;
            Ok((body[hlen..hlen + regen].to_vec(), info, hlen + regen))
        } else {
            features.insert("lit_rle");
            let b = *body.get(hlen).ok_or_else(|| "literals section: missing RLE byte".to_string())?;
            info.comp = 1;
            Ok((vec![b; regen], info, hlen + 1))
        }
    } else {
        let (hlen, regen, comp) = match sf {
            0 | 1 => {
                let v = le(3)?;
                (3, ((v >> 4) & 0x3FF) as usize, ((v >> 14) & 0x3FF) as usize)
            }
            2 => {
                let v = le(4)?;
                (4, ((v >> 4) & 0x3FFF) as usize, ((v >> 18) & 0x3FFF) as usize)
            }
            _ => {
                let v = le(5)?;
                (5, ((v >> 4) & 0x3FFFF) as usize, ((v >> 22) & 0x3FFFF) as usize)
            }
        };
        let streams = if sf == 0 { 1 } else { 4 };
        info.header_len = hlen;
        info.regen = regen;
        info.comp = comp;
        info.streams = streams;
        features.insert(if streams == 1 { "lit_1s" } else { "lit_4s" });
        if regen > ctx.block_max {
            return Err(format!("literals section: Regenerated_Size {regen} exceeds Block_Maximum_Size {}", ctx.block_max));
        }
        if body.len() < hlen + comp {
            return Err("literals section: Compressed_Size exceeds the block".to_string());
        }
        let section = &body[hlen..hlen + comp];
        let mut p = 0usize;
        if ltype == 2 {
            features.insert("lit_huf");
            let (weights, used) = huf::read_description(section)?;
            let is_fse = huf::description_is_fse(section);
            info.weights_fse = Some(is_fse);
            features.insert(if is_fse { "huf_fse" } else { "huf_direct" });
            let (lengths, max_bits) = huf::weights_to_lengths(&weights)?;
            if huf::count_weight1(&lengths, max_bits) < 2 {
                features.insert("x_huf_no_weight1");
            }
            st.huf = Some((huf::canonical_dtable(&lengths, max_bits), max_bits));
            p = used;
        } else {
            features.insert("lit_treeless");
            if st.huf.is_none() {
                return Err("literals section: treeless literals without a previous Huffman table".to_string());
            }
        }
        let (table, max_bits) = st.huf.as_ref().unwrap();
        let data = &section[p..];
        if regen == 0 {
            features.insert("x_lit_huf_regen0");
        }
        let literals = if streams == 1 {
            let mut out = Vec::with_capacity(regen);
            huf::decode_stream(table, *max_bits, data, regen, &mut out)?;
            out
        } else {
            info.jump_table_offset = Some(ctx.body_offset + hlen + p);
            if regen < 6 {
                features.insert("x_lit_4s_lt6");
            }
            huf::decode_4streams(table, *max_bits, data, regen)?
        };
        Ok((literals, info, hlen + comp))
    }
}
