//! Huffman coding of literals (RFC 8878 section 4.2).
//!
//! Terminology: the *transmitted weights* are the weights of symbols `0..n` as stored in a
//! Huffman tree description; the weight of symbol `n` (the last symbol with a non-zero weight) is
//! not stored but implied. *Lengths* are code lengths in bits per symbol (`0` = symbol absent).

use crate::bits::{RevBitReader, RevBitWriter};
use crate::fse;

/// Largest code length / weight allowed by the format.
pub const MAX_BITS: u8 = 11;
/// Largest accuracy log of the FSE table compressing the weights.
pub const WEIGHTS_MAX_LOG: u8 = 6;

fn highbit(v: u32) -> u32 {
    debug_assert!(v != 0);
    31 - v.leading_zeros()
}

/// Converts transmitted weights into code lengths.
///
/// Returns the code length of every symbol `0..=weights.len()` (the last one being the implied
/// symbol) and `Max_Number_of_Bits`. Errors: no weight or more than 255, a weight above 11, all
/// weights zero, the sum of `2^(w-1)` not completing to the next power of two with a single
/// power of two, or `Max_Number_of_Bits > 11`.
///
/// Note: the reference decoder additionally requires at least two symbols of weight 1; this
/// function accepts their absence (see [`count_weight1`]), the walker reports it as a feature.
pub fn weights_to_lengths(weights: &[u8]) -> Result<(Vec<u8>, u8), String> {
    if weights.is_empty() {
        return Err("huffman: no weights".to_string());
    }
    if weights.len() > 255 {
        return Err("huffman: more than 255 transmitted weights".to_string());
    }
    let mut sum = 0u32;
    for &w in weights {
        if w > MAX_BITS {
            return Err(format!("huffman: weight {w} exceeds 11"));
        }
        if w > 0 {
            sum += 1 << (w - 1);
        }
    }
    if sum == 0 {
        return Err("huffman: all transmitted weights are zero".to_string());
    }
    let max_bits = highbit(sum) + 1;
    if max_bits > MAX_BITS as u32 {
        return Err(format!("huffman: Max_Number_of_Bits {max_bits} exceeds 11"));
    }
    let rest = (1u32 << max_bits) - sum;
    if !rest.is_power_of_two() {
        return Err("huffman: weights do not complete to a power of two".to_string());
    }
    let last = highbit(rest) + 1;
    let mut lengths: Vec<u8> = weights
        .iter()
        .map(|&w| if w == 0 { 0 } else { (max_bits + 1 - w as u32) as u8 })
        .collect();
    lengths.push((max_bits + 1 - last) as u8);
    Ok((lengths, max_bits as u8))
}

/// Number of symbols with weight 1 (the longest codes) in a set of lengths. A tree built from a
/// real prefix code always has an even number `>= 2`; the reference decoder rejects anything else.
pub fn count_weight1(lengths: &[u8], max_bits: u8) -> usize {
    lengths.iter().filter(|&&l| l == max_bits).count()
}

/// Converts code lengths into `(transmitted weights, max_bits)`.
///
/// Panics unless the lengths form a complete prefix code (Kraft sum exactly 1) over at least two
/// symbols with a maximum length of at most 11: only then is the implied last weight correct.
pub fn lengths_to_weights(lengths: &[u8]) -> (Vec<u8>, u8) {
    assert!(lengths.len() <= 256, "huffman: more than 256 symbols");
    let max_bits = lengths.iter().copied().max().unwrap_or(0);
    assert!((1..=MAX_BITS).contains(&max_bits), "huffman: invalid maximum length {max_bits}");
    let present = lengths.iter().filter(|&&l| l > 0).count();
    assert!(present >= 2, "huffman: at least two symbols are needed");
    let kraft: u32 = lengths.iter().filter(|&&l| l > 0).map(|&l| 1u32 << (max_bits - l)).sum();
    assert_eq!(kraft, 1 << max_bits, "huffman: lengths are not a complete prefix code");
    let last = lengths.iter().rposition(|&l| l > 0).unwrap();
    let weights: Vec<u8> =
        lengths[..last].iter().map(|&l| if l == 0 { 0 } else { max_bits + 1 - l }).collect();
    debug_assert_eq!(weights_to_lengths(&weights).unwrap().0, lengths[..=last].to_vec());
    (weights, max_bits)
}

/// The decoding table defined by RFC 8878 section 4.2.1: `1 << max_bits` entries indexed by the
/// next `max_bits` bits of the stream (first bit read = most significant), each `(symbol,
/// number of bits of its code)`. Codes are allocated to symbols sorted by increasing weight
/// (decreasing length) and, within a weight, by increasing symbol value, starting from 0.
///
/// Panics if the lengths over-subscribe the table; unused entries (incomplete code) are
/// `(0, 0)`.
pub fn canonical_dtable(lengths: &[u8], max_bits: u8) -> Vec<(u8, u8)> {
    assert!(max_bits <= 16);
    let size = 1usize << max_bits;
    let mut table = vec![(0u8, 0u8); size];
    let mut pos = 0usize;
    for len in (1..=max_bits).rev() {
        let span = 1usize << (max_bits - len);
        for (s, &l) in lengths.iter().enumerate() {
            if l == len {
                assert!(pos + span <= size, "huffman: code lengths over-subscribed");
                for e in &mut table[pos..pos + span] {
                    *e = (s as u8, len);
                }
                pos += span;
            }
        }
    }
    table
}

/// Per symbol `(code, number of bits)`, consistent with [`canonical_dtable`]; the code is the
/// value of its bits with the first bit read as most significant. Absent symbols get `(0, 0)`.
pub fn canonical_codes(lengths: &[u8], max_bits: u8) -> Vec<(u16, u8)> {
    let mut codes = vec![(0u16, 0u8); lengths.len()];
    let mut pos = 0usize;
    for len in (1..=max_bits).rev() {
        let shift = max_bits - len;
        for (s, &l) in lengths.iter().enumerate() {
            if l == len {
                codes[s] = ((pos >> shift) as u16, len);
                pos += 1usize << shift;
            }
        }
    }
    assert!(pos <= 1usize << max_bits, "huffman: code lengths over-subscribed");
    codes
}

/// Computes *some* complete prefix code for the symbols with a non-zero count, with no length
/// above `max_bits`: plain Huffman construction followed by a Kraft-sum repair when the limit is
/// exceeded. Returns 256 lengths.
///
/// Panics if fewer than two symbols are present or if `max_bits` is too small to give every
/// present symbol a code (`present > 1 << max_bits`) or above 11.
pub fn lengths_from_counts(counts: &[u32; 256], max_bits: u8) -> Vec<u8> {
    assert!((1..=MAX_BITS).contains(&max_bits), "huffman: invalid length limit {max_bits}");
    let present: Vec<usize> = (0..256).filter(|&s| counts[s] > 0).collect();
    assert!(present.len() >= 2, "huffman: at least two distinct symbols are needed");
    assert!(present.len() <= 1usize << max_bits, "huffman: too many symbols for the length limit");

    // Plain Huffman: repeatedly merge the two lightest nodes.
    #[derive(Clone)]
    struct Node {
        weight: u64,
        parent: usize,
    }
    let mut nodes: Vec<Node> =
        present.iter().map(|&s| Node { weight: counts[s] as u64, parent: usize::MAX }).collect();
    let mut roots: Vec<usize> = (0..nodes.len()).collect();
    while roots.len() > 1 {
        roots.sort_by(|&a, &b| nodes[b].weight.cmp(&nodes[a].weight).then(b.cmp(&a)));
        let a = roots.pop().unwrap();
        let b = roots.pop().unwrap();
        let id = nodes.len();
        nodes.push(Node { weight: nodes[a].weight + nodes[b].weight, parent: usize::MAX });
        nodes[a].parent = id;
        nodes[b].parent = id;
        roots.push(id);
    }
    let mut lens: Vec<u32> = (0..present.len())
        .map(|i| {
            let mut d = 0;
            let mut n = i;
            while nodes[n].parent != usize::MAX {
                n = nodes[n].parent;
                d += 1;
            }
            d
        })
        .collect();

    // Length limiting: clamp, then repair the Kraft sum (in units of 2^-max_bits).
    let limit = max_bits as u32;
    for l in lens.iter_mut() {
        *l = (*l).min(limit);
    }
    let full = 1u64 << limit;
    let kraft = |lens: &[u32]| lens.iter().map(|&l| 1u64 << (limit - l)).sum::<u64>();
    let mut k = kraft(&lens);
    while k > full {
        // Lengthen the cheapest symbol: the longest code below the limit, rarest first.
        let i = (0..lens.len())
            .filter(|&i| lens[i] < limit)
            .max_by(|&a, &b| {
                lens[a].cmp(&lens[b]).then(counts[present[b]].cmp(&counts[present[a]]))
            })
            .expect("huffman: cannot satisfy the length limit");
        k -= 1u64 << (limit - lens[i] - 1);
        lens[i] += 1;
    }
    while k < full {
        // Shorten a symbol whose gain fits in the deficit: the largest such gain, most frequent
        // symbol first. One always exists because the deficit is a multiple of the smallest term.
        let deficit = full - k;
        let i = (0..lens.len())
            .filter(|&i| lens[i] > 1 && (1u64 << (limit - lens[i])) <= deficit)
            .max_by(|&a, &b| {
                lens[b].cmp(&lens[a]).then(counts[present[a]].cmp(&counts[present[b]]))
            })
            .expect("huffman: cannot complete the code");
        k += 1u64 << (limit - lens[i]);
        lens[i] -= 1;
    }
    let mut out = vec![0u8; 256];
    for (i, &s) in present.iter().enumerate() {
        out[s] = lens[i] as u8;
    }
    out
}

/// Writes a direct (4 bits per weight) Huffman tree description: header byte `127 + n` followed
/// by `ceil(n / 2)` bytes. Panics unless `1 <= n <= 128` and every weight is below 16.
pub fn write_description_direct(weights: &[u8]) -> Vec<u8> {
    let n = weights.len();
    assert!((1..=128).contains(&n), "huffman: direct description holds 1..=128 weights, got {n}");
    let mut out = vec![(127 + n) as u8];
    for pair in weights.chunks(2) {
        assert!(pair.iter().all(|&w| w < 16), "huffman: weight does not fit in 4 bits");
        let lo = if pair.len() == 2 { pair[1] } else { 0 };
        out.push((pair[0] << 4) | lo);
    }
    out
}

/// Writes an FSE-compressed Huffman tree description with the given accuracy log (5 or 6):
/// header byte = compressed size (`< 128`), FSE table description, then the weights coded with
/// two interleaved states.
///
/// Returns `None` if that form cannot represent the weights: fewer than 2 weights, fewer than 2
/// distinct weight values, more distinct values than table cells, an ambiguous stream end, or a
/// compressed size of 128 bytes or more.
pub fn write_description_fse_with(weights: &[u8], acc_log: u8) -> Option<Vec<u8>> {
    assert!((fse::MIN_ACC_LOG..=WEIGHTS_MAX_LOG).contains(&acc_log));
    if weights.len() < 2 || weights.len() > 255 {
        return None;
    }
    let mut counts = [0u32; 16];
    for &w in weights {
        assert!(w <= MAX_BITS + 1, "huffman: weight {w} too large");
        counts[w as usize] += 1;
    }
    if counts.iter().filter(|&&c| c > 0).count() < 2 {
        return None;
    }
    let norm = fse::normalize(&counts, acc_log);
    let table = fse::build_dtable(&norm, acc_log);
    let stream = fse::encode_2state(&table, weights)?;
    let mut body = fse::write_ncount(&norm, acc_log);
    body.extend_from_slice(&stream);
    if body.len() >= 128 {
        return None;
    }
    let mut out = vec![body.len() as u8];
    out.extend_from_slice(&body);
    Some(out)
}

/// [`write_description_fse_with`] using the accuracy log (6, else 5) that gives the smaller
/// result.
pub fn write_description_fse(weights: &[u8]) -> Option<Vec<u8>> {
    let a = write_description_fse_with(weights, 6);
    let b = write_description_fse_with(weights, 5);
    match (a, b) {
        (Some(a), Some(b)) => Some(if b.len() < a.len() { b } else { a }),
        (a, b) => a.or(b),
    }
}

/// Parses a Huffman tree description (either form). Returns the transmitted weights and the
/// number of bytes consumed. The weights are not validated here beyond what the container
/// requires; use [`weights_to_lengths`].
pub fn read_description(src: &[u8]) -> Result<(Vec<u8>, usize), String> {
    let header = *src.first().ok_or_else(|| "huffman description: empty".to_string())? as usize;
    if header >= 128 {
        let n = header - 127;
        let nbytes = n.div_ceil(2);
        if src.len() < 1 + nbytes {
            return Err("huffman description: truncated direct weights".to_string());
        }
        let mut weights = Vec::with_capacity(n);
        for i in 0..n {
            let b = src[1 + i / 2];
            weights.push(if i % 2 == 0 { b >> 4 } else { b & 15 });
        }
        Ok((weights, 1 + nbytes))
    } else {
        if header == 0 {
            return Err("huffman description: zero-sized FSE-compressed weights".to_string());
        }
        if src.len() < 1 + header {
            return Err("huffman description: truncated FSE-compressed weights".to_string());
        }
        let body = &src[1..1 + header];
        let (norm, acc_log, used) = fse::read_ncount(body, WEIGHTS_MAX_LOG, 255)
            .map_err(|e| format!("huffman description: {e}"))?;
        let table = fse::build_dtable(&norm, acc_log);
        let weights = fse::decode_2state(&table, &body[used..], 255)
            .map_err(|e| format!("huffman description: {e}"))?;
        Ok((weights, 1 + header))
    }
}

/// True if the description starting at `src[0]` is FSE-compressed (header byte below 128).
pub fn description_is_fse(src: &[u8]) -> bool {
    src.first().is_some_and(|&b| b < 128)
}

/// Encodes `literals` as one Huffman bitstream. `codes` comes from [`canonical_codes`].
/// Panics if a literal has no code. An empty input gives the one-byte stream `[1]`.
pub fn encode_stream(codes: &[(u16, u8)], literals: &[u8]) -> Vec<u8> {
    let mut w = RevBitWriter::new();
    for &b in literals.iter().rev() {
        let (code, n) = *codes.get(b as usize).unwrap_or(&(0, 0));
        assert!(n > 0, "huffman: literal {b} has no code");
        w.write(code as u64, n);
    }
    w.finish()
}

/// Splits `n` literals into the four segment lengths of the 4-stream layout:
/// three segments of `(n + 3) / 4` and the rest. `None` if the first three do not fit.
pub fn four_stream_split(n: usize) -> Option<[usize; 4]> {
    let seg = n.div_ceil(4);
    if 3 * seg > n {
        return None;
    }
    Some([seg, seg, seg, n - 3 * seg])
}

/// Encodes `literals` as four streams preceded by the 6-byte jump table.
/// Panics if the literals cannot be split (see [`four_stream_split`]) or if one of the first
/// three streams exceeds 65535 bytes.
pub fn encode_4streams(codes: &[(u16, u8)], literals: &[u8]) -> Vec<u8> {
    let split = four_stream_split(literals.len()).expect("huffman: too few literals for 4 streams");
    let mut streams = Vec::with_capacity(4);
    let mut pos = 0;
    for len in split {
        streams.push(encode_stream(codes, &literals[pos..pos + len]));
        pos += len;
    }
    let mut out = Vec::new();
    for s in &streams[..3] {
        assert!(s.len() <= 0xFFFF, "huffman: stream too long for the jump table");
        out.extend_from_slice(&(s.len() as u16).to_le_bytes());
    }
    for s in &streams {
        out.extend_from_slice(s);
    }
    out
}

/// Decodes exactly `n` literals from one Huffman bitstream and appends them to `out`.
/// Strict: the stream must end exactly after the last symbol.
pub fn decode_stream(dtable: &[(u8, u8)], max_bits: u8, src: &[u8], n: usize, out: &mut Vec<u8>) -> Result<(), String> {
    debug_assert_eq!(dtable.len(), 1usize << max_bits);
    let mut r = RevBitReader::new(src).map_err(|e| format!("huffman stream: {e}"))?;
    for _ in 0..n {
        let (sym, nb) = dtable[r.peek(max_bits) as usize];
        if nb == 0 {
            return Err("huffman stream: prefix without a code".to_string());
        }
        r.consume(nb);
        if r.overrun() {
            return Err("huffman stream: ran out of bits".to_string());
        }
        out.push(sym);
    }
    if !r.is_exactly_consumed() {
        return Err(format!("huffman stream: {} unused bits after the last literal", r.bits_left()));
    }
    Ok(())
}

/// Decodes the 4-stream layout (`src` starts with the jump table) into exactly `n` literals.
pub fn decode_4streams(dtable: &[(u8, u8)], max_bits: u8, src: &[u8], n: usize) -> Result<Vec<u8>, String> {
    if src.len() < 6 {
        return Err("huffman 4 streams: missing jump table".to_string());
    }
    let split = four_stream_split(n)
        .ok_or_else(|| format!("huffman 4 streams: {n} literals cannot be split in four"))?;
    let l1 = u16::from_le_bytes([src[0], src[1]]) as usize;
    let l2 = u16::from_le_bytes([src[2], src[3]]) as usize;
    let l3 = u16::from_le_bytes([src[4], src[5]]) as usize;
    let body = &src[6..];
    if l1 + l2 + l3 >= body.len() {
        return Err("huffman 4 streams: jump table exceeds the compressed size".to_string());
    }
    if l1 == 0 || l2 == 0 || l3 == 0 {
        return Err("huffman 4 streams: empty stream".to_string());
    }
    let bounds = [0, l1, l1 + l2, l1 + l2 + l3, body.len()];
    let mut out = Vec::with_capacity(n);
    for i in 0..4 {
        decode_stream(dtable, max_bits, &body[bounds[i]..bounds[i + 1]], split[i], &mut out)
            .map_err(|e| format!("stream {}: {e}", i + 1))?;
    }
    Ok(out)
}

#[cfg(test)]
mod tests {
    use super::*;
    use crate::rng::Rng;

    #[test]
    fn rfc_example_weights() {
        // RFC 8878 section 4.2.1 example: literals 0..=5 with weights 4,3,2,0,1 and implied 1.
        let (lengths, max_bits) = weights_to_lengths(&[4, 3, 2, 0, 1]).unwrap();
        assert_eq!(max_bits, 4);
        assert_eq!(lengths, vec![1, 2, 3, 0, 4, 4]);
        let codes = canonical_codes(&lengths, max_bits);
        // RFC table: symbol 0 -> "1", 1 -> "01", 2 -> "001", 4 -> "0000", 5 -> "0001"
        assert_eq!(codes[0], (0b1, 1));
        assert_eq!(codes[1], (0b01, 2));
        assert_eq!(codes[2], (0b001, 3));
        assert_eq!(codes[4], (0b0000, 4));
        assert_eq!(codes[5], (0b0001, 4));
        let t = canonical_dtable(&lengths, max_bits);
        assert_eq!(t[0], (4, 4));
        assert_eq!(t[1], (5, 4));
        assert_eq!(t[2], (2, 3));
        assert_eq!(t[4], (1, 2));
        assert_eq!(t[8], (0, 1));
        assert_eq!(t[15], (0, 1));
    }

    #[test]
    fn invalid_weights() {
        assert!(weights_to_lengths(&[]).is_err());
        assert!(weights_to_lengths(&[0, 0]).is_err());
        assert!(weights_to_lengths(&[12]).is_err());
        assert!(weights_to_lengths(&[1, 1, 1]).is_ok()); // 3 + implied 1
        assert!(weights_to_lengths(&[2, 1]).is_ok()); // sum 3, rest 1
        assert!(weights_to_lengths(&[3, 1, 1, 1]).is_ok()); // sum 7, rest 1
        // sum 5 -> next power 8, rest 3 is not a power of two
        assert!(weights_to_lengths(&[3, 1]).is_err());
        assert!(weights_to_lengths(&[11, 11]).is_err()); // max_bits 12
    }

    fn random_counts(rng: &mut Rng) -> [u32; 256] {
        let mut counts = [0u32; 256];
        let nsym = rng.range(2, 256) as usize;
        let hi = rng.range(1, 255) as usize;
        for _ in 0..nsym {
            let s = rng.range(0, hi as u64) as usize;
            counts[s] += rng.log_range(1, 100_000) as u32;
        }
        if counts.iter().filter(|&&c| c > 0).count() < 2 {
            counts[0] += 1;
            counts[1] += 1;
        }
        counts
    }

    #[test]
    fn lengths_descriptions_and_streams_roundtrip() {
        let mut rng = Rng::new(3);
        let mut fse_ok = 0;
        let cases = if cfg!(miri) { 8 } else { 600 };
        for case in 0..cases {
            let counts = random_counts(&mut rng);
            let present: Vec<u8> = (0..256).filter(|&s| counts[s] > 0).map(|s| s as u8).collect();
            let min_bits = (usize::BITS - (present.len() - 1).leading_zeros()).max(1) as u8;
            let limit = rng.range(min_bits as u64, 11) as u8;
            let lengths = lengths_from_counts(&counts, limit);
            assert!(lengths.iter().all(|&l| l <= limit));
            for s in 0..256 {
                assert_eq!(lengths[s] > 0, counts[s] > 0);
            }
            let (weights, max_bits) = lengths_to_weights(&lengths);
            assert!(count_weight1(&lengths, max_bits) >= 2);
            assert_eq!(count_weight1(&lengths, max_bits) % 2, 0);
            let (l2, mb2) = weights_to_lengths(&weights).unwrap();
            assert_eq!(mb2, max_bits);
            assert_eq!(&l2[..], &lengths[..l2.len()]);
            // descriptions
            if weights.len() <= 128 {
                let d = write_description_direct(&weights);
                let (w2, used) = read_description(&d).unwrap();
                assert_eq!((w2, used), (weights.clone(), d.len()), "case {case}");
            }
            if let Some(d) = write_description_fse(&weights) {
                fse_ok += 1;
                assert!(description_is_fse(&d));
                let mut padded = d.clone();
                padded.extend_from_slice(&[0xAA; 3]);
                let (w2, used) = read_description(&padded).unwrap();
                assert_eq!((w2, used), (weights.clone(), d.len()), "case {case}");
            }
            // streams
            let codes = canonical_codes(&lengths, max_bits);
            let table = canonical_dtable(&lengths, max_bits);
            let n = rng.log_range(0, if cfg!(miri) { 200 } else { 5000 }) as usize;
            let lits: Vec<u8> = (0..n).map(|_| *rng.pick(&present)).collect();
            let s1 = encode_stream(&codes, &lits);
            let mut out = Vec::new();
            decode_stream(&table, max_bits, &s1, n, &mut out).unwrap();
            assert_eq!(out, lits);
            let mut out = Vec::new();
            assert!(n == 0 || decode_stream(&table, max_bits, &s1, n - 1, &mut out).is_err());
            let mut out = Vec::new();
            assert!(decode_stream(&table, max_bits, &s1, n + 1, &mut out).is_err());
            if four_stream_split(n).is_some() {
                let s4 = encode_4streams(&codes, &lits);
                assert_eq!(decode_4streams(&table, max_bits, &s4, n).unwrap(), lits);
            }
        }
        assert!(fse_ok > cases / 2, "FSE descriptions should usually fit ({fse_ok})");
    }
}
