//! Bit-level readers and writers.
//!
//! Zstandard uses two bit orders:
//!
//! * FSE table descriptions are read *forward*: little-endian, first field in the lowest bits of
//!   the first byte ([`FwdBitReader`], [`FwdBitWriter`]).
//! * FSE and Huffman payloads are read *backward*: the encoder appends fields to a little-endian
//!   bit string, closes it with a single 1 bit (plus zero padding to a byte boundary), and the
//!   decoder starts from the last byte, locates the marker, and reads fields from the top down
//!   ([`RevBitReader`], [`RevBitWriter`]).

/// Forward (little-endian) bit reader.
#[derive(Clone, Debug)]
pub struct FwdBitReader<'a> {
    src: &'a [u8],
    pos: usize,
}

impl<'a> FwdBitReader<'a> {
    /// Creates a reader positioned on bit 0 of `src[0]`.
    pub fn new(src: &'a [u8]) -> Self {
        FwdBitReader { src, pos: 0 }
    }

    /// Returns the next `n` bits (`n <= 32`) without consuming them; bits past the end of the
    /// input read as 0.
    pub fn peek(&self, n: u8) -> u64 {
        debug_assert!(n <= 32);
        let mut v = 0u64;
        for i in 0..n as usize {
            let p = self.pos + i;
            let byte = p / 8;
            if byte < self.src.len() && (self.src[byte] >> (p % 8)) & 1 == 1 {
                v |= 1 << i;
            }
        }
        v
    }

    /// Consumes `n` bits. Fails if that moves beyond the end of the input.
    pub fn consume(&mut self, n: u8) -> Result<(), String> {
        if self.pos + n as usize > self.src.len() * 8 {
            return Err("forward bit reader: read past end of input".to_string());
        }
        self.pos += n as usize;
        Ok(())
    }

    /// Reads `n` bits (`n <= 32`). Fails if the input does not hold that many more bits.
    pub fn read(&mut self, n: u8) -> Result<u64, String> {
        let v = self.peek(n);
        self.consume(n)?;
        Ok(v)
    }

    /// Number of bits consumed so far.
    pub fn bits_consumed(&self) -> usize {
        self.pos
    }

    /// Number of bytes touched so far (bits consumed rounded up to whole bytes).
    pub fn bytes_consumed(&self) -> usize {
        self.pos.div_ceil(8)
    }

    /// Skips to the next byte boundary and returns the byte position.
    pub fn align(&mut self) -> usize {
        self.pos = self.bytes_consumed() * 8;
        self.pos / 8
    }
}

/// Forward (little-endian) bit writer.
#[derive(Clone, Debug, Default)]
pub struct FwdBitWriter {
    out: Vec<u8>,
    nbits: usize,
}

impl FwdBitWriter {
    /// Creates an empty writer.
    pub fn new() -> Self {
        Self::default()
    }

    /// Appends the low `nbits` bits of `value` (`nbits <= 64`).
    pub fn write(&mut self, value: u64, nbits: u8) {
        debug_assert!(nbits <= 64);
        debug_assert!(nbits == 64 || value >> nbits == 0, "value does not fit in nbits");
        for i in 0..nbits as usize {
            if self.nbits & 7 == 0 {
                self.out.push(0);
            }
            if (value >> i) & 1 == 1 {
                let last = self.out.len() - 1;
                self.out[last] |= 1 << (self.nbits % 8);
            }
            self.nbits += 1;
        }
    }

    /// Number of bits written so far.
    pub fn bits_written(&self) -> usize {
        self.nbits
    }

    /// Returns the bytes, the last one zero padded.
    pub fn finish(self) -> Vec<u8> {
        self.out
    }
}

/// Writer for a backward-read bitstream.
///
/// Fields are written in the order the *encoder* emits them, i.e. the field the decoder reads
/// first is written last. [`RevBitWriter::from_read_order`] takes the fields in decoder order.
#[derive(Clone, Debug, Default)]
pub struct RevBitWriter {
    inner: FwdBitWriter,
}

impl RevBitWriter {
    /// Creates an empty writer.
    pub fn new() -> Self {
        Self::default()
    }

    /// Appends the low `nbits` bits of `value` (`nbits <= 64`).
    pub fn write(&mut self, value: u64, nbits: u8) {
        self.inner.write(value, nbits);
    }

    /// Number of payload bits written so far (without the end marker).
    pub fn bits_written(&self) -> usize {
        self.inner.bits_written()
    }

    /// Appends the final 1 marker bit, pads with zeros and returns the bytes (never empty).
    pub fn finish(mut self) -> Vec<u8> {
        self.inner.write(1, 1);
        self.inner.finish()
    }

    /// Builds a complete stream from the fields `(value, nbits)` listed in the order the
    /// *decoder* reads them.
    pub fn from_read_order(fields: &[(u64, u8)]) -> Vec<u8> {
        let mut w = RevBitWriter::new();
        for &(v, n) in fields.iter().rev() {
            w.write(v, n);
        }
        w.finish()
    }
}

/// Reader for a backward-read bitstream.
#[derive(Clone, Debug)]
pub struct RevBitReader<'a> {
    src: &'a [u8],
    /// Number of payload bits not yet consumed; negative after reading past the start.
    left: i64,
}

impl<'a> RevBitReader<'a> {
    /// Opens a stream: `src` must be non-empty and its last byte non-zero (it holds the end
    /// marker, the highest set bit).
    pub fn new(src: &'a [u8]) -> Result<Self, String> {
        let last = *src.last().ok_or_else(|| "backward bitstream: empty".to_string())?;
        if last == 0 {
            return Err("backward bitstream: last byte is zero (no end marker)".to_string());
        }
        let marker = 7 - last.leading_zeros() as i64; // bit index of the marker in the last byte
        let left = (src.len() as i64 - 1) * 8 + marker;
        Ok(RevBitReader { src, left })
    }

    /// Returns the next `n` bits (`n <= 64`) without consuming them. Positions before the start
    /// of the stream read as 0.
    pub fn peek(&self, n: u8) -> u64 {
        debug_assert!(n <= 64);
        // The result is the stream bits [left - n, left), the highest one first; positions
        // below 0 read as zero.
        let hi = self.left;
        if n == 0 || hi <= 0 {
            return 0;
        }
        let lo = hi - n as i64;
        let (lo_c, pad) = if lo < 0 { (0usize, (-lo) as u32) } else { (lo as usize, 0u32) };
        let hi = hi as usize;
        let first = lo_c / 8;
        let last = (hi - 1) / 8;
        let mut acc: u128 = 0;
        for (i, &b) in self.src[first..=last].iter().enumerate() {
            acc |= (b as u128) << (8 * i);
        }
        acc >>= lo_c % 8;
        let width = hi - lo_c; // 1..=64
        let v = (acc & ((1u128 << width) - 1)) as u64;
        v << pad
    }

    /// Consumes `n` bits; the position may go negative (see [`RevBitReader::bits_left`]).
    pub fn consume(&mut self, n: u8) {
        self.left -= n as i64;
    }

    /// Reads `n` bits (`n <= 64`): the first bit read is the most significant bit of the result.
    /// Reading past the start yields zeros and makes [`RevBitReader::bits_left`] negative.
    pub fn read(&mut self, n: u8) -> u64 {
        let v = self.peek(n);
        self.consume(n);
        v
    }

    /// Payload bits still unread; negative if more bits were read than the stream holds.
    pub fn bits_left(&self) -> i64 {
        self.left
    }

    /// True once more bits have been read than the stream holds.
    pub fn overrun(&self) -> bool {
        self.left < 0
    }

    /// True if every payload bit has been read and none beyond.
    pub fn is_exactly_consumed(&self) -> bool {
        self.left == 0
    }
}

#[cfg(test)]
mod tests {
    use super::*;

    #[test]
    fn forward_roundtrip() {
        let mut w = FwdBitWriter::new();
        w.write(0b101, 3);
        w.write(0x3FF, 10);
        w.write(0, 0);
        w.write(0x1234_5678, 32);
        assert_eq!(w.bits_written(), 45);
        let bytes = w.finish();
        assert_eq!(bytes.len(), 6);
        let mut r = FwdBitReader::new(&bytes);
        assert_eq!(r.read(3).unwrap(), 0b101);
        assert_eq!(r.peek(10), 0x3FF);
        assert_eq!(r.read(10).unwrap(), 0x3FF);
        assert_eq!(r.read(32).unwrap(), 0x1234_5678);
        assert_eq!(r.bits_consumed(), 45);
        assert_eq!(r.bytes_consumed(), 6);
        assert!(r.read(4).is_err());
        assert_eq!(r.read(3).unwrap(), 0);
    }

    #[test]
    fn backward_roundtrip() {
        let fields = [(5u64, 3u8), (0, 0), (0x1FFFF, 17), (1, 1), (0xABCDE, 20)];
        let bytes = RevBitWriter::from_read_order(&fields);
        let mut r = RevBitReader::new(&bytes).unwrap();
        assert_eq!(r.bits_left(), 41);
        for &(v, n) in &fields {
            assert_eq!(r.read(n), v);
        }
        assert!(r.is_exactly_consumed());
        assert_eq!(r.read(4), 0);
        assert_eq!(r.bits_left(), -4);
        assert!(r.overrun());
        // marker on a byte boundary
        let bytes = RevBitWriter::from_read_order(&[(0xAB, 8)]);
        assert_eq!(bytes, vec![0xAB, 0x01]);
        assert!(RevBitReader::new(&[]).is_err());
        assert!(RevBitReader::new(&[1, 0]).is_err());
        let r = RevBitReader::new(&[0x01]).unwrap();
        assert!(r.is_exactly_consumed());
    }

    #[test]
    fn backward_partial_overrun_is_zero_extended() {
        // 3 payload bits "101", read 5: the value is 10100.
        let bytes = RevBitWriter::from_read_order(&[(0b101, 3)]);
        let mut r = RevBitReader::new(&bytes).unwrap();
        assert_eq!(r.read(5), 0b10100);
        assert_eq!(r.bits_left(), -2);
    }
}
