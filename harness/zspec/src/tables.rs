//! Constant tables of the Zstandard format (RFC 8878 section 3.1.1.3.2.1 and appendix A) and the
//! repeat-offset rule.
//!
//! * `*_BASE` / `*_BITS` and the default distributions are written down from the RFC tables and
//!   were cross-checked against `common/zstd_internal.h` of zstd 1.5.7.
//! * `*_DEFAULT_DTABLE_C` are literal transcriptions of the predefined decoding tables printed in
//!   the reference implementation (`decompress/zstd_decompress_block.c`, zstd 1.5.7);
//!   `*_DEFAULT_DTABLE` is the same data with the symbol recovered from `(baseValue,
//!   nbAdditionalBits)`. They are *not* computed, so they check [`crate::fse::build_dtable`]
//!   independently (see the unit test in `fse.rs`).

/// Largest literals-length code.
pub const MAX_LL_CODE: u8 = 35;
/// Largest match-length code.
pub const MAX_ML_CODE: u8 = 52;
/// Largest offset code accepted by the format (reference decoder limit, RFC 8878 3.1.1.3.2.1.1
/// recommends supporting at least 22; 31 is the largest value libzstd accepts on 64-bit targets).
pub const MAX_OF_CODE: u8 = 31;
/// Maximum accuracy log of a literals-length FSE table.
pub const LL_MAX_LOG: u8 = 9;
/// Maximum accuracy log of a match-length FSE table.
pub const ML_MAX_LOG: u8 = 9;
/// Maximum accuracy log of an offset FSE table.
pub const OF_MAX_LOG: u8 = 8;
/// Accuracy log of the predefined literals-length distribution.
pub const LL_DEFAULT_LOG: u8 = 6;
/// Accuracy log of the predefined match-length distribution.
pub const ML_DEFAULT_LOG: u8 = 6;
/// Accuracy log of the predefined offset distribution.
pub const OF_DEFAULT_LOG: u8 = 5;
/// Largest literals length that can be expressed (code 35: 65536 + 16 bits).
pub const MAX_LL: u32 = 131071;
/// Largest match length that can be expressed (code 52: 65539 + 16 bits).
pub const MAX_ML: u32 = 131074;
/// Smallest match length.
pub const MIN_ML: u32 = 3;

/// Baseline of each literals-length code.
pub const LL_BASE: [u32; 36] = [
    0, 1, 2, 3, 4, 5, 6, 7, 8, 9, 10, 11, 12, 13, 14, 15, 16, 18, 20, 22, 24, 28, 32, 40, 48, 64,
    128, 256, 512, 1024, 2048, 4096, 8192, 16384, 32768, 65536,
];

/// Number of extra bits of each literals-length code.
pub const LL_BITS: [u8; 36] = [
    0, 0, 0, 0, 0, 0, 0, 0, 0, 0, 0, 0, 0, 0, 0, 0, 1, 1, 1, 1, 2, 2, 3, 3, 4, 6, 7, 8, 9, 10, 11,
    12, 13, 14, 15, 16,
];

/// Baseline of each match-length code.
pub const ML_BASE: [u32; 53] = [
    3, 4, 5, 6, 7, 8, 9, 10, 11, 12, 13, 14, 15, 16, 17, 18, 19, 20, 21, 22, 23, 24, 25, 26, 27,
    28, 29, 30, 31, 32, 33, 34, 35, 37, 39, 41, 43, 47, 51, 59, 67, 83, 99, 131, 259, 515, 1027,
    2051, 4099, 8195, 16387, 32771, 65539,
];

/// Number of extra bits of each match-length code.
pub const ML_BITS: [u8; 53] = [
    0, 0, 0, 0, 0, 0, 0, 0, 0, 0, 0, 0, 0, 0, 0, 0, 0, 0, 0, 0, 0, 0, 0, 0, 0, 0, 0, 0, 0, 0, 0,
    0, 1, 1, 1, 1, 2, 2, 3, 3, 4, 4, 5, 7, 8, 9, 10, 11, 12, 13, 14, 15, 16,
];

/// Literals-length code of a literals length (`0..=131071`). Panics above that.
pub fn ll_code(ll: u32) -> u8 {
    assert!(ll <= MAX_LL, "literals length {ll} cannot be encoded");
    let mut c = 35usize;
    while LL_BASE[c] > ll {
        c -= 1;
    }
    c as u8
}

/// Match-length code of a match length (`3..=131074`). Panics outside that range.
pub fn ml_code(ml: u32) -> u8 {
    assert!((MIN_ML..=MAX_ML).contains(&ml), "match length {ml} cannot be encoded");
    let mut c = 52usize;
    while ML_BASE[c] > ml {
        c -= 1;
    }
    c as u8
}

/// Offset code of an offset value (`>= 1`): `floor(log2(offset_value))`. The code is also the
/// number of extra bits; the extra bits value is `offset_value - (1 << code)`.
pub fn of_code(offset_value: u32) -> u8 {
    assert!(offset_value >= 1, "offset_value 0 cannot be encoded");
    (31 - offset_value.leading_zeros()) as u8
}

/// Predefined literals-length distribution (accuracy log 6).
pub const LL_DEFAULT_NORM: [i16; 36] = [
    4, 3, 2, 2, 2, 2, 2, 2, 2, 2, 2, 2, 2, 1, 1, 1, 2, 2, 2, 2, 2, 2, 2, 2, 2, 3, 2, 1, 1, 1, 1, 1,
    -1, -1, -1, -1,
];

/// Predefined match-length distribution (accuracy log 6).
pub const ML_DEFAULT_NORM: [i16; 53] = [
    1, 4, 3, 2, 2, 2, 2, 2, 2, 1, 1, 1, 1, 1, 1, 1, 1, 1, 1, 1, 1, 1, 1, 1, 1, 1, 1, 1, 1, 1, 1, 1,
    1, 1, 1, 1, 1, 1, 1, 1, 1, 1, 1, 1, 1, 1, -1, -1, -1, -1, -1, -1, -1,
];

/// Predefined offset-code distribution (accuracy log 5).
pub const OF_DEFAULT_NORM: [i16; 29] = [
    1, 1, 1, 1, 1, 1, 2, 2, 2, 1, 1, 1, 1, 1, 1, 1, 1, 1, 1, 1, 1, 1, 1, 1, -1, -1, -1, -1, -1,
];

/// Raw transcription of `LL_defaultDTable` from zstd 1.5.7 `zstd_decompress_block.c`:
/// `(nextState, nbAdditionalBits, nbBits, baseValue)` per state (header cell omitted).
pub const LL_DEFAULT_DTABLE_C: [(u16, u8, u8, u32); 64] = [
    (0, 0, 4, 0), (16, 0, 4, 0), (32, 0, 5, 1), (0, 0, 5, 3),
    (0, 0, 5, 4), (0, 0, 5, 6), (0, 0, 5, 7), (0, 0, 5, 9),
    (0, 0, 5, 10), (0, 0, 5, 12), (0, 0, 6, 14), (0, 1, 5, 16),
    (0, 1, 5, 20), (0, 1, 5, 22), (0, 2, 5, 28), (0, 3, 5, 32),
    (0, 4, 5, 48), (32, 6, 5, 64), (0, 7, 5, 128), (0, 8, 6, 256),
    (0, 10, 6, 1024), (0, 12, 6, 4096), (32, 0, 4, 0), (0, 0, 4, 1),
    (0, 0, 5, 2), (32, 0, 5, 4), (0, 0, 5, 5), (32, 0, 5, 7),
    (0, 0, 5, 8), (32, 0, 5, 10), (0, 0, 5, 11), (0, 0, 6, 13),
    (32, 1, 5, 16), (0, 1, 5, 18), (32, 1, 5, 22), (0, 2, 5, 24),
    (32, 3, 5, 32), (0, 3, 5, 40), (0, 6, 4, 64), (16, 6, 4, 64),
    (32, 7, 5, 128), (0, 9, 6, 512), (0, 11, 6, 2048), (48, 0, 4, 0),
    (16, 0, 4, 1), (32, 0, 5, 2), (32, 0, 5, 3), (32, 0, 5, 5),
    (32, 0, 5, 6), (32, 0, 5, 8), (32, 0, 5, 9), (32, 0, 5, 11),
    (32, 0, 5, 12), (0, 0, 6, 15), (32, 1, 5, 18), (32, 1, 5, 20),
    (32, 2, 5, 24), (32, 2, 5, 28), (32, 3, 5, 40), (32, 4, 5, 48),
    (0, 16, 6, 65536), (0, 15, 6, 32768), (0, 14, 6, 16384), (0, 13, 6, 8192),
];

/// `LL_defaultDTable` converted to `(symbol, nb_bits, baseline)` per state; the symbol was recovered
/// from `(baseValue, nbAdditionalBits)` of [`LL_DEFAULT_DTABLE_C`].
pub const LL_DEFAULT_DTABLE: [(u8, u8, u16); 64] = [
    (0, 4, 0), (0, 4, 16), (1, 5, 32), (3, 5, 0),
    (4, 5, 0), (6, 5, 0), (7, 5, 0), (9, 5, 0),
    (10, 5, 0), (12, 5, 0), (14, 6, 0), (16, 5, 0),
    (18, 5, 0), (19, 5, 0), (21, 5, 0), (22, 5, 0),
    (24, 5, 0), (25, 5, 32), (26, 5, 0), (27, 6, 0),
    (29, 6, 0), (31, 6, 0), (0, 4, 32), (1, 4, 0),
    (2, 5, 0), (4, 5, 32), (5, 5, 0), (7, 5, 32),
    (8, 5, 0), (10, 5, 32), (11, 5, 0), (13, 6, 0),
    (16, 5, 32), (17, 5, 0), (19, 5, 32), (20, 5, 0),
    (22, 5, 32), (23, 5, 0), (25, 4, 0), (25, 4, 16),
    (26, 5, 32), (28, 6, 0), (30, 6, 0), (0, 4, 48),
    (1, 4, 16), (2, 5, 32), (3, 5, 32), (5, 5, 32),
    (6, 5, 32), (8, 5, 32), (9, 5, 32), (11, 5, 32),
    (12, 5, 32), (15, 6, 0), (17, 5, 32), (18, 5, 32),
    (20, 5, 32), (21, 5, 32), (23, 5, 32), (24, 5, 32),
    (35, 6, 0), (34, 6, 0), (33, 6, 0), (32, 6, 0),
];

/// Raw transcription of `OF_defaultDTable` from zstd 1.5.7 `zstd_decompress_block.c`:
/// `(nextState, nbAdditionalBits, nbBits, baseValue)` per state (header cell omitted).
pub const OF_DEFAULT_DTABLE_C: [(u16, u8, u8, u32); 32] = [
    (0, 0, 5, 0), (0, 6, 4, 61), (0, 9, 5, 509), (0, 15, 5, 32765),
    (0, 21, 5, 2097149), (0, 3, 5, 5), (0, 7, 4, 125), (0, 12, 5, 4093),
    (0, 18, 5, 262141), (0, 23, 5, 8388605), (0, 5, 5, 29), (0, 8, 4, 253),
    (0, 14, 5, 16381), (0, 20, 5, 1048573), (0, 2, 5, 1), (16, 7, 4, 125),
    (0, 11, 5, 2045), (0, 17, 5, 131069), (0, 22, 5, 4194301), (0, 4, 5, 13),
    (16, 8, 4, 253), (0, 13, 5, 8189), (0, 19, 5, 524285), (0, 1, 5, 1),
    (16, 6, 4, 61), (0, 10, 5, 1021), (0, 16, 5, 65533), (0, 28, 5, 268435453),
    (0, 27, 5, 134217725), (0, 26, 5, 67108861), (0, 25, 5, 33554429), (0, 24, 5, 16777213),
];

/// `OF_defaultDTable` converted to `(symbol, nb_bits, baseline)` per state; the symbol was recovered
/// from `(baseValue, nbAdditionalBits)` of [`OF_DEFAULT_DTABLE_C`].
pub const OF_DEFAULT_DTABLE: [(u8, u8, u16); 32] = [
    (0, 5, 0), (6, 4, 0), (9, 5, 0), (15, 5, 0),
    (21, 5, 0), (3, 5, 0), (7, 4, 0), (12, 5, 0),
    (18, 5, 0), (23, 5, 0), (5, 5, 0), (8, 4, 0),
    (14, 5, 0), (20, 5, 0), (2, 5, 0), (7, 4, 16),
    (11, 5, 0), (17, 5, 0), (22, 5, 0), (4, 5, 0),
    (8, 4, 16), (13, 5, 0), (19, 5, 0), (1, 5, 0),
    (6, 4, 16), (10, 5, 0), (16, 5, 0), (28, 5, 0),
    (27, 5, 0), (26, 5, 0), (25, 5, 0), (24, 5, 0),
];

/// Raw transcription of `ML_defaultDTable` from zstd 1.5.7 `zstd_decompress_block.c`:
/// `(nextState, nbAdditionalBits, nbBits, baseValue)` per state (header cell omitted).
pub const ML_DEFAULT_DTABLE_C: [(u16, u8, u8, u32); 64] = [
    (0, 0, 6, 3), (0, 0, 4, 4), (32, 0, 5, 5), (0, 0, 5, 6),
    (0, 0, 5, 8), (0, 0, 5, 9), (0, 0, 5, 11), (0, 0, 6, 13),
    (0, 0, 6, 16), (0, 0, 6, 19), (0, 0, 6, 22), (0, 0, 6, 25),
    (0, 0, 6, 28), (0, 0, 6, 31), (0, 0, 6, 34), (0, 1, 6, 37),
    (0, 1, 6, 41), (0, 2, 6, 47), (0, 3, 6, 59), (0, 4, 6, 83),
    (0, 7, 6, 131), (0, 9, 6, 515), (16, 0, 4, 4), (0, 0, 4, 5),
    (32, 0, 5, 6), (0, 0, 5, 7), (32, 0, 5, 9), (0, 0, 5, 10),
    (0, 0, 6, 12), (0, 0, 6, 15), (0, 0, 6, 18), (0, 0, 6, 21),
    (0, 0, 6, 24), (0, 0, 6, 27), (0, 0, 6, 30), (0, 0, 6, 33),
    (0, 1, 6, 35), (0, 1, 6, 39), (0, 2, 6, 43), (0, 3, 6, 51),
    (0, 4, 6, 67), (0, 5, 6, 99), (0, 8, 6, 259), (32, 0, 4, 4),
    (48, 0, 4, 4), (16, 0, 4, 5), (32, 0, 5, 7), (32, 0, 5, 8),
    (32, 0, 5, 10), (32, 0, 5, 11), (0, 0, 6, 14), (0, 0, 6, 17),
    (0, 0, 6, 20), (0, 0, 6, 23), (0, 0, 6, 26), (0, 0, 6, 29),
    (0, 0, 6, 32), (0, 16, 6, 65539), (0, 15, 6, 32771), (0, 14, 6, 16387),
    (0, 13, 6, 8195), (0, 12, 6, 4099), (0, 11, 6, 2051), (0, 10, 6, 1027),
];

/// `ML_defaultDTable` converted to `(symbol, nb_bits, baseline)` per state; the symbol was recovered
/// from `(baseValue, nbAdditionalBits)` of [`ML_DEFAULT_DTABLE_C`].
pub const ML_DEFAULT_DTABLE: [(u8, u8, u16); 64] = [
    (0, 6, 0), (1, 4, 0), (2, 5, 32), (3, 5, 0),
    (5, 5, 0), (6, 5, 0), (8, 5, 0), (10, 6, 0),
    (13, 6, 0), (16, 6, 0), (19, 6, 0), (22, 6, 0),
    (25, 6, 0), (28, 6, 0), (31, 6, 0), (33, 6, 0),
    (35, 6, 0), (37, 6, 0), (39, 6, 0), (41, 6, 0),
    (43, 6, 0), (45, 6, 0), (1, 4, 16), (2, 4, 0),
    (3, 5, 32), (4, 5, 0), (6, 5, 32), (7, 5, 0),
    (9, 6, 0), (12, 6, 0), (15, 6, 0), (18, 6, 0),
    (21, 6, 0), (24, 6, 0), (27, 6, 0), (30, 6, 0),
    (32, 6, 0), (34, 6, 0), (36, 6, 0), (38, 6, 0),
    (40, 6, 0), (42, 6, 0), (44, 6, 0), (1, 4, 32),
    (1, 4, 48), (2, 4, 16), (4, 5, 32), (5, 5, 32),
    (7, 5, 32), (8, 5, 32), (11, 6, 0), (14, 6, 0),
    (17, 6, 0), (20, 6, 0), (23, 6, 0), (26, 6, 0),
    (29, 6, 0), (52, 6, 0), (51, 6, 0), (50, 6, 0),
    (49, 6, 0), (48, 6, 0), (47, 6, 0), (46, 6, 0),
];

/// Applies the repeat-offset rule of RFC 8878 section 3.1.1.5 for one sequence.
///
/// `history` is `[Repeated_Offset1, Repeated_Offset2, Repeated_Offset3]`, `offset_value` the
/// decoded `Offset_Value` (`>= 1`) and `ll` the literals length of the same sequence. Returns the
/// actual match offset and updates `history`.
///
/// The only way to obtain 0 is the corrupt case "`offset_value == 3`, `ll == 0` and
/// `Repeated_Offset1 == 1`" (`Repeated_Offset1 - 1` would be 0); the history is then still
/// shifted as the rule says and the caller has to reject the sequence.
pub fn repeat_offset_step(history: &mut [u32; 3], offset_value: u32, ll: u32) -> u32 {
    debug_assert!(offset_value >= 1);
    if offset_value > 3 {
        let actual = offset_value - 3;
        *history = [actual, history[0], history[1]];
        return actual;
    }
    // Index into the history: with ll == 0 everything is shifted by one and index 3 means
    // "Repeated_Offset1 - 1".
    let idx = if ll == 0 { offset_value } else { offset_value - 1 };
    match idx {
        0 => history[0],
        1 => {
            let actual = history[1];
            *history = [actual, history[0], history[2]];
            actual
        }
        2 => {
            let actual = history[2];
            *history = [actual, history[0], history[1]];
            actual
        }
        _ => {
            let actual = history[0].wrapping_sub(1);
            *history = [actual, history[0], history[1]];
            actual
        }
    }
}

/// Initial repeat offsets of a frame that does not use a dictionary.
pub const INITIAL_REPEAT_OFFSETS: [u32; 3] = [1, 4, 8];

#[cfg(test)]
mod tests {
    use super::*;

    #[test]
    fn code_tables_are_consistent() {
        for c in 0..36usize {
            let lo = LL_BASE[c];
            let hi = lo + ((1u32 << LL_BITS[c]) - 1);
            assert_eq!(ll_code(lo) as usize, c);
            assert_eq!(ll_code(hi) as usize, c);
            if c + 1 < 36 {
                assert_eq!(hi + 1, LL_BASE[c + 1], "LL codes must tile the range");
            } else {
                assert_eq!(hi, MAX_LL);
            }
        }
        for c in 0..53usize {
            let lo = ML_BASE[c];
            let hi = lo + ((1u32 << ML_BITS[c]) - 1);
            assert_eq!(ml_code(lo) as usize, c);
            assert_eq!(ml_code(hi) as usize, c);
            if c + 1 < 53 {
                assert_eq!(hi + 1, ML_BASE[c + 1], "ML codes must tile the range");
            } else {
                assert_eq!(hi, MAX_ML);
            }
        }
        assert_eq!(of_code(1), 0);
        assert_eq!(of_code(2), 1);
        assert_eq!(of_code(3), 1);
        assert_eq!(of_code(4), 2);
        assert_eq!(of_code(u32::MAX), 31);
    }

    #[test]
    fn default_norms_sum_to_table_size() {
        let sum = |n: &[i16]| n.iter().map(|&c| if c == -1 { 1 } else { c as i32 }).sum::<i32>();
        assert_eq!(sum(&LL_DEFAULT_NORM), 64);
        assert_eq!(sum(&ML_DEFAULT_NORM), 64);
        assert_eq!(sum(&OF_DEFAULT_NORM), 32);
    }

    #[test]
    fn converted_tables_match_raw_transcription() {
        for (c, r) in LL_DEFAULT_DTABLE.iter().zip(LL_DEFAULT_DTABLE_C.iter()) {
            assert_eq!(LL_BASE[c.0 as usize], r.3);
            assert_eq!(LL_BITS[c.0 as usize], r.1);
            assert_eq!((c.1, c.2), (r.2, r.0));
        }
        for (c, r) in ML_DEFAULT_DTABLE.iter().zip(ML_DEFAULT_DTABLE_C.iter()) {
            assert_eq!(ML_BASE[c.0 as usize], r.3);
            assert_eq!(ML_BITS[c.0 as usize], r.1);
            assert_eq!((c.1, c.2), (r.2, r.0));
        }
        for (c, r) in OF_DEFAULT_DTABLE.iter().zip(OF_DEFAULT_DTABLE_C.iter()) {
            // libzstd stores offset_value - 3 for codes >= 2 and offset_value - 1 for codes 0, 1.
            let base = match c.0 {
                0 => 0,
                1 => 1,
                n => (1u32 << n) - 3,
            };
            assert_eq!(base, r.3);
            assert_eq!(c.0, r.1);
            assert_eq!((c.1, c.2), (r.2, r.0));
        }
    }

    #[test]
    fn repeat_offsets() {
        let mut h = [1, 4, 8];
        assert_eq!(repeat_offset_step(&mut h, 10, 5), 7);
        assert_eq!(h, [7, 1, 4]);
        assert_eq!(repeat_offset_step(&mut h, 1, 5), 7);
        assert_eq!(h, [7, 1, 4]);
        assert_eq!(repeat_offset_step(&mut h, 2, 5), 1);
        assert_eq!(h, [1, 7, 4]);
        assert_eq!(repeat_offset_step(&mut h, 3, 5), 4);
        assert_eq!(h, [4, 1, 7]);
        // ll == 0 shifts the meaning
        assert_eq!(repeat_offset_step(&mut h, 1, 0), 1);
        assert_eq!(h, [1, 4, 7]);
        assert_eq!(repeat_offset_step(&mut h, 2, 0), 7);
        assert_eq!(h, [7, 1, 4]);
        assert_eq!(repeat_offset_step(&mut h, 3, 0), 6);
        assert_eq!(h, [6, 7, 1]);
        let mut h = [1, 4, 8];
        assert_eq!(repeat_offset_step(&mut h, 3, 0), 0);
    }
}
