//! The Zstandard dictionary format (RFC 8878 section 5).

use crate::fse;
use crate::huf;
use crate::tables::*;

/// Magic number of a formatted dictionary (stored little-endian).
pub const DICT_MAGIC: u32 = 0xEC30_A437;

/// A parsed (or to-be-written) dictionary.
#[derive(Clone, Debug, PartialEq, Eq)]
pub struct Dict {
    /// Dictionary id (non-zero in a well-formed dictionary).
    pub id: u32,
    /// Transmitted weights of the literals Huffman table (last weight implied).
    pub huf_weights: Vec<u8>,
    /// Offset-code distribution and its accuracy log (at most 8).
    pub of_norm: (Vec<i16>, u8),
    /// Match-length distribution and its accuracy log (at most 9).
    pub ml_norm: (Vec<i16>, u8),
    /// Literals-length distribution and its accuracy log (at most 9).
    pub ll_norm: (Vec<i16>, u8),
    /// Initial repeat offsets `[Repeated_Offset1, 2, 3]`.
    pub rep: [u32; 3],
    /// Dictionary content, virtually placed just before the frame content.
    pub content: Vec<u8>,
}

impl Dict {
    /// Code lengths (one per symbol, implied last symbol included) and maximum length of the
    /// literals Huffman table.
    pub fn huf_lengths(&self) -> Result<(Vec<u8>, u8), String> {
        huf::weights_to_lengths(&self.huf_weights)
    }

    /// Offset-code decoding table.
    pub fn of_table(&self) -> Vec<fse::DEntry> {
        fse::build_dtable(&self.of_norm.0, self.of_norm.1)
    }

    /// Match-length decoding table.
    pub fn ml_table(&self) -> Vec<fse::DEntry> {
        fse::build_dtable(&self.ml_norm.0, self.ml_norm.1)
    }

    /// Literals-length decoding table.
    pub fn ll_table(&self) -> Vec<fse::DEntry> {
        fse::build_dtable(&self.ll_norm.0, self.ll_norm.1)
    }
}

/// Parses a formatted dictionary: magic, id, Huffman description, offset / match-length /
/// literals-length FSE descriptions, three 4-byte repeat offsets, content.
///
/// Besides the structural rules this enforces what the reference loader enforces: valid Huffman
/// weights, accuracy logs within 8 / 9 / 9, symbols within range, and every repeat offset
/// non-zero and not larger than the content.
pub fn parse_dict(src: &[u8]) -> Result<Dict, String> {
    if src.len() < 8 {
        return Err("dictionary: truncated header".to_string());
    }
    let magic = u32::from_le_bytes([src[0], src[1], src[2], src[3]]);
    if magic != DICT_MAGIC {
        return Err(format!("dictionary: bad magic number {magic:#010x}"));
    }
    let id = u32::from_le_bytes([src[4], src[5], src[6], src[7]]);
    let mut pos = 8;
    let (huf_weights, used) = huf::read_description(&src[pos..]).map_err(|e| format!("dictionary: {e}"))?;
    huf::weights_to_lengths(&huf_weights).map_err(|e| format!("dictionary: {e}"))?;
    pos += used;
    let mut read = |max_log: u8, max_sym: u8, what: &str| -> Result<(Vec<i16>, u8), String> {
        let (norm, log, used) = fse::read_ncount(&src[pos..], max_log, max_sym as usize)
            .map_err(|e| format!("dictionary: {what}: {e}"))?;
        pos += used;
        Ok((norm, log))
    };
    let of_norm = read(OF_MAX_LOG, MAX_OF_CODE, "offset table")?;
    let ml_norm = read(ML_MAX_LOG, MAX_ML_CODE, "match length table")?;
    let ll_norm = read(LL_MAX_LOG, MAX_LL_CODE, "literals length table")?;
    if src.len() < pos + 12 {
        return Err("dictionary: truncated repeat offsets".to_string());
    }
    let mut rep = [0u32; 3];
    for r in rep.iter_mut() {
        *r = u32::from_le_bytes([src[pos], src[pos + 1], src[pos + 2], src[pos + 3]]);
        pos += 4;
    }
    let content = src[pos..].to_vec();
    for &r in &rep {
        if r == 0 || r as usize > content.len() {
            return Err(format!("dictionary: repeat offset {r} is zero or exceeds the content size"));
        }
    }
    Ok(Dict { id, huf_weights, of_norm, ml_norm, ll_norm, rep, content })
}

/// Serialises a dictionary. The Huffman description uses the FSE-compressed form when it fits
/// and the direct form otherwise. Panics if a table cannot be serialised.
pub fn write_dict(d: &Dict) -> Vec<u8> {
    let mut out = DICT_MAGIC.to_le_bytes().to_vec();
    out.extend_from_slice(&d.id.to_le_bytes());
    let desc = huf::write_description_fse(&d.huf_weights)
        .unwrap_or_else(|| huf::write_description_direct(&d.huf_weights));
    out.extend_from_slice(&desc);
    out.extend_from_slice(&fse::write_ncount(&d.of_norm.0, d.of_norm.1));
    out.extend_from_slice(&fse::write_ncount(&d.ml_norm.0, d.ml_norm.1));
    out.extend_from_slice(&fse::write_ncount(&d.ll_norm.0, d.ll_norm.1));
    for r in d.rep {
        out.extend_from_slice(&r.to_le_bytes());
    }
    out.extend_from_slice(&d.content);
    out
}

#[cfg(test)]
mod tests {
    use super::*;

    #[test]
    fn roundtrip() {
        let d = Dict {
            id: 0x1234_5678,
            huf_weights: vec![4, 3, 2, 0, 1],
            of_norm: (OF_DEFAULT_NORM.to_vec(), OF_DEFAULT_LOG),
            ml_norm: (ML_DEFAULT_NORM.to_vec(), ML_DEFAULT_LOG),
            ll_norm: (LL_DEFAULT_NORM.to_vec(), LL_DEFAULT_LOG),
            rep: [1, 4, 8],
            content: b"0123456789abcdef".to_vec(),
        };
        let bytes = write_dict(&d);
        assert_eq!(parse_dict(&bytes).unwrap(), d);
        for cut in 0..bytes.len() - d.content.len() {
            assert!(parse_dict(&bytes[..cut]).is_err());
        }
        let mut bad = d.clone();
        bad.rep[2] = 17;
        assert!(parse_dict(&write_dict(&bad)).is_err());
    }
}
