//! Ready-made plan generators: the directed [`feature_matrix`], the [`hostile_matrix`] of frames
//! that break semantic limits, and the random generators [`random_plan`],
//! [`random_plan_with_dict`] and [`make_dict`]. Everything is deterministic.
//!
//! # Rules a *valid* plan obeys
//!
//! Besides RFC 8878 these include the restrictions of the reference decoder (libzstd 1.5.7):
//!
//! * every block (raw, RLE or compressed) regenerates at most
//!   `Block_Maximum_Size = min(Window_Size, 128 KiB)`, and raw / compressed blocks store at most
//!   that many bytes — in a single-segment frame `Window_Size` is the content size, so a tiny
//!   frame cannot hold a compressed block larger than its content;
//! * 4-stream literals need at least 6 literals; Huffman literals need at least 2 distinct bytes
//!   and regenerate at least 1 byte; the tree must come from a real prefix code (an even, non-zero
//!   number of weight-1 symbols);
//! * `Repeat_Mode` / treeless literals need a previous table in the frame or the dictionary;
//! * offsets stay within the window and the data produced so far (plus the dictionary content
//!   as long as no more than `Window_Size` bytes were produced);
//! * FSE distributions have at least 2 symbols, an accuracy log of at least 5, and no symbol
//!   beyond the maximum code (LL 35, ML 52, OF 31);
//! * window descriptors stay at or below a window log of 31 (libzstd's 64-bit limit).

use crate::dict::Dict;
use crate::frame::{HeaderSpec, FCS_AUTO, MAX_BLOCK_SIZE};
use crate::fse;
use crate::huf;
use crate::rng::Rng;
use crate::synth::*;
use crate::tables::*;

// ---------------------------------------------------------------------------------------------
// Small helpers
// ---------------------------------------------------------------------------------------------

/// Header with automatic window, no content size, checksum on.
fn hdr() -> HeaderSpec {
    HeaderSpec { window_descriptor: None, single_segment: false, fcs: None, dict_id: None, checksum: true, reserved_bit: false }
}

fn frame_of(blocks: Vec<BlockPlan>) -> FramePlan {
    FramePlan { header: hdr(), blocks, dict: None, checksum_override: None }
}

fn random_bytes(rng: &mut Rng, n: usize) -> Vec<u8> {
    let mut v = vec![0u8; n];
    rng.fill(&mut v);
    v
}

/// `n` bytes over the `k` symbols `base, base + 1, ...` (wrapping), small values more frequent.
fn skewed(rng: &mut Rng, n: usize, k: u32, base: u8) -> Vec<u8> {
    (0..n)
        .map(|_| {
            let a = rng.below(k as u64);
            let b = rng.below(k as u64);
            let c = rng.below(k as u64);
            base.wrapping_add(a.min(b).min(c) as u8)
        })
        .collect()
}

/// Like [`skewed`] but guarantees that every one of the `k` symbols occurs (needs `n >= k`).
fn skewed_all(rng: &mut Rng, n: usize, k: u32, base: u8) -> Vec<u8> {
    let mut v = skewed(rng, n, k, base);
    assert!(n >= k as usize);
    for i in 0..k as usize {
        v[i * (n / k as usize)] = base.wrapping_add(i as u8);
    }
    v
}

fn sq(ll: u32, ml: u32, offset: OffsetPlan) -> SeqPlan {
    SeqPlan { ll, ml, offset }
}

/// Compressed block with raw literals, predefined tables and the shortest count form.
fn cblock(literals: Vec<u8>, seqs: Vec<SeqPlan>) -> CompressedPlan {
    CompressedPlan {
        literals,
        lit: LitPlan::Raw { size_format: None },
        seqs,
        ll_mode: TableMode::Predefined,
        of_mode: TableMode::Predefined,
        ml_mode: TableMode::Predefined,
        seq_count_form: CountForm::Auto,
    }
}

fn with_modes(mut c: CompressedPlan, ll: TableMode, of: TableMode, ml: TableMode) -> CompressedPlan {
    c.ll_mode = ll;
    c.of_mode = of;
    c.ml_mode = ml;
    c
}

fn fse_auto() -> TableMode {
    TableMode::Fse { acc_log: None, norm: None }
}

fn lits_needed(seqs: &[SeqPlan], trailing: usize) -> usize {
    seqs.iter().map(|s| s.ll as usize).sum::<usize>() + trailing
}

/// A 1000-byte raw block so that later blocks have something to refer to.
fn prefix_block(rng: &mut Rng) -> BlockPlan {
    BlockPlan::Raw(random_bytes(rng, 1000))
}

/// A handful of varied, always valid sequences for a block that starts at least 1000 bytes into
/// the frame: distinct LL / ML / OF codes, raw offsets below 1000.
fn varied_seqs(rng: &mut Rng, n: usize) -> Vec<SeqPlan> {
    (0..n)
        .map(|_| sq(rng.log_range(0, 40) as u32, rng.log_range(3, 60) as u32, OffsetPlan::Raw(rng.log_range(1, 900) as u32)))
        .collect()
}

fn huf(streams: u8, sf: Option<u8>, max_bits: u8, description: HufDesc) -> LitPlan {
    LitPlan::Huffman { streams, size_format: sf, weights: HufWeights::FromData { max_bits }, description }
}

/// A random valid distribution for table `k` (0 LL, 1 OF, 2 ML) that contains every code in
/// `must` plus random others (all codes when `full`).
fn random_norm_for(rng: &mut Rng, k: usize, must: &[u8], full: bool, max_code: u8) -> (Vec<i16>, u8) {
    let max_log = [LL_MAX_LOG, OF_MAX_LOG, ML_MAX_LOG][k];
    let nsym = max_code as usize + 1;
    let mut counts = vec![0u32; nsym];
    for &c in must {
        counts[c as usize] += rng.log_range(1, 400) as u32;
    }
    for c in counts.iter_mut() {
        if *c == 0 && (full || rng.chance(1, 3)) {
            *c = rng.log_range(1, 200) as u32;
        }
    }
    if counts.iter().filter(|&&c| c > 0).count() < 2 {
        let other = if must.first() == Some(&0) { 1 } else { 0 };
        counts[other] += 1;
    }
    let distinct = counts.iter().filter(|&&c| c > 0).count() as u32;
    let need = (32 - (distinct - 1).leading_zeros()).max(5) as u8;
    let log = rng.range(need as u64, max_log as u64) as u8;
    (fse::normalize_with(&counts, log, rng.chance(1, 2)), log)
}

// ---------------------------------------------------------------------------------------------
// Directed plans
// ---------------------------------------------------------------------------------------------

/// [`feature_matrix_with`] without the huge plan.
pub fn feature_matrix() -> Vec<(String, FramePlan)> {
    feature_matrix_with(false)
}

/// Directed valid plans covering the format feature by feature (see the names). Every plan is
/// accepted by libzstd 1.5.7 and regenerates at most a little over 64 MiB, except the plan
/// `offset_codes_27_30_huge` (1 GiB of output, offset codes 27..=30) which is only included when
/// `huge` is set. Offset code 31 would need more than 2 GiB of content and is not covered.
pub fn feature_matrix_with(huge: bool) -> Vec<(String, FramePlan)> {
    let mut rng = Rng::new(0x5EED_F00D);
    let rng = &mut rng;
    let mut out: Vec<(String, FramePlan)> = Vec::new();
    let mut add = |name: &str, plan: FramePlan| out.push((name.to_string(), plan));

    // ---- Frame header variants ----
    let payload = |rng: &mut Rng, n: usize| vec![BlockPlan::Raw(skewed(rng, n, 20, b'a'))];
    let base = hdr();
    add("hdr_fcs1_ss", FramePlan { header: HeaderSpec { single_segment: true, fcs: Some((FCS_AUTO, 1)), ..base.clone() }, ..frame_of(payload(rng, 200)) });
    add("hdr_fcs1_ss_255", FramePlan { header: HeaderSpec { single_segment: true, fcs: Some((FCS_AUTO, 1)), ..base.clone() }, ..frame_of(payload(rng, 255)) });
    for (w, n) in [(2u8, 256usize), (2, 300), (2, 65791), (4, 300), (4, 70000), (8, 300)] {
        add(&format!("hdr_fcs{w}_ss_{n}"), FramePlan { header: HeaderSpec { single_segment: true, fcs: Some((FCS_AUTO, w)), ..base.clone() }, ..frame_of(payload(rng, n)) });
        add(&format!("hdr_fcs{w}_{n}"), FramePlan { header: HeaderSpec { fcs: Some((FCS_AUTO, w)), ..base.clone() }, ..frame_of(payload(rng, n)) });
    }
    add("hdr_nofcs_nochecksum", FramePlan { header: HeaderSpec { checksum: false, ..base.clone() }, ..frame_of(payload(rng, 300)) });
    add("hdr_fcs4_nochecksum", FramePlan { header: HeaderSpec { checksum: false, fcs: Some((FCS_AUTO, 4)), ..base.clone() }, ..frame_of(payload(rng, 300)) });
    for w in [1u8, 2, 4] {
        add(&format!("hdr_dictid{w}_zero"), FramePlan { header: HeaderSpec { dict_id: Some((0, w)), ..base.clone() }, ..frame_of(payload(rng, 300)) });
        add(&format!("hdr_dictid{w}_zero_ss"), FramePlan { header: HeaderSpec { dict_id: Some((0, w)), single_segment: true, fcs: Some((FCS_AUTO, 2)), ..base.clone() }, ..frame_of(payload(rng, 300)) });
    }
    for wd in [0x00u8, 0x01, 0x07, 0x08, 0x0F, 0x53, 0x80, 0xA8, 0xAF] {
        add(&format!("hdr_window_{wd:#04x}"), FramePlan { header: HeaderSpec { window_descriptor: Some(wd), ..base.clone() }, ..frame_of(payload(rng, 100)) });
    }
    // window with mantissa: a block larger than the 1 KiB base but within 1 KiB + 3/8
    add("hdr_window_mantissa_block", FramePlan { header: HeaderSpec { window_descriptor: Some(0x03), ..base.clone() }, ..frame_of(payload(rng, 1024 + 384)) });

    // ---- Empty and degenerate frames ----
    add("empty_raw", frame_of(vec![BlockPlan::Raw(Vec::new())]));
    add("empty_raw_ss", FramePlan { header: HeaderSpec { single_segment: true, fcs: Some((FCS_AUTO, 1)), ..base.clone() }, ..frame_of(vec![BlockPlan::Raw(Vec::new())]) });
    add("empty_rle", frame_of(vec![BlockPlan::Rle { byte: 9, len: 0 }]));
    add("empty_compressed", frame_of(vec![BlockPlan::Compressed(cblock(Vec::new(), Vec::new()))]));
    add("empty_blocks_between", frame_of(vec![
        BlockPlan::Raw(Vec::new()),
        BlockPlan::Raw(b"abc".to_vec()),
        BlockPlan::Rle { byte: 1, len: 0 },
        BlockPlan::Compressed(cblock(Vec::new(), Vec::new())),
        BlockPlan::Raw(Vec::new()),
    ]));
    add("only_rle_blocks", frame_of(vec![
        BlockPlan::Rle { byte: b'x', len: 1 },
        BlockPlan::Rle { byte: b'y', len: 70000 },
        BlockPlan::Rle { byte: 0, len: 17 },
    ]));
    add("raw_block_128k", frame_of(vec![BlockPlan::Raw(random_bytes(rng, MAX_BLOCK_SIZE))]));
    add("rle_block_128k", frame_of(vec![BlockPlan::Rle { byte: 0xEE, len: MAX_BLOCK_SIZE as u32 }]));
    add("compressed_regen_128k", frame_of(vec![BlockPlan::Compressed(cblock(
        random_bytes(rng, 1000),
        vec![sq(500, 60000, OffsetPlan::Raw(7)), sq(400, MAX_BLOCK_SIZE as u32 - 61000, OffsetPlan::Raw(60001))],
    ))]));
    add("compressed_stored_128k", frame_of(vec![BlockPlan::Compressed(CompressedPlan {
        lit: LitPlan::Raw { size_format: Some(3) },
        ..cblock(random_bytes(rng, MAX_BLOCK_SIZE - 4), Vec::new())
    })]));
    add("many_small_blocks", frame_of((0..300).map(|i| match i % 3 {
        0 => BlockPlan::Raw(vec![i as u8; i % 7]),
        1 => BlockPlan::Rle { byte: i as u8, len: (i % 5) as u32 + 1 },
        _ => BlockPlan::Compressed(cblock(vec![i as u8; 2], vec![sq(1, 3, OffsetPlan::Raw(1))])),
    }).collect()));

    // ---- Literals sections ----
    let lit_only = |lits: Vec<u8>, lit: LitPlan| frame_of(vec![BlockPlan::Compressed(CompressedPlan { lit, ..cblock(lits, Vec::new()) })]);
    for (name, n, sf) in [("lit_raw_sf0_even", 10usize, Some(0u8)), ("lit_raw_sf2_odd", 11, Some(0)), ("lit_raw_sf0_empty", 0, Some(0)), ("lit_raw_sf0_max", 31, None),
        ("lit_raw_sf1_small", 10, Some(1)), ("lit_raw_sf1_min", 32, None), ("lit_raw_sf1_max", 4095, Some(1)), ("lit_raw_sf3_small", 10, Some(3)),
        ("lit_raw_sf3_min", 4096, None), ("lit_raw_sf3_big", 20000, Some(3))] {
        add(name, lit_only(random_bytes(rng, n), LitPlan::Raw { size_format: sf }));
    }
    for (name, n, sf) in [("lit_rle_sf0", 5usize, Some(0u8)), ("lit_rle_sf2_odd", 31, Some(2)), ("lit_rle_sf1_small", 3, Some(1)), ("lit_rle_sf1", 300, None),
        ("lit_rle_sf1_max", 4095, None), ("lit_rle_sf3_small", 7, Some(3)), ("lit_rle_sf3", 70000, None), ("lit_rle_sf3_128k", MAX_BLOCK_SIZE, None), ("lit_rle_one", 1, None)] {
        add(name, lit_only(vec![b'r'; n], LitPlan::Rle { size_format: sf }));
    }
    add("lit_rle_with_sequences", frame_of(vec![prefix_block(rng), BlockPlan::Compressed(CompressedPlan {
        lit: LitPlan::Rle { size_format: None },
        ..cblock(vec![b'q'; 40], vec![sq(3, 10, OffsetPlan::Raw(500)), sq(0, 5, OffsetPlan::Raw(20)), sq(30, 4, OffsetPlan::Raw(2))])
    })]));
    add("lit_huf_1s", lit_only(skewed(rng, 500, 10, b'a'), huf(1, Some(0), 11, HufDesc::Auto)));
    add("lit_huf_1s_tiny", lit_only(b"ab".to_vec(), huf(1, Some(0), 11, HufDesc::Auto)));
    add("lit_huf_1s_1023", lit_only(skewed(rng, 1023, 6, b'0'), huf(1, Some(0), 11, HufDesc::Auto)));
    add("lit_huf_4s_sf1", lit_only(skewed(rng, 800, 12, b'a'), huf(4, Some(1), 11, HufDesc::Auto)));
    add("lit_huf_4s_sf2_small", lit_only(skewed(rng, 100, 12, b'a'), huf(4, Some(2), 11, HufDesc::Auto)));
    add("lit_huf_4s_sf2", lit_only(skewed(rng, 8000, 40, b'0'), huf(4, Some(2), 11, HufDesc::Auto)));
    add("lit_huf_4s_sf2_max", lit_only(skewed(rng, 16383, 40, b'0'), huf(4, Some(2), 11, HufDesc::Auto)));
    add("lit_huf_4s_sf3_small", lit_only(skewed(rng, 50, 5, b'a'), huf(4, Some(3), 11, HufDesc::Auto)));
    add("lit_huf_4s_sf3_min", lit_only(skewed(rng, 16384, 40, b'0'), huf(4, None, 11, HufDesc::Auto)));
    add("lit_huf_4s_sf3_big", lit_only(skewed(rng, 40000, 200, 0), huf(4, Some(3), 11, HufDesc::Auto)));
    add("lit_huf_4s_sf3_120k", lit_only(skewed(rng, 120000, 64, 32), huf(4, None, 11, HufDesc::Auto)));
    for n in 6..=13usize {
        add(&format!("lit_huf_4s_{n}_literals"), lit_only(skewed_all(rng, n, 3, b'a'), huf(4, Some(1), 11, HufDesc::Direct)));
    }
    add("huf_direct", lit_only(skewed(rng, 400, 30, b'A'), huf(1, None, 11, HufDesc::Direct)));
    add("huf_direct_128_weights", lit_only(skewed_all(rng, 600, 129, 0), huf(4, None, 11, HufDesc::Direct)));
    add("huf_direct_1_weight", lit_only(skewed_all(rng, 40, 2, 0), huf(1, None, 11, HufDesc::Direct)));
    add("huf_direct_2_weights", lit_only(skewed_all(rng, 40, 3, 0), huf(1, None, 11, HufDesc::Direct)));
    add("huf_fse", lit_only(skewed(rng, 400, 30, b'A'), huf(1, None, 11, HufDesc::Fse)));
    add("huf_fse_high_symbols", lit_only(skewed_all(rng, 2000, 60, 190), huf(4, None, 11, HufDesc::Fse)));
    add("huf_two_symbols", lit_only(skewed_all(rng, 300, 2, b'a'), huf(1, None, 11, HufDesc::Auto)));
    add("huf_two_symbols_far", lit_only((0..300).map(|i| if i % 3 == 0 { 0u8 } else { 255 }).collect(), huf(1, None, 11, HufDesc::Fse)));
    add("huf_256_symbols_11_bits", lit_only(skewed_all(rng, 60000, 256, 0), huf(4, None, 11, HufDesc::Fse)));
    for mb in [5u8, 6, 7, 8, 9, 10] {
        add(&format!("huf_limit_{mb}_bits"), lit_only(skewed_all(rng, 3000, 1 << (mb - 1), b' '), huf(4, None, mb, HufDesc::Auto)));
    }
    add("huf_explicit_rfc_example", lit_only(vec![0, 1, 0, 2, 0, 4, 5, 0, 1, 0, 0, 2, 1, 0, 5, 4], LitPlan::Huffman {
        streams: 1, size_format: None, weights: HufWeights::Explicit(vec![1, 2, 3, 0, 4, 4]), description: HufDesc::Direct }));
    add("huf_explicit_unused_symbols", lit_only(vec![10, 11, 10, 10, 12, 10, 11, 10], LitPlan::Huffman {
        streams: 4, size_format: None, weights: HufWeights::Explicit({ let mut l = vec![0u8; 200]; l[10] = 1; l[11] = 2; l[12] = 3; l[150] = 4; l[199] = 4; l }), description: HufDesc::Fse }));
    {
        // Huffman tree reuse across blocks of all kinds
        let alpha = |rng: &mut Rng, n: usize| skewed(rng, n, 16, b'a');
        let first = skewed_all(rng, 700, 16, b'a');
        let tl = |streams: u8, sf: Option<u8>| LitPlan::Treeless { streams, size_format: sf };
        let c = |lits: Vec<u8>, lit: LitPlan| BlockPlan::Compressed(CompressedPlan { lit, ..cblock(lits, Vec::new()) });
        add("huf_reuse_chain", frame_of(vec![
            c(first.clone(), huf(1, None, 11, HufDesc::Auto)),
            c(alpha(rng, 300), tl(1, Some(0))),
            c(alpha(rng, 300), tl(4, Some(1))),
            c(alpha(rng, 300), tl(4, Some(2))),
            c(alpha(rng, 300), tl(4, Some(3))),
            c(alpha(rng, 20000), tl(4, None)),
            c(random_bytes(rng, 50), LitPlan::Raw { size_format: None }),
            c(alpha(rng, 100), tl(1, None)),
            BlockPlan::Raw(random_bytes(rng, 10)),
            BlockPlan::Rle { byte: 3, len: 10 },
            c(vec![b'z'; 9], LitPlan::Rle { size_format: None }),
            c(alpha(rng, 6), tl(4, None)),
            c(skewed_all(rng, 500, 5, b'A'), huf(4, None, 7, HufDesc::Direct)),
            c(skewed(rng, 500, 5, b'A'), tl(1, None)),
            c(skewed(rng, 1, 5, b'A'), tl(1, None)),
        ]));
    }

    // ---- Sequences: symbol compression modes ----
    for (k, kname) in ["ll", "of", "ml"].iter().enumerate() {
        for (mname, mode) in [("predefined", TableMode::Predefined), ("rle", TableMode::Rle), ("fse", fse_auto())] {
            // Sequences whose code for table k is constant (so that RLE is legal) and varied otherwise.
            let seqs: Vec<SeqPlan> = (0..20).map(|_| {
                let ll = if k == 0 { 5 } else { rng.log_range(0, 40) as u32 };
                let ml = if k == 2 { 9 } else { rng.log_range(3, 60) as u32 };
                let off = if k == 1 { OffsetPlan::Raw(rng.range(125, 252) as u32) } else { OffsetPlan::Raw(rng.log_range(1, 900) as u32) };
                sq(ll, ml, off)
            }).collect();
            let lits = random_bytes(rng, lits_needed(&seqs, 5));
            let mut c = cblock(lits, seqs);
            match k { 0 => c.ll_mode = mode, 1 => c.of_mode = mode, _ => c.ml_mode = mode }
            add(&format!("mode_{kname}_{mname}"), frame_of(vec![prefix_block(rng), BlockPlan::Compressed(c)]));
        }
    }
    {
        // Chain of blocks exercising every mode transition.
        let uniform = |rng: &mut Rng, ll: u32, ml: u32, off: u32| -> CompressedPlan {
            let seqs: Vec<SeqPlan> = (0..8).map(|_| sq(ll, ml, OffsetPlan::Raw(off))).collect();
            cblock(random_bytes(rng, lits_needed(&seqs, 3)), seqs)
        };
        let varied = |rng: &mut Rng| -> CompressedPlan {
            let seqs = varied_seqs(rng, 25);
            cblock(random_bytes(rng, lits_needed(&seqs, 3)), seqs)
        };
        let all = |c: CompressedPlan, m: TableMode| BlockPlan::Compressed(with_modes(c, m.clone(), m.clone(), m));
        // FSE tables over the full alphabets, so that a later Repeat_Mode block can use any code.
        let full = |rng: &mut Rng, k: usize| -> TableMode {
            let (norm, log) = random_norm_for(rng, k, &[], true, [MAX_LL_CODE, 28, MAX_ML_CODE][k]);
            TableMode::Fse { acc_log: Some(log), norm: Some(norm) }
        };
        let all_full = |rng: &mut Rng, c: CompressedPlan| {
            let (l, o, m) = (full(rng, 0), full(rng, 1), full(rng, 2));
            BlockPlan::Compressed(with_modes(c, l, o, m))
        };
        let mut blocks = vec![prefix_block(rng)];
        let c = varied(rng);
        blocks.push(all_full(rng, c));                                  // FSE with full-alphabet tables
        blocks.push(all(varied(rng), TableMode::Repeat));               // Repeat after FSE
        blocks.push(all(uniform(rng, 2, 7, 100), TableMode::Rle));      // RLE after Repeat
        blocks.push(all(uniform(rng, 2, 7, 100), TableMode::Repeat));   // Repeat after RLE (same symbols)
        blocks.push(all(uniform(rng, 2, 7, 100), TableMode::Repeat));   // Repeat after Repeat
        blocks.push(all(uniform(rng, 17, 40, 300), TableMode::Rle));    // RLE after Repeat, other symbols
        blocks.push(all(varied(rng), TableMode::Predefined));           // Predefined after RLE
        blocks.push(all(varied(rng), TableMode::Repeat));               // Repeat after Predefined
        blocks.push(all(varied(rng), fse_auto()));                      // FSE after Repeat
        blocks.push(all(varied(rng), TableMode::Predefined));           // Predefined after FSE
        let c = varied(rng);
        blocks.push(all_full(rng, c));
        blocks.push(BlockPlan::Compressed(cblock(random_bytes(rng, 10), Vec::new()))); // no sequences: tables survive
        blocks.push(BlockPlan::Raw(random_bytes(rng, 10)));
        blocks.push(BlockPlan::Rle { byte: 0, len: 10 });
        blocks.push(all(varied(rng), TableMode::Repeat));               // Repeat of the FSE tables from 4 blocks ago
        let c = varied(rng);
        blocks.push(all_full(rng, c));                                  // FSE after Repeat (new tables)
        let c = varied(rng);
        let m = full(rng, 2);
        blocks.push(BlockPlan::Compressed(with_modes(c, TableMode::Repeat, TableMode::Predefined, m)));
        let c = varied(rng);
        let l = full(rng, 0);
        blocks.push(BlockPlan::Compressed(with_modes(c, l, TableMode::Repeat, TableMode::Repeat)));
        let o = full(rng, 1);
        blocks.push(BlockPlan::Compressed(with_modes(uniform(rng, 0, 3, 1), TableMode::Rle, o, TableMode::Predefined)));
        blocks.push(BlockPlan::Compressed(with_modes(uniform(rng, 0, 3, 1), TableMode::Repeat, TableMode::Rle, TableMode::Rle)));
        blocks.push(BlockPlan::Compressed(with_modes(uniform(rng, 0, 3, 1), TableMode::Repeat, TableMode::Repeat, TableMode::Repeat)));
        add("modes_chain", frame_of(blocks));
    }
    {
        // Every legal accuracy log, derived and explicit (with "less than one" symbols).
        let mut blocks = vec![prefix_block(rng)];
        for log in 5u8..=9 {
            let seqs = varied_seqs(rng, 30);
            let c = cblock(random_bytes(rng, lits_needed(&seqs, 0)), seqs);
            let of_log = log.min(OF_MAX_LOG);
            blocks.push(BlockPlan::Compressed(with_modes(c,
                TableMode::Fse { acc_log: Some(log), norm: None },
                TableMode::Fse { acc_log: Some(of_log), norm: None },
                TableMode::Fse { acc_log: Some(log), norm: None })));
        }
        add("fse_all_acc_logs", frame_of(blocks));
        let mut blocks = vec![prefix_block(rng)];
        for i in 0..12 {
            let seqs = varied_seqs(rng, 30);
            let c = cblock(random_bytes(rng, lits_needed(&seqs, 0)), seqs);
            let (lln, lll) = random_norm_for(rng, 0, &[], true, MAX_LL_CODE);
            let (ofn, ofl) = random_norm_for(rng, 1, &[], true, if i % 2 == 0 { MAX_OF_CODE } else { 20 });
            let (mln, mll) = random_norm_for(rng, 2, &[], true, MAX_ML_CODE);
            blocks.push(BlockPlan::Compressed(with_modes(c,
                TableMode::Fse { acc_log: Some(lll), norm: Some(lln) },
                TableMode::Fse { acc_log: Some(ofl), norm: Some(ofn) },
                TableMode::Fse { acc_log: Some(mll), norm: Some(mln) })));
        }
        add("fse_explicit_full_alphabets", frame_of(blocks));
    }

    // ---- Sequences: Number_of_Sequences forms ----
    {
        // ll = 0, ml = 3, offset value 1: no extra bits, RLE tables => the bitstream is 1 byte.
        let zero_bit = |n: usize, form: CountForm| -> FramePlan {
            let seqs: Vec<SeqPlan> = (0..n).map(|_| sq(0, 3, OffsetPlan::Repeat(1))).collect();
            let mut c = with_modes(cblock(b"tail".to_vec(), seqs), TableMode::Rle, TableMode::Rle, TableMode::Rle);
            c.seq_count_form = form;
            frame_of(vec![BlockPlan::Raw(b"0123456789abcdef".to_vec()), BlockPlan::Compressed(c)])
        };
        for n in [1usize, 2, 127, 128, 129, 255, 256, 0x7EFF, 0x7F00, 0x7F01, 0x8000, 40000, 43000] {
            add(&format!("seq_count_{n}"), zero_bit(n, CountForm::Auto));
        }
        for n in [1usize, 2, 100, 127] {
            add(&format!("seq_count_{n}_two_byte_form"), zero_bit(n, CountForm::Two));
        }
        // Same counts with predefined tables and one literal per sequence.
        for n in [127usize, 128, 0x7EFF, 0x7F00] {
            let seqs: Vec<SeqPlan> = (0..n).map(|i| sq(1, 3, OffsetPlan::Raw(1 + (i % 13) as u32))).collect();
            let c = cblock(skewed(rng, n, 4, b'a'), seqs);
            add(&format!("seq_count_{n}_predefined"), frame_of(vec![BlockPlan::Raw(b"0123456789abcdef".to_vec()), BlockPlan::Compressed(c)]));
        }
        add("seq_none_with_literals", frame_of(vec![BlockPlan::Compressed(cblock(random_bytes(rng, 77), Vec::new()))]));
    }

    // ---- Offsets ----
    {
        // repeat codes with ll > 0 and ll == 0, including the history updates, across blocks
        let setup = vec![sq(2, 5, OffsetPlan::Raw(10)), sq(2, 5, OffsetPlan::Raw(20)), sq(2, 5, OffsetPlan::Raw(30))];
        let mut seqs = setup.clone();
        for k in [1u8, 2, 3, 3, 2, 1, 2, 2, 3, 1] {
            seqs.push(sq(1, 4, OffsetPlan::Repeat(k)));
        }
        add("rep_codes_ll_positive", frame_of(vec![prefix_block(rng), BlockPlan::Compressed(cblock(random_bytes(rng, lits_needed(&seqs, 2)), seqs))]));
        let mut seqs = setup.clone();
        for k in [1u8, 2, 3, 3, 2, 1, 2, 2, 3, 1, 3, 3] {
            seqs.push(sq(0, 4, OffsetPlan::Repeat(k)));
        }
        add("rep_codes_ll_zero", frame_of(vec![prefix_block(rng), BlockPlan::Compressed(cblock(random_bytes(rng, lits_needed(&seqs, 2)), seqs))]));
        let mut seqs = setup.clone();
        for i in 0..40u32 {
            seqs.push(sq(i % 2, 3 + i % 5, OffsetPlan::Repeat(1 + (i * 7 % 3) as u8)));
        }
        add("rep_codes_mixed", frame_of(vec![prefix_block(rng), BlockPlan::Compressed(cblock(random_bytes(rng, lits_needed(&seqs, 0)), seqs))]));
        // initial history 1, 4, 8 used directly
        let seqs = vec![sq(9, 4, OffsetPlan::Repeat(3)), sq(1, 4, OffsetPlan::Repeat(3)), sq(1, 4, OffsetPlan::Repeat(3)), sq(0, 3, OffsetPlan::Repeat(2))];
        add("rep_codes_initial_history", frame_of(vec![BlockPlan::Compressed(cblock(random_bytes(rng, lits_needed(&seqs, 0)), seqs))]));
        // history survives raw / RLE blocks and blocks without sequences
        let b1 = cblock(random_bytes(rng, 6), setup.clone());
        let b2 = cblock(random_bytes(rng, 3), vec![sq(1, 6, OffsetPlan::Repeat(3)), sq(1, 6, OffsetPlan::Repeat(2)), sq(0, 6, OffsetPlan::Repeat(3))]);
        add("rep_codes_across_blocks", frame_of(vec![
            prefix_block(rng), BlockPlan::Compressed(b1), BlockPlan::Raw(random_bytes(rng, 40)), BlockPlan::Rle { byte: 5, len: 9 },
            BlockPlan::Compressed(cblock(random_bytes(rng, 4), Vec::new())), BlockPlan::Compressed(b2),
        ]));
        // Actual offsets: the synthesiser picks repeat codes by itself
        let seqs: Vec<SeqPlan> = (0..60u32).map(|i| sq(i % 3, 4, OffsetPlan::Actual([10, 20, 30, 10, 19, 500][(i % 6) as usize]))).collect();
        add("rep_codes_chosen_by_synthesiser", frame_of(vec![prefix_block(rng), BlockPlan::Compressed(cblock(random_bytes(rng, lits_needed(&seqs, 0)), seqs))]));
    }
    {
        let mut seqs = Vec::new();
        for off in [1u32, 2, 3, 7, 8, 15, 16, 17, 31, 32, 33] {
            seqs.push(sq(3, 100, OffsetPlan::Raw(off)));
            seqs.push(sq(0, (off + 1).max(3), OffsetPlan::Raw(off)));
            seqs.push(sq(1, 1000, OffsetPlan::Raw(off)));
        }
        add("overlapping_matches", frame_of(vec![prefix_block(rng), BlockPlan::Compressed(cblock(random_bytes(rng, lits_needed(&seqs, 1)), seqs))]));
        add("overlap_from_first_byte", frame_of(vec![BlockPlan::Compressed(cblock(vec![b'a'], vec![sq(1, 131071, OffsetPlan::Raw(1))]))]));
        add("long_literals_length_code_35", frame_of(vec![BlockPlan::Compressed(cblock(random_bytes(rng, 100_000), vec![sq(100_000, 3, OffsetPlan::Raw(99_999))]))]));
        add("long_match_length_code_52", frame_of(vec![BlockPlan::Compressed(cblock(random_bytes(rng, 500), vec![sq(500, 130_000, OffsetPlan::Raw(500))]))]));
        // every LL code and every ML code at least once (several blocks because of the 128 KiB limit)
        let mut blocks = vec![prefix_block(rng)];
        let mut seqs: Vec<SeqPlan> = Vec::new();
        const BUDGET: u32 = 120_000; // leaves room for the section headers within 128 KiB
        let mut budget = BUDGET;
        // lowest value of each code, or the highest one for every other short code
        let pick = |c: usize, base: u32, bits: u8| base + if bits <= 8 && c % 2 == 1 { (1u32 << bits) - 1 } else { 0 };
        let mut pairs: Vec<(u32, u32)> = (0..36usize).map(|c| (pick(c, LL_BASE[c], LL_BITS[c]), 3)).collect();
        pairs.extend((0..53usize).map(|c| (0, pick(c, ML_BASE[c], ML_BITS[c]))));
        for (ll, ml) in pairs {
            if ll + ml > budget {
                blocks.push(BlockPlan::Compressed(cblock(random_bytes(rng, lits_needed(&seqs, 0)), std::mem::take(&mut seqs))));
                budget = BUDGET;
            }
            budget -= ll + ml;
            seqs.push(sq(ll, ml, OffsetPlan::Raw(rng.range(1, 1000) as u32)));
        }
        blocks.push(BlockPlan::Compressed(cblock(random_bytes(rng, lits_needed(&seqs, 0)), seqs)));
        add("all_ll_and_ml_codes", frame_of(blocks));
    }
    {
        // offset codes 2..=17 against 256 KiB of noise, predefined table
        let mut blocks = vec![BlockPlan::Raw(random_bytes(rng, MAX_BLOCK_SIZE)), BlockPlan::Raw(random_bytes(rng, MAX_BLOCK_SIZE))];
        let mut seqs = Vec::new();
        for c in 2..=17u32 {
            for v in [1u32 << c, (1 << c) + rng.below(1 << c) as u32, (2 << c) - 1] {
                seqs.push(sq(1, 5, OffsetPlan::Raw(v - 3)));
            }
        }
        blocks.push(BlockPlan::Compressed(cblock(random_bytes(rng, lits_needed(&seqs, 0)), seqs)));
        add("offset_codes_2_17", frame_of(blocks));
    }
    add("offset_codes_0_26_and_57_extra_bits", long_prefix_plan(rng, 512, 2..=26, true));
    if huge {
        add("offset_codes_27_30_huge", long_prefix_plan(rng, 8192, 27..=30, false));
    }

    // ---- Window limits used exactly ----
    {
        // window 1 KiB: blocks of exactly 1024 bytes, offsets of exactly 1024
        let h = HeaderSpec { window_descriptor: Some(0), ..hdr() };
        let seqs = vec![sq(10, 500, OffsetPlan::Raw(1024)), sq(0, 514, OffsetPlan::Raw(1024))];
        add("window_1k_exact_limits", FramePlan { header: h, ..frame_of(vec![
            BlockPlan::Raw(random_bytes(rng, 1024)),
            BlockPlan::Rle { byte: 1, len: 1024 },
            BlockPlan::Compressed(cblock(random_bytes(rng, 10), seqs)),
        ]) });
    }

    // ---- Dictionary ----
    {
        let dict = make_dict(&mut Rng::new(0xD1C7), 0x2A, 3000);
        let alphabet: Vec<u8> = {
            let (l, _) = dict.huf_lengths().unwrap();
            (0..l.len()).filter(|&s| l[s] > 0).map(|s| s as u8).collect()
        };
        let with_dict = |blocks: Vec<BlockPlan>, id: Option<(u32, u8)>| FramePlan {
            header: HeaderSpec { dict_id: id, ..hdr() }, dict: Some(dict.clone()), ..frame_of(blocks) };
        let seqs = vec![
            sq(0, 20, OffsetPlan::Raw(5)),      // entirely inside the dictionary
            sq(0, 50, OffsetPlan::Raw(30)),     // starts in the dictionary, runs into the output
            sq(2, 30, OffsetPlan::Raw(3000 + 72)), // the very first byte of the dictionary
            sq(1, 9, OffsetPlan::Raw(40)),      // ordinary match
        ];
        let c = cblock(random_bytes(rng, lits_needed(&seqs, 4)), seqs);
        add("dict_matches_id1", with_dict(vec![BlockPlan::Compressed(c.clone())], Some((0x2A, 1))));
        add("dict_matches_id2", with_dict(vec![BlockPlan::Compressed(c.clone())], Some((0x2A, 2))));
        add("dict_matches_id4", with_dict(vec![BlockPlan::Compressed(c.clone())], Some((0x2A, 4))));
        add("dict_matches_no_id", with_dict(vec![BlockPlan::Compressed(c)], None));
        let seqs = vec![sq(0, 8, OffsetPlan::Repeat(1)), sq(0, 8, OffsetPlan::Repeat(2)), sq(3, 8, OffsetPlan::Repeat(3)), sq(3, 8, OffsetPlan::Repeat(1))];
        add("dict_repeat_offsets", with_dict(vec![BlockPlan::Compressed(cblock(random_bytes(rng, lits_needed(&seqs, 0)), seqs))], Some((0x2A, 1))));
        let seqs = varied_seqs(rng, 30);
        let c = with_modes(cblock(random_bytes(rng, lits_needed(&seqs, 0)), seqs), TableMode::Repeat, TableMode::Repeat, TableMode::Repeat);
        add("dict_tables_repeat_mode", with_dict(vec![prefix_block(rng), BlockPlan::Compressed(c)], Some((0x2A, 1))));
        let lits: Vec<u8> = (0..600).map(|_| *rng.pick(&alphabet)).collect();
        let c1 = CompressedPlan { lit: LitPlan::Treeless { streams: 1, size_format: None }, ..cblock(lits.clone(), Vec::new()) };
        let c4 = CompressedPlan { lit: LitPlan::Treeless { streams: 4, size_format: None }, ..cblock(lits, vec![sq(100, 10, OffsetPlan::Raw(700))]) };
        add("dict_huffman_treeless", with_dict(vec![BlockPlan::Compressed(c1), BlockPlan::Compressed(c4)], Some((0x2A, 1))));
        add("dict_unused", with_dict(vec![BlockPlan::Raw(random_bytes(rng, 100))], Some((0x2A, 1))));
        // dictionary content still reachable when exactly Window_Size bytes were produced
        let h = HeaderSpec { window_descriptor: Some(0), dict_id: Some((0x2A, 1)), ..hdr() };
        add("dict_match_at_window_limit", FramePlan { header: h, dict: Some(dict.clone()), ..frame_of(vec![
            BlockPlan::Raw(random_bytes(rng, 1000)),
            BlockPlan::Compressed(cblock(random_bytes(rng, 24), vec![sq(24, 100, OffsetPlan::Raw(1024 + 3000))])),
        ]) });
    }
    out
}

/// `nblocks` RLE blocks of 128 KiB with varying bytes, then one compressed block with one match
/// per offset code in `codes` (FSE offset table), plus offset codes 0 and 1 via repeat codes and
/// optionally a sequence carrying 57 extra bits (LL code 35, ML code 51, offset code 26).
fn long_prefix_plan(rng: &mut Rng, nblocks: usize, codes: std::ops::RangeInclusive<u32>, fat_sequence: bool) -> FramePlan {
    let mut blocks: Vec<BlockPlan> = (0..nblocks)
        .map(|i| BlockPlan::Rle { byte: (i as u32 * 37 + 11) as u8, len: MAX_BLOCK_SIZE as u32 })
        .collect();
    let prefix = (nblocks * MAX_BLOCK_SIZE) as u64;
    let mut seqs = Vec::new();
    let mut pos = prefix;
    if fat_sequence {
        let (ll, ml) = (65536 + 1234, 32771 + 4321);
        pos += ll as u64;
        seqs.push(sq(ll, ml, OffsetPlan::Raw((1 << 26) - 3 + (pos - (1 << 26) + 3).min(5) as u32)));
        pos += ml as u64;
    }
    for c in codes {
        // offset value in [2^c, 2^(c+1)), actual = value - 3, limited by what was produced
        pos += 1;
        let lo = (1u64 << c).max(4);
        let hi = ((2u64 << c) - 1).min(pos + 3);
        assert!(lo <= hi, "prefix too short for offset code {c}");
        for v in [lo, rng.range(lo, hi), hi] {
            seqs.push(sq(1, 5, OffsetPlan::Raw((v - 3) as u32)));
            pos += 6;
        }
        pos -= 1;
    }
    seqs.push(sq(1, 4, OffsetPlan::Repeat(1)));
    seqs.push(sq(1, 4, OffsetPlan::Repeat(2)));
    seqs.push(sq(1, 4, OffsetPlan::Repeat(3)));
    let lits = random_bytes(rng, lits_needed(&seqs, 3));
    blocks.push(BlockPlan::Compressed(with_modes(cblock(lits, seqs), TableMode::Predefined, fse_auto(), TableMode::Predefined)));
    frame_of(blocks)
}

// ---------------------------------------------------------------------------------------------
// Hostile plans
// ---------------------------------------------------------------------------------------------

/// Plans that serialise to well-formed bitstreams but break a semantic rule of the format; a
/// strict decoder must reject every one of them ([`Synthesised::rule_violations`] is non-empty).
/// The names say which rule is broken.
pub fn hostile_matrix() -> Vec<(String, FramePlan)> {
    let mut rng = Rng::new(0xBAD_5EED);
    let rng = &mut rng;
    let mut out: Vec<(String, FramePlan)> = Vec::new();
    let mut add = |name: &str, plan: FramePlan| out.push((name.to_string(), plan));
    let big_window = HeaderSpec { window_descriptor: Some(0x80), ..hdr() };
    let small_window = HeaderSpec { window_descriptor: Some(0), ..hdr() };

    // A compressed block regenerating far more than 128 KiB from a few bytes.
    for n in [2usize, 1000, 40000] {
        let seqs: Vec<SeqPlan> = (0..n).map(|_| sq(0, MAX_ML, OffsetPlan::Repeat(1))).collect();
        let c = with_modes(cblock(Vec::new(), seqs), TableMode::Rle, TableMode::Rle, TableMode::Rle);
        add(&format!("bomb_{n}_sequences_of_max_match_length"), FramePlan { header: big_window.clone(), ..frame_of(vec![BlockPlan::Raw(b"0123456789abcdef".to_vec()), BlockPlan::Compressed(c)]) });
    }
    add("block_regen_128k_plus_1", FramePlan { header: big_window.clone(), ..frame_of(vec![BlockPlan::Compressed(cblock(vec![b'a'; 2], vec![sq(1, MAX_BLOCK_SIZE as u32 - 1, OffsetPlan::Raw(1))]))]) });
    add("ll_code_35_with_ml_code_52", FramePlan { header: big_window.clone(), ..frame_of(vec![BlockPlan::Compressed(cblock(random_bytes(rng, 65536), vec![sq(65536, 65539, OffsetPlan::Raw(1))]))]) });
    add("raw_literals_1mib", FramePlan { header: big_window.clone(), ..frame_of(vec![BlockPlan::Compressed(cblock(random_bytes(rng, (1 << 20) - 1), Vec::new()))]) });
    add("raw_literals_128k_plus_1", FramePlan { header: big_window.clone(), ..frame_of(vec![BlockPlan::Compressed(cblock(random_bytes(rng, MAX_BLOCK_SIZE + 1), Vec::new()))]) });
    add("rle_literals_1mib", FramePlan { header: big_window.clone(), ..frame_of(vec![BlockPlan::Compressed(CompressedPlan { lit: LitPlan::Rle { size_format: None }, ..cblock(vec![7u8; (1 << 20) - 1], Vec::new()) })]) });
    add("rle_literals_128k_plus_1", FramePlan { header: big_window.clone(), ..frame_of(vec![BlockPlan::Compressed(CompressedPlan { lit: LitPlan::Rle { size_format: None }, ..cblock(vec![7u8; MAX_BLOCK_SIZE + 1], Vec::new()) })]) });
    add("huffman_literals_200k", FramePlan { header: big_window.clone(), ..frame_of(vec![BlockPlan::Compressed(CompressedPlan { lit: huf(4, Some(3), 11, HufDesc::Auto), ..cblock(skewed(rng, 200_000, 4, b'a'), Vec::new()) })]) });
    add("raw_block_128k_plus_1", FramePlan { header: big_window.clone(), ..frame_of(vec![BlockPlan::Raw(random_bytes(rng, MAX_BLOCK_SIZE + 1))]) });
    add("rle_block_128k_plus_1", FramePlan { header: big_window.clone(), ..frame_of(vec![BlockPlan::Rle { byte: 1, len: MAX_BLOCK_SIZE as u32 + 1 }]) });
    add("rle_block_2mib", FramePlan { header: big_window.clone(), ..frame_of(vec![BlockPlan::Rle { byte: 1, len: (1 << 21) - 1 }]) });
    add("raw_block_larger_than_window", FramePlan { header: small_window.clone(), ..frame_of(vec![BlockPlan::Raw(random_bytes(rng, 1025))]) });
    add("rle_block_larger_than_window", FramePlan { header: small_window.clone(), ..frame_of(vec![BlockPlan::Rle { byte: 1, len: 1025 }]) });
    add("compressed_block_regen_larger_than_window", FramePlan { header: small_window.clone(), ..frame_of(vec![BlockPlan::Compressed(cblock(vec![b'a'; 2], vec![sq(1, 1024, OffsetPlan::Raw(1))]))]) });
    add("compressed_block_stored_larger_than_window", FramePlan { header: small_window.clone(), ..frame_of(vec![BlockPlan::Compressed(cblock(random_bytes(rng, 1024), Vec::new()))]) });
    add("single_segment_block_larger_than_content", FramePlan {
        header: HeaderSpec { single_segment: true, fcs: Some((FCS_AUTO, 1)), ..hdr() },
        ..frame_of(vec![BlockPlan::Compressed(with_modes(cblock(b"abc".to_vec(), vec![sq(3, 3, OffsetPlan::Raw(3))]), fse_auto(), fse_auto(), fse_auto()))]) });

    // Offsets
    add("offset_beyond_output_first_sequence", frame_of(vec![BlockPlan::Compressed(cblock(b"abcd".to_vec(), vec![sq(4, 4, OffsetPlan::Raw(5))]))]));
    add("offset_beyond_output_no_literals", frame_of(vec![BlockPlan::Compressed(cblock(Vec::new(), vec![sq(0, 4, OffsetPlan::Repeat(1))]))]));
    add("offset_beyond_output_later", frame_of(vec![prefix_block(rng), BlockPlan::Compressed(cblock(b"abcd".to_vec(), vec![sq(2, 4, OffsetPlan::Raw(10)), sq(2, 4, OffsetPlan::Raw(1011))]))]));
    add("offset_huge", frame_of(vec![prefix_block(rng), BlockPlan::Compressed(with_modes(cblock(b"abcd".to_vec(), vec![sq(2, 4, OffsetPlan::Raw(0xFFFF_FFF0))]), TableMode::Predefined, TableMode::Rle, TableMode::Predefined))]));
    add("offset_beyond_window", FramePlan { header: small_window.clone(), ..frame_of(vec![
        BlockPlan::Raw(random_bytes(rng, 1024)), BlockPlan::Raw(random_bytes(rng, 1024)),
        BlockPlan::Compressed(cblock(b"ab".to_vec(), vec![sq(2, 4, OffsetPlan::Raw(1025))]))]) });
    add("offset_beyond_window_via_repeat", FramePlan { header: small_window.clone(), ..frame_of(vec![
        BlockPlan::Raw(random_bytes(rng, 1000)),
        BlockPlan::Compressed(cblock(b"ab".to_vec(), vec![sq(2, 4, OffsetPlan::Raw(1000))])),
        BlockPlan::Raw(random_bytes(rng, 1000)),
        BlockPlan::Compressed(cblock(b"ab".to_vec(), vec![sq(1, 4, OffsetPlan::Raw(1025)), sq(1, 4, OffsetPlan::Repeat(1))]))]) });
    add("repeat_offset_1_minus_1_is_zero", frame_of(vec![prefix_block(rng), BlockPlan::Compressed(cblock(b"ab".to_vec(), vec![sq(0, 4, OffsetPlan::Repeat(3))]))]));
    add("repeat_offset_1_minus_1_is_zero_later", frame_of(vec![prefix_block(rng), BlockPlan::Compressed(cblock(b"abcd".to_vec(), vec![sq(1, 4, OffsetPlan::Raw(1)), sq(0, 4, OffsetPlan::Repeat(3))]))]));
    {
        let dict = make_dict(&mut Rng::new(0xD1C7), 0x2A, 3000);
        let with_dict = |h: HeaderSpec, blocks: Vec<BlockPlan>| FramePlan { header: HeaderSpec { dict_id: Some((0x2A, 1)), ..h }, dict: Some(dict.clone()), ..frame_of(blocks) };
        add("dict_offset_before_dictionary_start", with_dict(hdr(), vec![BlockPlan::Compressed(cblock(b"ab".to_vec(), vec![sq(2, 4, OffsetPlan::Raw(3003))]))]));
        add("dict_match_after_window_exceeded", with_dict(small_window.clone(), vec![
            BlockPlan::Raw(random_bytes(rng, 1024)),
            BlockPlan::Compressed(cblock(b"a".to_vec(), vec![sq(1, 4, OffsetPlan::Raw(1030))]))]));
    }

    // Missing previous tables
    for (k, kname) in ["ll", "of", "ml"].iter().enumerate() {
        let seqs = varied_seqs(rng, 10);
        let mut c = cblock(random_bytes(rng, lits_needed(&seqs, 2)), seqs);
        match k { 0 => c.ll_mode = TableMode::Repeat, 1 => c.of_mode = TableMode::Repeat, _ => c.ml_mode = TableMode::Repeat }
        add(&format!("repeat_mode_{kname}_without_previous_table"), frame_of(vec![prefix_block(rng), BlockPlan::Compressed(c)]));
    }
    add("repeat_mode_after_block_without_sequences", frame_of(vec![
        prefix_block(rng),
        BlockPlan::Compressed(cblock(random_bytes(rng, 5), Vec::new())),
        BlockPlan::Compressed(with_modes(cblock(b"abcdef".to_vec(), vec![sq(2, 4, OffsetPlan::Raw(9))]), TableMode::Repeat, TableMode::Repeat, TableMode::Repeat)),
    ]));
    add("treeless_without_previous_tree", frame_of(vec![BlockPlan::Compressed(CompressedPlan { lit: LitPlan::Treeless { streams: 1, size_format: None }, ..cblock(skewed_all(rng, 200, 7, b'a'), Vec::new()) })]));
    add("treeless_after_raw_literals_only", frame_of(vec![
        BlockPlan::Compressed(cblock(random_bytes(rng, 50), Vec::new())),
        BlockPlan::Compressed(CompressedPlan { lit: LitPlan::Treeless { streams: 4, size_format: None }, ..cblock(skewed_all(rng, 200, 7, b'a'), Vec::new()) }),
    ]));

    // Literals accounting, header fields
    add("literals_length_exceeds_literals", frame_of(vec![prefix_block(rng), BlockPlan::Compressed(cblock(b"abc".to_vec(), vec![sq(2, 4, OffsetPlan::Raw(10)), sq(2, 4, OffsetPlan::Raw(10))]))]));
    add("fcs_too_small", FramePlan { header: HeaderSpec { fcs: Some((99, 4)), ..hdr() }, ..frame_of(vec![BlockPlan::Raw(random_bytes(rng, 100))]) });
    add("fcs_too_large", FramePlan { header: HeaderSpec { fcs: Some((101, 4)), ..hdr() }, ..frame_of(vec![BlockPlan::Raw(random_bytes(rng, 100))]) });
    add("fcs_wrong_single_segment", FramePlan { header: HeaderSpec { single_segment: true, fcs: Some((200, 1)), ..hdr() }, ..frame_of(vec![BlockPlan::Raw(random_bytes(rng, 100))]) });
    add("reserved_bit_set", FramePlan { header: HeaderSpec { reserved_bit: true, ..hdr() }, ..frame_of(vec![BlockPlan::Raw(random_bytes(rng, 100))]) });
    out
}

// ---------------------------------------------------------------------------------------------
// Dictionaries
// ---------------------------------------------------------------------------------------------

/// Builds a valid dictionary with non-trivial entropy tables: a Huffman table over a random
/// alphabet, full-alphabet FSE distributions (so `Repeat_Mode` can always use them), random
/// repeat offsets and `content_len` bytes of compressible content. `content_len` must be at
/// least 8.
pub fn make_dict(rng: &mut Rng, id: u32, content_len: usize) -> Dict {
    assert!(content_len >= 8, "dictionary content must hold at least 8 bytes");
    let huf_weights = loop {
        let k = rng.range(2, 200) as u32;
        let base = rng.below(256 - k as u64) as u8;
        let mut counts = [0u32; 256];
        for b in skewed_all(rng, 4000.max(k as usize), k, base) {
            counts[b as usize] += 1;
        }
        let lengths = huf::lengths_from_counts(&counts, rng.range(8, 11) as u8);
        let (w, _) = huf::lengths_to_weights(&lengths);
        if huf::write_description_fse(&w).is_some() || w.len() <= 128 {
            break w;
        }
    };
    let ll_norm = random_norm_for(rng, 0, &[], true, MAX_LL_CODE);
    let of_norm = random_norm_for(rng, 1, &[], true, MAX_OF_CODE);
    let ml_norm = random_norm_for(rng, 2, &[], true, MAX_ML_CODE);
    let mut content = Vec::with_capacity(content_len);
    while content.len() < content_len {
        let n = rng.log_range(1, 64) as usize;
        if content.len() > 16 && rng.chance(1, 2) {
            let start = rng.below(content.len() as u64 - 8) as usize;
            for i in 0..n.min(content.len() - start) {
                let b = content[start + i];
                content.push(b);
            }
        } else {
            content.extend_from_slice(&skewed(rng, n, 40, b' '));
        }
    }
    content.truncate(content_len);
    let max_rep = content_len as u64;
    let rep = [rng.range(1, max_rep) as u32, rng.range(1, max_rep) as u32, rng.range(1, max_rep) as u32];
    Dict { id, huf_weights, of_norm, ml_norm, ll_norm, rep, content }
}

// ---------------------------------------------------------------------------------------------
// Random valid plans
// ---------------------------------------------------------------------------------------------

/// A random valid plan regenerating at most `max_total` bytes. Always accepted by the reference
/// decoder and by the walker.
pub fn random_plan(rng: &mut Rng, max_total: usize) -> FramePlan {
    random_plan_inner(rng, None, max_total)
}

/// A random valid plan encoded against `dict`: uses its tables through `Repeat_Mode` / treeless
/// literals, its repeat offsets, and matches reaching into its content. The header carries the
/// dictionary id most of the time.
pub fn random_plan_with_dict(rng: &mut Rng, dict: &Dict, max_total: usize) -> FramePlan {
    random_plan_inner(rng, Some(dict), max_total)
}

fn random_plan_inner(rng: &mut Rng, dict: Option<&Dict>, max_total: usize) -> FramePlan {
    let total = rng.log_range(0, max_total as u64);
    let single_segment = rng.chance(1, 4);
    // Window: small ones are interesting (they bound offsets and block sizes).
    let window_descriptor = if single_segment {
        None
    } else {
        let exp = if rng.chance(1, 8) { rng.range(9, 21) } else { rng.range(0, 8) };
        Some((exp as u8) << 3 | rng.below(8) as u8)
    };
    let window = window_descriptor.map_or(u64::MAX, crate::frame::window_size_from_descriptor);
    let block_max = window.min(MAX_BLOCK_SIZE as u64);

    let mut engine = Engine::new(dict);
    let mut blocks: Vec<BlockPlan> = Vec::new();
    loop {
        let remaining = total - engine.produced;
        let cap = remaining.min(block_max);
        let block = match rng.below(10) {
            0 => {
                let n = rng.log_range(0, cap) as usize;
                BlockPlan::Raw(random_bytes(rng, n))
            }
            1 => BlockPlan::Rle { byte: rng.below(256) as u8, len: rng.log_range(0, cap) as u32 },
            _ => BlockPlan::Compressed(random_compressed(rng, &engine, dict, cap, window)),
        };
        engine.push_block(&block, false);
        engine.discard_bytes();
        blocks.push(block);
        if engine.produced >= total || blocks.len() >= 400 {
            break;
        }
    }
    let produced = engine.produced;
    // In a single-segment frame Window_Size is the content size: every stored block must fit.
    let single_segment = single_segment && engine.max_stored_block() as u64 <= produced;
    let fcs_width = |rng: &mut Rng, min: u8| -> u8 {
        let fits = |w: u8| match w {
            1 => produced < 256,
            2 => (256..=65535 + 256).contains(&produced),
            4 => produced <= u32::MAX as u64,
            _ => true,
        };
        let options: Vec<u8> = [1u8, 2, 4, 8].into_iter().filter(|&w| w >= min && fits(w)).collect();
        options[rng.below(options.len() as u64) as usize]
    };
    let mut header = HeaderSpec {
        window_descriptor: None,
        single_segment,
        fcs: None,
        dict_id: None,
        checksum: rng.chance(1, 2),
        reserved_bit: false,
    };
    if single_segment {
        header.fcs = Some((FCS_AUTO, fcs_width(rng, 1)));
    } else {
        // If the single-segment attempt was abandoned pick a window that covers everything.
        header.window_descriptor = window_descriptor
            .or(Some(crate::frame::window_descriptor_for(produced.max(engine.max_stored_block() as u64))));
        if rng.chance(1, 2) {
            header.fcs = Some((FCS_AUTO, fcs_width(rng, 2)));
        }
    }
    match dict {
        Some(d) if rng.chance(5, 6) => {
            let min = if d.id < 256 { 1 } else if d.id < 65536 { 2 } else { 4 };
            let w = *rng.pick(&[1u8, 2, 4]);
            header.dict_id = Some((d.id, w.max(min)));
        }
        None if rng.chance(1, 10) => header.dict_id = Some((0, *rng.pick(&[1u8, 2, 4]))),
        _ => {}
    }
    FramePlan { header, blocks, dict: dict.cloned(), checksum_override: None }
}

/// Generates one valid compressed block regenerating at most `cap` bytes, given the state the
/// shadow engine is in.
fn random_compressed(rng: &mut Rng, engine: &Engine, dict: Option<&Dict>, cap: u64, window: u64) -> CompressedPlan {
    let dict_len = dict.map_or(0, |d| d.content.len() as u64);
    let mut budget = cap;
    let mut pos = engine.produced;
    let mut rep = engine.rep();

    // ---- Sequences ----
    let target = if rng.chance(1, 10) {
        0
    } else if rng.chance(1, 40) {
        rng.log_range(1, 20_000)
    } else {
        rng.log_range(1, 300)
    };
    // Styles that make RLE tables possible.
    let fixed_ll = rng.chance(1, 5).then(|| rng.log_range(0, 15) as u32);
    let fixed_ml = rng.chance(1, 5).then(|| rng.log_range(3, 34) as u32);
    // 0: free, 1: always repeat code 1, 2: raw offsets sharing one offset code
    let of_style = if rng.chance(1, 5) { rng.range(1, 2) } else { 0 };
    let of_class = rng.range(2, 12) as u32;
    let mut seqs: Vec<SeqPlan> = Vec::new();
    for _ in 0..target {
        let mut ll = fixed_ll.unwrap_or_else(|| {
            if rng.chance(1, 50) {
                rng.log_range(0, 70_000) as u32
            } else {
                rng.log_range(0, 60) as u32
            }
        });
        if pos + ll as u64 == 0 && dict_len == 0 {
            ll = ll.max(1); // nothing to copy from yet
        }
        let ml = fixed_ml.unwrap_or_else(|| {
            if rng.chance(1, 50) {
                rng.log_range(3, MAX_ML as u64) as u32
            } else {
                rng.log_range(3, 80) as u32
            }
        });
        if ll as u64 + ml as u64 > budget {
            break;
        }
        let at = pos + ll as u64; // bytes produced when the match starts
        // Largest legal distance at this point.
        let max_off = if at <= window { (at + dict_len).min(u32::MAX as u64 - 3) } else { window.min(u32::MAX as u64 - 3) };
        if max_off == 0 {
            break;
        }
        let legal = |d: u32| d >= 1 && d as u64 <= max_off;
        let try_repeat = |k: u8| {
            let mut h = rep;
            let d = repeat_offset_step(&mut h, k as u32, ll);
            legal(d).then_some(OffsetPlan::Repeat(k))
        };
        let offset = match of_style {
            1 => try_repeat(1),
            2 => {
                // offset value in [2^c, 2^(c+1)) => distance in [2^c - 3, 2^(c+1) - 4]
                let lo = (1u64 << of_class) - 3;
                let hi = ((2u64 << of_class) - 4).min(max_off);
                (lo <= hi).then(|| OffsetPlan::Raw(rng.range(lo, hi) as u32))
            }
            _ => {
                if rng.chance(2, 5) {
                    try_repeat(rng.range(1, 3) as u8)
                } else {
                    None
                }
            }
        };
        let offset = match offset {
            Some(o) => o,
            None if of_style != 0 => break, // keep the block uniform
            None => {
                let d = rng.log_range(1, max_off) as u32;
                if rng.chance(1, 8) {
                    OffsetPlan::Raw(d)
                } else {
                    OffsetPlan::Actual(d)
                }
            }
        };
        let ov = resolve_offset_value(&rep, ll, offset);
        repeat_offset_step(&mut rep, ov, ll);
        seqs.push(sq(ll, ml, offset));
        pos += ll as u64 + ml as u64;
        budget -= ll as u64 + ml as u64;
    }
    let trailing = if rng.chance(1, 30) { rng.log_range(0, budget) } else { rng.log_range(0, budget.min(400)) } as usize;
    let nlit = lits_needed(&seqs, trailing);

    // ---- Literals ----
    let prev_alphabet: Option<Vec<u8>> =
        engine.huf_lengths().map(|l| (0..l.len()).filter(|&s| l[s] > 0).map(|s| s as u8).collect());
    let (literals, lit) = match rng.below(10) {
        0 if nlit >= 1 => (vec![rng.below(256) as u8; nlit], LitPlan::Rle { size_format: rng.chance(1, 4).then_some(3) }),
        1..=3 if nlit >= 2 => {
            // new Huffman table
            let k = rng.log_range(2, 256) as u32;
            let base = rng.below(257 - k as u64) as u8;
            let mut lits = skewed(rng, nlit, k, base);
            if lits.iter().all(|&b| b == lits[0]) {
                lits[0] = if lits[0] == base { base + 1 } else { base };
            }
            let distinct = { let mut seen = [false; 256]; lits.iter().for_each(|&b| seen[b as usize] = true); seen.iter().filter(|&&s| s).count() as u32 };
            let min_bits = (32 - (distinct - 1).leading_zeros()).max(1) as u64;
            let max_bits = rng.range(min_bits.min(11), 11) as u8;
            let streams = if nlit >= 6 && (nlit > 1000 || rng.chance(1, 2)) { 4 } else { 1 };
            let description = match rng.below(4) {
                0 if lits.iter().all(|&b| b <= 128) => HufDesc::Direct,
                _ => HufDesc::Auto,
            };
            (lits, huf(streams, None, max_bits, description))
        }
        4..=6 if nlit >= 1 && prev_alphabet.is_some() => {
            let alphabet = prev_alphabet.unwrap();
            let lits: Vec<u8> = (0..nlit).map(|_| *rng.pick(&alphabet)).collect();
            let streams = if nlit >= 6 && (nlit > 1000 || rng.chance(1, 2)) { 4 } else { 1 };
            (lits, LitPlan::Treeless { streams, size_format: None })
        }
        _ => {
            let sf = match rng.below(6) {
                0 if nlit < 4096 => Some(1),
                1 => Some(3),
                _ => None,
            };
            (random_bytes(rng, nlit), LitPlan::Raw { size_format: sf })
        }
    };

    // ---- Table modes ----
    let mut plan = cblock(literals, seqs);
    plan.lit = lit;
    if !plan.seqs.is_empty() {
        // Recompute the codes exactly as the synthesiser will.
        let mut h = engine.rep();
        let mut codes: [Vec<u8>; 3] = [Vec::new(), Vec::new(), Vec::new()];
        for s in &plan.seqs {
            let ov = resolve_offset_value(&h, s.ll, s.offset);
            repeat_offset_step(&mut h, ov, s.ll);
            codes[0].push(ll_code(s.ll));
            codes[1].push(of_code(ov));
            codes[2].push(ml_code(s.ml));
        }
        let mut modes = Vec::new();
        for k in 0..3 {
            let max_code = [MAX_LL_CODE, MAX_OF_CODE, MAX_ML_CODE][k];
            let supported = |table: &[fse::DEntry]| {
                let mut has = [false; 256];
                table.iter().for_each(|e| has[e.symbol as usize] = true);
                codes[k].iter().all(|&c| has[c as usize])
            };
            let mut options: Vec<u8> = vec![2, 2];
            if codes[k].iter().all(|&c| c == codes[k][0]) {
                options.extend_from_slice(&[1, 1, 1, 1]);
            }
            if k != 1 || codes[k].iter().all(|&c| c <= 28) {
                options.extend_from_slice(&[0, 0]);
            }
            if engine.table(k).is_some_and(supported) {
                options.extend_from_slice(&[3, 3, 3]);
            }
            modes.push(match *rng.pick(&options) {
                0 => TableMode::Predefined,
                1 => TableMode::Rle,
                3 => TableMode::Repeat,
                _ => {
                    if rng.chance(1, 2) {
                        fse_auto()
                    } else {
                        let mut must = codes[k].clone();
                        must.sort_unstable();
                        must.dedup();
                        let full = rng.chance(1, 4);
                        let (norm, log) = random_norm_for(rng, k, &must, full, max_code);
                        TableMode::Fse { acc_log: Some(log), norm: Some(norm) }
                    }
                }
            });
        }
        plan.ml_mode = modes.pop().unwrap();
        plan.of_mode = modes.pop().unwrap();
        plan.ll_mode = modes.pop().unwrap();
        if plan.seqs.len() < 0x7F00 && rng.chance(1, 10) {
            plan.seq_count_form = CountForm::Two;
        }
    }
    plan
}

#[cfg(test)]
mod tests {
    use super::*;
    use crate::walker::{walk_frame, WalkOpts};

    fn roundtrip(name: &str, plan: &FramePlan) {
        let s = synthesise(plan);
        assert!(s.rule_violations.is_empty(), "{name}: {:?}", s.rule_violations);
        let opts = WalkOpts { dict: plan.dict.as_ref(), max_output: 1 << 31, require_dict_if_id: true };
        let info = walk_frame(&s.bytes, &opts).unwrap_or_else(|e| panic!("{name}: {e}"));
        assert!(info.output == s.expected, "{name}: output differs");
        assert_eq!(info.frame_len, s.bytes.len(), "{name}");
        assert_eq!(info.blocks.iter().map(|b| b.offset).collect::<Vec<_>>(), s.block_offsets, "{name}");
    }

    #[test]
    fn random_plans_roundtrip_through_walker() {
        let mut rng = Rng::new(0xA11CE);
        let dict = make_dict(&mut Rng::new(3), 9, 500);
        let n = if cfg!(miri) { 4 } else { 400 };
        for i in 0..n {
            let max_total = if cfg!(miri) { 300 } else { 20_000 };
            let plan = if i % 3 == 0 {
                random_plan_with_dict(&mut rng, &dict, max_total)
            } else {
                random_plan(&mut rng, max_total)
            };
            roundtrip(&format!("random #{i}"), &plan);
        }
    }

    #[test]
    fn directed_plans_roundtrip_and_hostile_plans_are_rejected() {
        if cfg!(miri) {
            return; // the matrices build multi-megabyte plans; covered natively
        }
        for (name, plan) in feature_matrix() {
            roundtrip(&name, &plan);
        }
        for (name, plan) in hostile_matrix() {
            let s = synthesise(&plan);
            assert!(!s.rule_violations.is_empty(), "{name}");
            let opts = WalkOpts { dict: plan.dict.as_ref(), max_output: 64 << 20, require_dict_if_id: true };
            assert!(walk_frame(&s.bytes, &opts).is_err(), "{name}");
        }
    }

    #[test]
    fn generators_are_deterministic() {
        let a = synthesise(&random_plan(&mut Rng::new(5), 5000)).bytes;
        let b = synthesise(&random_plan(&mut Rng::new(5), 5000)).bytes;
        assert_eq!(a, b);
    }
}
