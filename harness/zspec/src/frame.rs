//! Frame-level containers: frame header, skippable frames and block headers
//! (RFC 8878 sections 3.1.1.1, 3.1.1.2 and 3.1.2).

/// Magic number of a Zstandard frame (stored little-endian).
pub const MAGIC: u32 = 0xFD2F_B528;
/// Magic number of skippable frames: `0x184D2A50 + nibble`.
pub const SKIPPABLE_MAGIC_BASE: u32 = 0x184D_2A50;
/// Absolute maximum of `Block_Maximum_Size` (128 KiB).
pub const MAX_BLOCK_SIZE: usize = 128 * 1024;
/// Smallest window size a `Window_Descriptor` can express (1 KiB).
pub const MIN_WINDOW_SIZE: u64 = 1 << 10;
/// Largest window size a `Window_Descriptor` can express: `(1 << 41) + 7 * (1 << 38)`.
pub const MAX_WINDOW_SIZE: u64 = (1 << 41) + 7 * (1 << 38);
/// Sentinel for [`HeaderSpec::fcs`]: "let the synthesiser fill in the real content size".
pub const FCS_AUTO: u64 = u64::MAX;

/// A parsed frame header.
#[derive(Clone, Debug, PartialEq, Eq)]
pub struct FrameHeader {
    /// Total header length in bytes, magic number included.
    pub header_len: usize,
    /// The `Frame_Header_Descriptor` byte.
    pub descriptor: u8,
    /// `Single_Segment_Flag`.
    pub single_segment: bool,
    /// `Content_Checksum_Flag`.
    pub checksum: bool,
    /// `Reserved_Bit` (must be 0 in a valid frame; reported, not rejected, by the parser).
    pub reserved_bit: bool,
    /// `Unused_Bit` (a decoder must ignore it).
    pub unused_bit: bool,
    /// `Window_Descriptor` byte, absent in single-segment frames.
    pub window_descriptor: Option<u8>,
    /// Dictionary id; `None` if the field is absent or holds 0.
    pub dict_id: Option<u32>,
    /// Size of the `Dictionary_ID` field: 0, 1, 2 or 4.
    pub dict_id_field_len: u8,
    /// `Frame_Content_Size` if present.
    pub fcs: Option<u64>,
    /// Size of the `Frame_Content_Size` field: 0, 1, 2, 4 or 8.
    pub fcs_field_len: u8,
    /// `Window_Size`: from the descriptor, or the content size for single-segment frames.
    pub window_size: u64,
}

impl FrameHeader {
    /// `Block_Maximum_Size = min(Window_Size, 128 KiB)`.
    pub fn block_max(&self) -> usize {
        self.window_size.min(MAX_BLOCK_SIZE as u64) as usize
    }
}

/// `Window_Size` of a `Window_Descriptor` byte: exponent in the high 5 bits, mantissa in the low 3.
pub fn window_size_from_descriptor(wd: u8) -> u64 {
    let exponent = (wd >> 3) as u32;
    let mantissa = (wd & 7) as u64;
    let base = 1u64 << (10 + exponent);
    base + (base / 8) * mantissa
}

/// The smallest `Window_Descriptor` whose window is at least `size`. Panics above
/// [`MAX_WINDOW_SIZE`].
pub fn window_descriptor_for(size: u64) -> u8 {
    (0..=255u8)
        .find(|&wd| window_size_from_descriptor(wd) >= size)
        .expect("window size exceeds the format maximum")
}

/// Parses a frame header; `src` must start with the magic number. Only structural problems
/// (wrong magic, truncation) are errors; the reserved bit is reported in the result.
pub fn parse_frame_header(src: &[u8]) -> Result<FrameHeader, String> {
    if src.len() < 4 {
        return Err("frame header: truncated magic number".to_string());
    }
    let magic = u32::from_le_bytes([src[0], src[1], src[2], src[3]]);
    if magic != MAGIC {
        return Err(format!("frame header: bad magic number {magic:#010x}"));
    }
    let descriptor = *src.get(4).ok_or_else(|| "frame header: truncated descriptor".to_string())?;
    let fcs_flag = descriptor >> 6;
    let single_segment = descriptor & 0x20 != 0;
    let unused_bit = descriptor & 0x10 != 0;
    let reserved_bit = descriptor & 0x08 != 0;
    let checksum = descriptor & 0x04 != 0;
    let dict_id_field_len = [0u8, 1, 2, 4][(descriptor & 3) as usize];
    let fcs_field_len = match fcs_flag {
        0 => single_segment as u8,
        1 => 2,
        2 => 4,
        _ => 8,
    };
    let header_len = 5 + (!single_segment) as usize + dict_id_field_len as usize + fcs_field_len as usize;
    if src.len() < header_len {
        return Err("frame header: truncated".to_string());
    }
    let mut pos = 5;
    let window_descriptor = if single_segment {
        None
    } else {
        pos += 1;
        Some(src[pos - 1])
    };
    let le = |bytes: &[u8]| bytes.iter().rev().fold(0u64, |acc, &b| (acc << 8) | b as u64);
    let did = le(&src[pos..pos + dict_id_field_len as usize]) as u32;
    pos += dict_id_field_len as usize;
    let fcs = if fcs_field_len == 0 {
        None
    } else {
        let v = le(&src[pos..pos + fcs_field_len as usize]);
        Some(if fcs_field_len == 2 { v + 256 } else { v })
    };
    let window_size = match window_descriptor {
        Some(wd) => window_size_from_descriptor(wd),
        None => fcs.unwrap_or(0),
    };
    Ok(FrameHeader {
        header_len,
        descriptor,
        single_segment,
        checksum,
        reserved_bit,
        unused_bit,
        window_descriptor,
        dict_id: if did == 0 { None } else { Some(did) },
        dict_id_field_len,
        fcs,
        fcs_field_len,
        window_size,
    })
}

/// Everything needed to write a frame header, with explicit control over field widths.
#[derive(Clone, Debug, PartialEq, Eq, Default)]
pub struct HeaderSpec {
    /// `Window_Descriptor`; must be `None` when `single_segment` is set. When it is `None` in a
    /// non single-segment header, [`crate::synth::synthesise`] picks the smallest window that
    /// covers the whole content (and [`write_frame_header`] panics).
    pub window_descriptor: Option<u8>,
    /// `Single_Segment_Flag`; requires `fcs`.
    pub single_segment: bool,
    /// `Frame_Content_Size` as `(value, field length)`, field length 1, 2, 4 or 8. Length 1 is
    /// only expressible together with `single_segment`; length 2 stores `value - 256`. The value
    /// [`FCS_AUTO`] asks the synthesiser to insert the real size.
    pub fcs: Option<(u64, u8)>,
    /// `Dictionary_ID` as `(value, field length)`, field length 1, 2 or 4.
    pub dict_id: Option<(u32, u8)>,
    /// `Content_Checksum_Flag`.
    pub checksum: bool,
    /// `Reserved_Bit` — setting it makes the frame invalid.
    pub reserved_bit: bool,
}

/// Serialises a frame header (magic number included).
///
/// Panics if the specification is not expressible: window descriptor together with single
/// segment, neither of them, single segment without FCS, a 1-byte FCS without single segment,
/// a value that does not fit its field, or an unresolved [`FCS_AUTO`].
pub fn write_frame_header(spec: &HeaderSpec) -> Vec<u8> {
    let mut out = MAGIC.to_le_bytes().to_vec();
    let mut descriptor = 0u8;
    if spec.single_segment {
        assert!(spec.window_descriptor.is_none(), "header: single segment excludes a window descriptor");
        assert!(spec.fcs.is_some(), "header: single segment requires a frame content size");
        descriptor |= 0x20;
    } else {
        assert!(spec.window_descriptor.is_some(), "header: a window descriptor is required");
    }
    if spec.reserved_bit {
        descriptor |= 0x08;
    }
    if spec.checksum {
        descriptor |= 0x04;
    }
    let mut fcs_bytes: Vec<u8> = Vec::new();
    if let Some((value, len)) = spec.fcs {
        assert!(value != FCS_AUTO, "header: FCS_AUTO was not resolved");
        let flag = match len {
            1 => {
                assert!(spec.single_segment, "header: a 1-byte FCS needs the single segment flag");
                assert!(value < 256, "header: FCS {value} does not fit in 1 byte");
                0u8
            }
            2 => {
                assert!((256..=65535 + 256).contains(&value), "header: FCS {value} does not fit in 2 bytes");
                1
            }
            4 => {
                assert!(value <= u32::MAX as u64, "header: FCS {value} does not fit in 4 bytes");
                2
            }
            8 => 3,
            _ => panic!("header: invalid FCS field length {len}"),
        };
        descriptor |= flag << 6;
        let stored = if len == 2 { value - 256 } else { value };
        fcs_bytes.extend_from_slice(&stored.to_le_bytes()[..len as usize]);
    }
    let mut did_bytes: Vec<u8> = Vec::new();
    if let Some((id, len)) = spec.dict_id {
        let flag = match len {
            1 => 1u8,
            2 => 2,
            4 => 3,
            _ => panic!("header: invalid dictionary id field length {len}"),
        };
        assert!(len == 4 || (id as u64) < 1u64 << (8 * len), "header: dictionary id {id} does not fit");
        descriptor |= flag;
        did_bytes.extend_from_slice(&id.to_le_bytes()[..len as usize]);
    }
    out.push(descriptor);
    if let Some(wd) = spec.window_descriptor {
        out.push(wd);
    }
    out.extend_from_slice(&did_bytes);
    out.extend_from_slice(&fcs_bytes);
    out
}

/// Sets the `Unused_Bit` of the frame starting at `frame[0]` (a decoder must ignore that bit).
pub fn set_unused_bit(frame: &mut [u8]) {
    frame[4] |= 0x10;
}

/// Builds a skippable frame: magic `0x184D2A50 + (magic_nibble & 15)`, 4-byte size, payload.
pub fn skippable_frame(magic_nibble: u8, payload: &[u8]) -> Vec<u8> {
    let mut out = (SKIPPABLE_MAGIC_BASE + (magic_nibble & 15) as u32).to_le_bytes().to_vec();
    out.extend_from_slice(&(payload.len() as u32).to_le_bytes());
    out.extend_from_slice(payload);
    out
}

/// If `src` starts with a complete skippable frame, returns `(magic nibble, total length)`.
/// `Ok(None)` if the magic number is not a skippable one; `Err` if it is but the frame is
/// truncated.
pub fn parse_skippable(src: &[u8]) -> Result<Option<(u8, usize)>, String> {
    if src.len() < 4 {
        return Ok(None);
    }
    let magic = u32::from_le_bytes([src[0], src[1], src[2], src[3]]);
    if magic & 0xFFFF_FFF0 != SKIPPABLE_MAGIC_BASE {
        return Ok(None);
    }
    if src.len() < 8 {
        return Err("skippable frame: truncated size".to_string());
    }
    let size = u32::from_le_bytes([src[4], src[5], src[6], src[7]]) as usize;
    if src.len() - 8 < size {
        return Err("skippable frame: truncated payload".to_string());
    }
    Ok(Some(((magic & 15) as u8, 8 + size)))
}

/// A 3-byte block header.
#[derive(Clone, Copy, Debug, PartialEq, Eq)]
pub struct BlockHeader {
    /// `Last_Block` flag.
    pub last: bool,
    /// `Block_Type`: 0 raw, 1 RLE, 2 compressed, 3 reserved.
    pub btype: u8,
    /// `Block_Size` (21 bits): stored size for raw and compressed blocks, regenerated size for
    /// RLE blocks.
    pub size: u32,
}

/// Parses a block header from the first 3 bytes of `src`.
pub fn parse_block_header(src: &[u8]) -> Result<BlockHeader, String> {
    if src.len() < 3 {
        return Err("block header: truncated".to_string());
    }
    let v = src[0] as u32 | (src[1] as u32) << 8 | (src[2] as u32) << 16;
    Ok(BlockHeader { last: v & 1 == 1, btype: ((v >> 1) & 3) as u8, size: v >> 3 })
}

/// Serialises a block header. Panics if the size needs more than 21 bits or the type more than 2.
pub fn write_block_header(h: &BlockHeader) -> [u8; 3] {
    assert!(h.size < 1 << 21, "block header: size {} does not fit in 21 bits", h.size);
    assert!(h.btype < 4, "block header: invalid type");
    let v = h.last as u32 | (h.btype as u32) << 1 | h.size << 3;
    [v as u8, (v >> 8) as u8, (v >> 16) as u8]
}

#[cfg(test)]
mod tests {
    use super::*;

    #[test]
    fn window_descriptor_values() {
        assert_eq!(window_size_from_descriptor(0), 1024);
        assert_eq!(window_size_from_descriptor(1), 1024 + 128);
        assert_eq!(window_size_from_descriptor(0xFF), MAX_WINDOW_SIZE);
        assert_eq!(window_descriptor_for(0), 0);
        assert_eq!(window_descriptor_for(1025), 1);
        assert_eq!(window_descriptor_for(1 << 20), 80);
    }

    #[test]
    fn header_roundtrip_all_shapes() {
        let fcs_opts: [Option<(u64, u8)>; 6] =
            [None, Some((200, 1)), Some((256, 2)), Some((65791, 2)), Some((70000, 4)), Some((1 << 40, 8))];
        let did_opts: [Option<(u32, u8)>; 5] = [None, Some((0, 1)), Some((7, 1)), Some((300, 2)), Some((1 << 20, 4))];
        for fcs in fcs_opts {
            for did in did_opts {
                for single_segment in [false, true] {
                    for checksum in [false, true] {
                        if single_segment && fcs.is_none() {
                            continue;
                        }
                        if !single_segment && fcs.is_some_and(|f| f.1 == 1) {
                            continue;
                        }
                        let spec = HeaderSpec {
                            window_descriptor: if single_segment { None } else { Some(0x23) },
                            single_segment,
                            fcs,
                            dict_id: did,
                            checksum,
                            reserved_bit: false,
                        };
                        let bytes = write_frame_header(&spec);
                        let h = parse_frame_header(&bytes).unwrap();
                        assert_eq!(h.header_len, bytes.len());
                        assert_eq!(h.single_segment, single_segment);
                        assert_eq!(h.checksum, checksum);
                        assert_eq!(h.fcs, fcs.map(|f| f.0));
                        assert_eq!(h.fcs_field_len, fcs.map_or(0, |f| f.1));
                        assert_eq!(h.dict_id_field_len, did.map_or(0, |d| d.1));
                        assert_eq!(h.dict_id, did.map(|d| d.0).filter(|&d| d != 0));
                        assert!(!h.reserved_bit && !h.unused_bit);
                        if single_segment {
                            assert_eq!(h.window_size, fcs.unwrap().0);
                        } else {
                            assert_eq!(h.window_size, window_size_from_descriptor(0x23));
                        }
                        for cut in 0..bytes.len() {
                            assert!(parse_frame_header(&bytes[..cut]).is_err());
                        }
                    }
                }
            }
        }
    }

    #[test]
    fn block_header_and_skippable() {
        let h = BlockHeader { last: true, btype: 2, size: 0x1F_FFFF };
        assert_eq!(parse_block_header(&write_block_header(&h)).unwrap(), h);
        let h = BlockHeader { last: false, btype: 1, size: 5 };
        assert_eq!(write_block_header(&h), [0x2A, 0, 0]);
        assert!(parse_block_header(&[0, 0]).is_err());
        let s = skippable_frame(3, b"hello");
        assert_eq!(parse_skippable(&s).unwrap(), Some((3, 13)));
        assert!(parse_skippable(&s[..12]).is_err());
        assert_eq!(parse_skippable(&MAGIC.to_le_bytes()).unwrap(), None);
    }
}
