//! `zspec` — an independent, executable model of the Zstandard compressed format (RFC 8878).
//!
//! The crate is used as an oracle against another implementation, so it is written from the
//! format specification only (plus constant tables transcribed from the reference C
//! implementation, see [`tables`]). It has no dependencies and uses no `unsafe`.
//!
//! * [`walker`] — a strict decoder that also reports the structure of a frame.
//! * [`synth`] — a frame synthesiser turning a [`synth::FramePlan`] into bytes plus the expected
//!   decompressed content, and generators of directed / random plans.
//! * [`fse`], [`huf`], [`bits`], [`frame`], [`dict`], [`tables`], [`xxh64`] — the building blocks.
//! * [`rng`] — a tiny deterministic PRNG for the generators.

#![forbid(unsafe_code)]
#![warn(missing_docs)]

pub mod bits;
pub mod dict;
pub mod frame;
pub mod fse;
pub mod huf;
pub mod plans;
pub mod rng;
pub mod seq;
pub mod synth;
pub mod tables;
pub mod walker;
pub mod xxh64;
