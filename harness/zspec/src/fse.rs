//! Finite State Entropy coding as used by Zstandard (RFC 8878 section 4.1).
//!
//! * [`build_dtable`] constructs a decoding table from a normalized distribution.
//! * [`read_ncount`] / [`write_ncount`] (de)serialise the "FSE table description".
//! * [`FseEncoder`] encodes by *searching the decoding table*: it does not derive an encoding
//!   table the way production encoders do, it simply finds, for a symbol and a destination
//!   state, the unique state of that symbol whose `[baseline, baseline + 2^nbits)` range contains
//!   the destination. Slow but obviously consistent with the decoder definition.
//! * [`encode_1state`], [`encode_2state`], [`decode_1state`], [`decode_2state`] are complete
//!   bitstream codecs; the 2-state flavour is the one used for Huffman weights. The 3-state
//!   interleaving of the sequences section lives in [`crate::seq`].

use crate::bits::{FwdBitReader, FwdBitWriter, RevBitReader, RevBitWriter};

/// Smallest accuracy log a table description can express.
pub const MIN_ACC_LOG: u8 = 5;

/// One cell of an FSE decoding table.
#[derive(Clone, Copy, Debug, PartialEq, Eq)]
pub struct DEntry {
    /// Symbol emitted in this state.
    pub symbol: u8,
    /// Number of bits to read to reach the next state.
    pub nbits: u8,
    /// Value added to the bits read to obtain the next state.
    pub baseline: u16,
}

fn highbit(v: u32) -> u32 {
    debug_assert!(v != 0);
    31 - v.leading_zeros()
}

/// log2 of a table length (which must be a power of two, 1 for RLE tables).
pub fn table_log(dtable: &[DEntry]) -> u8 {
    assert!(dtable.len().is_power_of_two(), "FSE table length must be a power of two");
    dtable.len().trailing_zeros() as u8
}

/// Checks that `norm` is a distribution for `acc_log`: counts are `>= -1`, and with `-1`
/// counted as 1 they sum to `1 << acc_log`.
pub fn check_norm(norm: &[i16], acc_log: u8) -> Result<(), String> {
    if acc_log > 15 {
        return Err(format!("fse: accuracy log {acc_log} too large"));
    }
    if norm.len() > 256 {
        return Err("fse: more than 256 symbols".to_string());
    }
    let mut sum = 0u32;
    for &c in norm {
        if c < -1 {
            return Err(format!("fse: invalid normalized count {c}"));
        }
        sum += if c == -1 { 1 } else { c as u32 };
    }
    if sum != 1 << acc_log {
        return Err(format!("fse: normalized counts sum to {sum}, expected {}", 1u32 << acc_log));
    }
    Ok(())
}

/// Builds the decoding table of a normalized distribution (RFC 8878 section 4.1.1).
///
/// `norm[s]` is the normalized count of symbol `s`; `-1` is the special "less than one"
/// probability: such symbols get one cell each, allocated from the end of the table, and always
/// read `acc_log` bits. Panics if `norm` is not a valid distribution for `acc_log`
/// (see [`check_norm`]).
pub fn build_dtable(norm: &[i16], acc_log: u8) -> Vec<DEntry> {
    check_norm(norm, acc_log).expect("build_dtable: invalid distribution");
    let size = 1usize << acc_log;
    let mask = size - 1;
    let mut symbol_of = vec![0u8; size];
    let mut next = vec![0u32; norm.len()];

    // "Less than one" symbols take the last cells, in symbol order from the end.
    let mut high = size; // cells [high, size) are taken
    for (s, &c) in norm.iter().enumerate() {
        if c == -1 {
            high -= 1;
            symbol_of[high] = s as u8;
            next[s] = 1;
        } else {
            next[s] = c as u32;
        }
    }

    // Spread the remaining symbols with the fixed step, skipping the reserved cells.
    let step = (size >> 1) + (size >> 3) + 3;
    let mut pos = 0usize;
    for (s, &c) in norm.iter().enumerate() {
        if c <= 0 {
            continue;
        }
        for _ in 0..c {
            symbol_of[pos] = s as u8;
            pos = (pos + step) & mask;
            while pos >= high {
                pos = (pos + step) & mask;
            }
        }
    }
    // With a valid distribution every cell has been visited exactly once.
    debug_assert!(pos == 0 || size == 1 || high == 0);

    // Number the cells of each symbol in table order: the k-th cell of a symbol with count c gets
    // the value c + k, which determines the number of bits and the baseline.
    let mut table = Vec::with_capacity(size);
    for &sym in symbol_of.iter() {
        let x = next[sym as usize];
        next[sym as usize] += 1;
        let nbits = acc_log as u32 - highbit(x);
        let baseline = (x << nbits) - size as u32;
        table.push(DEntry { symbol: sym, nbits: nbits as u8, baseline: baseline as u16 });
    }
    table
}

/// The one-cell table used for `RLE_Mode`: always `symbol`, never reads a bit.
pub fn rle_dtable(symbol: u8) -> Vec<DEntry> {
    vec![DEntry { symbol, nbits: 0, baseline: 0 }]
}

/// Serialises an FSE table description (RFC 8878 section 4.1.1).
///
/// Panics if `norm` is not a valid distribution for `acc_log`, if `acc_log` is outside `5..=15`
/// (20 cannot be expressed, the field is 4 bits) or if the last entry of `norm` is zero.
pub fn write_ncount(norm: &[i16], acc_log: u8) -> Vec<u8> {
    check_norm(norm, acc_log).expect("write_ncount: invalid distribution");
    assert!((MIN_ACC_LOG..=15).contains(&acc_log), "write_ncount: accuracy log {acc_log} not expressible");
    assert!(norm.last().is_some_and(|&c| c != 0), "write_ncount: last count must be non-zero");
    let mut w = FwdBitWriter::new();
    w.write((acc_log - MIN_ACC_LOG) as u64, 4);
    let mut remaining: i32 = (1 << acc_log) + 1;
    let mut threshold: i32 = 1 << acc_log;
    let mut nbits: u8 = acc_log + 1;
    let mut s = 0usize;
    while s < norm.len() {
        debug_assert!(remaining > 1);
        let count = norm[s] as i32;
        s += 1;
        let max = (2 * threshold - 1) - remaining;
        let value = count + 1; // 0 = "less than one", 1 = zero, ...
        if value < max {
            w.write(value as u64, nbits - 1);
        } else if value < threshold {
            w.write(value as u64, nbits);
        } else {
            w.write((value + max) as u64, nbits);
        }
        remaining -= count.abs();
        if count == 0 {
            // Repeat flags: how many more zero counts follow.
            let mut zeros = 0usize;
            while norm[s + zeros] == 0 {
                zeros += 1;
            }
            s += zeros;
            while zeros >= 3 {
                w.write(3, 2);
                zeros -= 3;
            }
            w.write(zeros as u64, 2);
        }
        while remaining < threshold && threshold > 1 {
            nbits -= 1;
            threshold >>= 1;
        }
    }
    assert_eq!(remaining, 1);
    w.finish()
}

/// Parses an FSE table description.
///
/// `max_log` is the largest accuracy log allowed, `max_symbol` the largest symbol value allowed.
/// Returns `(norm, acc_log, bytes consumed)`; `norm` ends with its last non-zero entry.
/// Strict: every bit needed must be inside `src`, probabilities must sum exactly to the table
/// size, no symbol beyond `max_symbol` may be described.
pub fn read_ncount(src: &[u8], max_log: u8, max_symbol: usize) -> Result<(Vec<i16>, u8, usize), String> {
    let mut r = FwdBitReader::new(src);
    let acc_log = r.read(4)? as u8 + MIN_ACC_LOG;
    if acc_log > max_log {
        return Err(format!("fse description: accuracy log {acc_log} exceeds maximum {max_log}"));
    }
    let mut remaining: i32 = (1 << acc_log) + 1;
    let mut threshold: i32 = 1 << acc_log;
    let mut nbits: u8 = acc_log + 1;
    let mut norm: Vec<i16> = Vec::new();
    while remaining > 1 {
        if norm.len() > max_symbol {
            return Err(format!("fse description: more than {} symbols", max_symbol + 1));
        }
        let max = (2 * threshold - 1) - remaining;
        let low = r.peek(nbits - 1) as i32;
        let value = if low < max {
            r.consume(nbits - 1)?;
            low
        } else {
            let v = r.read(nbits)? as i32;
            if v >= threshold {
                v - max
            } else {
                v
            }
        };
        let count = value - 1;
        remaining -= count.abs();
        if remaining < 1 {
            return Err("fse description: probabilities exceed the table size".to_string());
        }
        norm.push(count as i16);
        if count == 0 {
            loop {
                let rep = r.read(2)? as usize;
                norm.resize(norm.len() + rep, 0);
                if norm.len() > max_symbol + 1 {
                    return Err(format!("fse description: more than {} symbols", max_symbol + 1));
                }
                if rep != 3 {
                    break;
                }
            }
        }
        while remaining < threshold && threshold > 1 {
            nbits -= 1;
            threshold >>= 1;
        }
    }
    if norm.len() > max_symbol + 1 {
        return Err(format!("fse description: more than {} symbols", max_symbol + 1));
    }
    Ok((norm, acc_log, r.bytes_consumed()))
}

/// Produces *some* valid normalization of `counts` for `acc_log`: every symbol with a non-zero
/// count gets a probability of at least 1 (or `-1` when `low_prob` is set and its fair share is
/// below 1). The result is trimmed after the last present symbol.
///
/// Panics if no symbol is present or if more symbols are present than the table has cells.
pub fn normalize_with(counts: &[u32], acc_log: u8, low_prob: bool) -> Vec<i16> {
    let size = 1u64 << acc_log;
    let total: u64 = counts.iter().map(|&c| c as u64).sum();
    let present = counts.iter().filter(|&&c| c > 0).count() as u64;
    assert!(present >= 1, "normalize: no symbol present");
    assert!(present <= size, "normalize: more symbols than table cells");
    let last = counts.iter().rposition(|&c| c > 0).unwrap();
    let mut cells = vec![0u64; last + 1]; // cells taken by each symbol
    let mut low = vec![false; last + 1];
    for s in 0..=last {
        let c = counts[s] as u64;
        if c == 0 {
            continue;
        }
        let share = c * size / total;
        if share == 0 {
            cells[s] = 1;
            low[s] = low_prob;
        } else {
            cells[s] = share;
        }
    }
    let mut sum: u64 = cells.iter().sum();
    // Too many cells: take them back from the largest holders.
    while sum > size {
        let (s, _) = cells.iter().enumerate().max_by_key(|&(s, &n)| (n, counts[s])).unwrap();
        debug_assert!(cells[s] > 1);
        cells[s] -= 1;
        sum -= 1;
    }
    // Too few: the most frequent symbol takes the rest.
    if sum < size {
        let (s, _) = counts[..=last].iter().enumerate().max_by_key(|&(_, &c)| c).unwrap();
        cells[s] += size - sum;
        low[s] = false;
    }
    (0..=last).map(|s| if low[s] { -1 } else { cells[s] as i16 }).collect()
}

/// [`normalize_with`] without "less than one" probabilities.
pub fn normalize(counts: &[u32], acc_log: u8) -> Vec<i16> {
    normalize_with(counts, acc_log, false)
}

/// Encoder that works by searching a decoding table.
#[derive(Clone, Debug)]
pub struct FseEncoder {
    acc_log: u8,
    table: Vec<DEntry>,
    /// For each symbol present: `lookup[next_state] = state` such that decoding `state` can lead
    /// to `next_state`.
    lookup: Vec<Option<Vec<u16>>>,
    /// States of each symbol in table order.
    states: Vec<Vec<u16>>,
}

impl FseEncoder {
    /// Prepares the search structures for a decoding table (length a power of two, 1 for RLE).
    pub fn new(dtable: &[DEntry]) -> Self {
        let acc_log = table_log(dtable);
        let size = dtable.len();
        let mut lookup: Vec<Option<Vec<u16>>> = vec![None; 256];
        let mut states: Vec<Vec<u16>> = vec![Vec::new(); 256];
        for (st, e) in dtable.iter().enumerate() {
            let l = lookup[e.symbol as usize].get_or_insert_with(|| vec![u16::MAX; size]);
            let lo = e.baseline as usize;
            let hi = lo + (1usize << e.nbits);
            assert!(hi <= size, "FSE table cell reaches beyond the table");
            for slot in &mut l[lo..hi] {
                assert_eq!(*slot, u16::MAX, "FSE table: overlapping destination ranges");
                *slot = st as u16;
            }
            states[e.symbol as usize].push(st as u16);
        }
        FseEncoder { acc_log, table: dtable.to_vec(), lookup, states }
    }

    /// Accuracy log of the table.
    pub fn acc_log(&self) -> u8 {
        self.acc_log
    }

    /// True if the table can emit `symbol`.
    pub fn has_symbol(&self, symbol: u8) -> bool {
        !self.states[symbol as usize].is_empty()
    }

    /// All states emitting `symbol`, in table order. The first one reads the most bits.
    pub fn states_of(&self, symbol: u8) -> &[u16] {
        &self.states[symbol as usize]
    }

    /// The state that emits `symbol` and from which the decoder can move to `next_state`,
    /// together with the bits `(value, nbits)` the decoder must read for that move.
    /// Panics if the table cannot emit `symbol`.
    pub fn state_before(&self, symbol: u8, next_state: u16) -> (u16, u64, u8) {
        let l = self.lookup[symbol as usize]
            .as_ref()
            .unwrap_or_else(|| panic!("FSE table has no state for symbol {symbol}"));
        let st = l[next_state as usize];
        assert!(st != u16::MAX, "FSE table: symbol {symbol} cannot precede state {next_state}");
        let e = self.table[st as usize];
        (st, (next_state - e.baseline) as u64, e.nbits)
    }
}

/// Encodes `symbols` with a single state. The decoder reads the initial state, then for each
/// symbol emits it and (except after the last one) reads the bits of the next state.
/// `symbols` must not be empty and every symbol must exist in the table (panics otherwise).
pub fn encode_1state(dtable: &[DEntry], symbols: &[u8]) -> Vec<u8> {
    assert!(!symbols.is_empty(), "encode_1state: no symbols");
    let enc = FseEncoder::new(dtable);
    let n = symbols.len();
    let mut fields: Vec<(u64, u8)> = Vec::with_capacity(n);
    let mut state = enc.states_of(symbols[n - 1]).first().copied().expect("symbol not in table");
    // Walk backwards: fields are collected in reverse read order.
    for &s in symbols[..n - 1].iter().rev() {
        let (st, v, nb) = enc.state_before(s, state);
        fields.push((v, nb));
        state = st;
    }
    fields.push((state as u64, enc.acc_log()));
    fields.reverse();
    RevBitWriter::from_read_order(&fields)
}

/// Decodes exactly `n` symbols written by [`encode_1state`]. Strict: the stream must be consumed
/// exactly.
pub fn decode_1state(dtable: &[DEntry], src: &[u8], n: usize) -> Result<Vec<u8>, String> {
    let acc_log = table_log(dtable);
    let mut r = RevBitReader::new(src)?;
    let mut out = Vec::with_capacity(n);
    if n == 0 {
        return Err("fse: cannot decode zero symbols".to_string());
    }
    let mut state = r.read(acc_log) as usize;
    for i in 0..n {
        let e = dtable[state];
        out.push(e.symbol);
        if i + 1 < n {
            state = e.baseline as usize + r.read(e.nbits) as usize;
        }
    }
    if !r.is_exactly_consumed() {
        return Err(format!("fse: stream not consumed exactly ({} bits left)", r.bits_left()));
    }
    Ok(out)
}

/// Encodes `symbols` (at least 2) with two interleaved states, the layout used for Huffman
/// weights (RFC 8878 section 4.2.1.2).
///
/// The decoder emits from state 1, state 2, state 1, ... and detects the end when a state update
/// reads past the start of the stream. The two final states therefore must read at least one
/// bit: the first (lowest) cell of each symbol is used, which reads the most bits; that is at
/// least one bit as long as the symbol does not own the whole table.
///
/// Returns `None` if the stream cannot be terminated unambiguously (a final symbol whose first
/// cell reads 0 bits). Panics if a symbol is not in the table.
pub fn encode_2state(dtable: &[DEntry], symbols: &[u8]) -> Option<Vec<u8>> {
    let n = symbols.len();
    if n < 2 {
        return None;
    }
    let enc = FseEncoder::new(dtable);
    let first = |s: u8| enc.states_of(s).first().copied().expect("symbol not in table");
    // st[k] is the state from which symbol k is emitted. Symbol k is followed on the same lane
    // by symbol k + 2.
    let mut st = vec![0u16; n];
    st[n - 1] = first(symbols[n - 1]);
    st[n - 2] = first(symbols[n - 2]);
    if dtable[st[n - 1] as usize].nbits == 0 || dtable[st[n - 2] as usize].nbits == 0 {
        return None;
    }
    // Transition bits read after emitting symbol k (k <= n - 3), in read order k = 0, 1, 2 ...
    let mut trans = vec![(0u64, 0u8); n - 2];
    for k in (0..n - 2).rev() {
        let (s, v, nb) = enc.state_before(symbols[k], st[k + 2]);
        st[k] = s;
        trans[k] = (v, nb);
    }
    let mut fields = Vec::with_capacity(n);
    fields.push((st[0] as u64, enc.acc_log()));
    fields.push((st[1] as u64, enc.acc_log()));
    fields.extend_from_slice(&trans);
    Some(RevBitWriter::from_read_order(&fields))
}

/// Decodes a two-state interleaved stream (Huffman weights). At most `max_symbols` symbols may
/// be produced. The end of the data is detected the way the reference decoder does: after a
/// state update that needed more bits than the stream holds, the *other* state emits one last
/// symbol.
pub fn decode_2state(dtable: &[DEntry], src: &[u8], max_symbols: usize) -> Result<Vec<u8>, String> {
    let acc_log = table_log(dtable);
    let mut r = RevBitReader::new(src)?;
    let mut s1 = r.read(acc_log) as usize;
    let mut s2 = r.read(acc_log) as usize;
    if r.overrun() {
        return Err("fse (2 states): stream too short for the initial states".to_string());
    }
    let mut out = Vec::new();
    loop {
        if out.len() + 2 > max_symbols {
            return Err(format!("fse (2 states): more than {max_symbols} symbols"));
        }
        let e = dtable[s1];
        out.push(e.symbol);
        s1 = e.baseline as usize + r.read(e.nbits) as usize;
        if r.overrun() {
            out.push(dtable[s2].symbol);
            break;
        }
        if out.len() + 2 > max_symbols {
            return Err(format!("fse (2 states): more than {max_symbols} symbols"));
        }
        let e = dtable[s2];
        out.push(e.symbol);
        s2 = e.baseline as usize + r.read(e.nbits) as usize;
        if r.overrun() {
            out.push(dtable[s1].symbol);
            break;
        }
    }
    Ok(out)
}

#[cfg(test)]
mod tests {
    use super::*;
    use crate::rng::Rng;
    use crate::tables::*;

    fn conv(t: &[(u8, u8, u16)]) -> Vec<DEntry> {
        t.iter().map(|&(symbol, nbits, baseline)| DEntry { symbol, nbits, baseline }).collect()
    }

    #[test]
    fn default_tables_match_reference_transcription() {
        assert_eq!(build_dtable(&LL_DEFAULT_NORM, LL_DEFAULT_LOG), conv(&LL_DEFAULT_DTABLE));
        assert_eq!(build_dtable(&ML_DEFAULT_NORM, ML_DEFAULT_LOG), conv(&ML_DEFAULT_DTABLE));
        assert_eq!(build_dtable(&OF_DEFAULT_NORM, OF_DEFAULT_LOG), conv(&OF_DEFAULT_DTABLE));
    }

    /// A random valid distribution over up to `max_syms` symbols.
    pub(crate) fn random_norm(rng: &mut Rng, acc_log: u8, max_syms: usize) -> Vec<i16> {
        let size = 1u32 << acc_log;
        let nsym = rng.range(2, (max_syms as u64).min(size as u64)) as usize;
        let mut counts = vec![0u32; nsym];
        for c in counts.iter_mut() {
            *c = if rng.chance(1, 4) { 0 } else { rng.log_range(1, 1000) as u32 };
        }
        counts[nsym - 1] = counts[nsym - 1].max(1);
        counts[0] = counts[0].max(1);
        normalize_with(&counts, acc_log, rng.chance(1, 2))
    }

    #[test]
    fn ncount_roundtrip_and_table_properties() {
        let mut rng = Rng::new(1);
        for i in 0..if cfg!(miri) { 15 } else { 3000 } {
            let acc_log = rng.range(5, 9) as u8;
            let norm = random_norm(&mut rng, acc_log, 60);
            check_norm(&norm, acc_log).unwrap();
            let bytes = write_ncount(&norm, acc_log);
            let (n2, l2, used) = read_ncount(&bytes, 9, 255).unwrap();
            assert_eq!((&n2, l2, used), (&norm, acc_log, bytes.len()), "case {i}");
            // trailing garbage is not consumed
            let mut longer = bytes.clone();
            longer.extend_from_slice(&[0xFF; 4]);
            let (n3, _, used3) = read_ncount(&longer, 9, 255).unwrap();
            assert_eq!((n3, used3), (norm.clone(), bytes.len()));
            // truncation is detected
            if bytes.len() > 1 {
                let cut = &bytes[..bytes.len() - 1];
                assert!(read_ncount(cut, 9, 255).is_err() || read_ncount(cut, 9, 255).unwrap().0 != norm);
            }
            assert!(read_ncount(&bytes, acc_log - 1, 255).is_err() || acc_log == 5);
            assert!(read_ncount(&bytes, 9, norm.len() - 2).is_err());
            // table: every cell's destination range is inside the table and the ranges of one
            // symbol tile the table exactly (checked by FseEncoder::new).
            let t = build_dtable(&norm, acc_log);
            let enc = FseEncoder::new(&t);
            for (s, &c) in norm.iter().enumerate() {
                let want = if c == -1 { 1 } else { c as usize };
                assert_eq!(enc.states_of(s as u8).len(), want);
            }
        }
    }

    #[test]
    fn one_and_two_state_roundtrip() {
        let mut rng = Rng::new(2);
        for _ in 0..if cfg!(miri) { 10 } else { 500 } {
            let acc_log = rng.range(5, 8) as u8;
            let norm = random_norm(&mut rng, acc_log, 20);
            let t = build_dtable(&norm, acc_log);
            let present: Vec<u8> =
                norm.iter().enumerate().filter(|(_, &c)| c != 0).map(|(s, _)| s as u8).collect();
            let n = rng.range(2, 200) as usize;
            let syms: Vec<u8> = (0..n).map(|_| *rng.pick(&present)).collect();
            let b1 = encode_1state(&t, &syms);
            assert_eq!(decode_1state(&t, &b1, n).unwrap(), syms);
            assert!(decode_1state(&t, &b1, n + 1).is_err() || n == 0);
            if let Some(b2) = encode_2state(&t, &syms) {
                assert_eq!(decode_2state(&t, &b2, 255).unwrap(), syms);
            }
        }
    }

    #[test]
    fn malformed_descriptions() {
        assert!(read_ncount(&[], 9, 255).is_err());
        assert!(read_ncount(&[0x0F], 9, 255).is_err()); // log 20
        assert!(read_ncount(&[0x00], 9, 255).is_err()); // truncated
        // all zero bits: log 5, every value 0 => 32 "less than one" symbols (valid), too many
        // when only 21 symbols are allowed
        assert_eq!(read_ncount(&[0u8; 64], 9, 35).unwrap().0, vec![-1i16; 32]);
        assert!(read_ncount(&[0u8; 64], 9, 20).is_err());
    }
}
