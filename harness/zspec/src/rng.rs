//! Tiny deterministic pseudo random number generator (splitmix64).
//!
//! The library must not have any dependency, so the generators in [`crate::synth`] use this
//! instead of the `rand` crate. The sequence produced for a given seed is stable.

/// Deterministic PRNG (splitmix64). Not cryptographic.
#[derive(Clone, Debug)]
pub struct Rng(u64);

impl Rng {
    /// Creates a generator from a seed. Every seed (including 0) is fine.
    pub fn new(seed: u64) -> Self {
        Rng(seed)
    }

    /// Next 64 pseudo random bits.
    pub fn next_u64(&mut self) -> u64 {
        self.0 = self.0.wrapping_add(0x9E37_79B9_7F4A_7C15);
        let mut z = self.0;
        z = (z ^ (z >> 30)).wrapping_mul(0xBF58_476D_1CE4_E5B9);
        z = (z ^ (z >> 27)).wrapping_mul(0x94D0_49BB_1331_11EB);
        z ^ (z >> 31)
    }

    /// Uniform value in `0..n`. Panics if `n == 0`.
    pub fn below(&mut self, n: u64) -> u64 {
        assert!(n > 0, "Rng::below(0)");
        // Rejection sampling to avoid modulo bias.
        let zone = u64::MAX - (u64::MAX % n);
        loop {
            let v = self.next_u64();
            if v < zone {
                return v % n;
            }
        }
    }

    /// Uniform value in `lo..=hi_incl`. Panics if `lo > hi_incl`.
    pub fn range(&mut self, lo: u64, hi_incl: u64) -> u64 {
        assert!(lo <= hi_incl, "Rng::range: lo > hi");
        let span = hi_incl - lo;
        if span == u64::MAX {
            return self.next_u64();
        }
        lo + self.below(span + 1)
    }

    /// Returns true with probability `num/den`.
    pub fn chance(&mut self, num: u32, den: u32) -> bool {
        assert!(den > 0, "Rng::chance: den == 0");
        self.below(den as u64) < num as u64
    }

    /// Fills `buf` with pseudo random bytes.
    pub fn fill(&mut self, buf: &mut [u8]) {
        for chunk in buf.chunks_mut(8) {
            let v = self.next_u64().to_le_bytes();
            chunk.copy_from_slice(&v[..chunk.len()]);
        }
    }

    /// Picks one element of a non-empty slice.
    pub fn pick<'a, T>(&mut self, items: &'a [T]) -> &'a T {
        &items[self.below(items.len() as u64) as usize]
    }

    /// A value in `lo..=hi_incl` whose magnitude is log-uniform (small values are as likely as
    /// large ones). Useful for sizes.
    pub fn log_range(&mut self, lo: u64, hi_incl: u64) -> u64 {
        assert!(lo <= hi_incl, "Rng::log_range: lo > hi");
        let span = hi_incl - lo;
        if span == 0 {
            return lo;
        }
        let bits = 64 - span.leading_zeros() as u64; // 1..=64
        let b = self.range(0, bits);
        let cap = if b >= 64 { u64::MAX } else { (1u64 << b) - 1 };
        let cap = cap.min(span);
        lo + self.range(0, cap)
    }
}

#[cfg(test)]
mod tests {
    use super::*;

    #[test]
    fn deterministic_and_in_range() {
        let mut a = Rng::new(7);
        let mut b = Rng::new(7);
        for _ in 0..1000 {
            assert_eq!(a.next_u64(), b.next_u64());
        }
        for n in 1..200u64 {
            assert!(a.below(n) < n);
            let v = a.range(n, n + 5);
            assert!((n..=n + 5).contains(&v));
            let w = a.log_range(3, n + 3);
            assert!((3..=n + 3).contains(&w));
        }
        let mut buf = [0u8; 13];
        a.fill(&mut buf);
        assert!(buf.iter().any(|&x| x != 0));
    }
}
