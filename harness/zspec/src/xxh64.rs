//! XXH64 hash (the checksum of Zstandard frames is the low 32 bits of `XXH64(content, 0)`).
//!
//! Written from the published xxHash specification.

const P1: u64 = 0x9E37_79B1_85EB_CA87;
const P2: u64 = 0xC2B2_AE3D_27D4_EB4F;
const P3: u64 = 0x1656_67B1_9E37_79F9;
const P4: u64 = 0x85EB_CA77_C2B2_AE63;
const P5: u64 = 0x27D4_EB2F_1656_67C5;

#[inline]
fn round(acc: u64, lane: u64) -> u64 {
    acc.wrapping_add(lane.wrapping_mul(P2)).rotate_left(31).wrapping_mul(P1)
}

#[inline]
fn merge(h: u64, acc: u64) -> u64 {
    (h ^ round(0, acc)).wrapping_mul(P1).wrapping_add(P4)
}

#[inline]
fn le64(b: &[u8]) -> u64 {
    let mut a = [0u8; 8];
    a.copy_from_slice(&b[..8]);
    u64::from_le_bytes(a)
}

#[inline]
fn le32(b: &[u8]) -> u32 {
    let mut a = [0u8; 4];
    a.copy_from_slice(&b[..4]);
    u32::from_le_bytes(a)
}

/// Streaming XXH64 state.
#[derive(Clone, Debug)]
pub struct Xxh64 {
    seed: u64,
    acc: [u64; 4],
    buf: [u8; 32],
    buf_len: usize,
    total: u64,
}

impl Xxh64 {
    /// Starts a hash with the given seed.
    pub fn new(seed: u64) -> Self {
        Xxh64 {
            seed,
            acc: [
                seed.wrapping_add(P1).wrapping_add(P2),
                seed.wrapping_add(P2),
                seed,
                seed.wrapping_sub(P1),
            ],
            buf: [0; 32],
            buf_len: 0,
            total: 0,
        }
    }

    fn stripe(&mut self, s: &[u8]) {
        for i in 0..4 {
            self.acc[i] = round(self.acc[i], le64(&s[i * 8..]));
        }
    }

    /// Feeds more data.
    pub fn update(&mut self, mut data: &[u8]) {
        self.total = self.total.wrapping_add(data.len() as u64);
        if self.buf_len > 0 {
            let take = (32 - self.buf_len).min(data.len());
            self.buf[self.buf_len..self.buf_len + take].copy_from_slice(&data[..take]);
            self.buf_len += take;
            data = &data[take..];
            if self.buf_len < 32 {
                return;
            }
            let b = self.buf;
            self.stripe(&b);
            self.buf_len = 0;
        }
        while data.len() >= 32 {
            let (s, rest) = data.split_at(32);
            self.stripe(s);
            data = rest;
        }
        self.buf[..data.len()].copy_from_slice(data);
        self.buf_len = data.len();
    }

    /// Returns the hash of everything fed so far (the state can still be updated afterwards).
    pub fn digest(&self) -> u64 {
        let mut h = if self.total >= 32 {
            let a = &self.acc;
            let mut h = a[0]
                .rotate_left(1)
                .wrapping_add(a[1].rotate_left(7))
                .wrapping_add(a[2].rotate_left(12))
                .wrapping_add(a[3].rotate_left(18));
            for &v in a {
                h = merge(h, v);
            }
            h
        } else {
            self.seed.wrapping_add(P5)
        };
        h = h.wrapping_add(self.total);
        let mut rest = &self.buf[..self.buf_len];
        while rest.len() >= 8 {
            h ^= round(0, le64(rest));
            h = h.rotate_left(27).wrapping_mul(P1).wrapping_add(P4);
            rest = &rest[8..];
        }
        if rest.len() >= 4 {
            h ^= (le32(rest) as u64).wrapping_mul(P1);
            h = h.rotate_left(23).wrapping_mul(P2).wrapping_add(P3);
            rest = &rest[4..];
        }
        for &b in rest {
            h ^= (b as u64).wrapping_mul(P5);
            h = h.rotate_left(11).wrapping_mul(P1);
        }
        h ^= h >> 33;
        h = h.wrapping_mul(P2);
        h ^= h >> 29;
        h = h.wrapping_mul(P3);
        h ^= h >> 32;
        h
    }
}

/// One-shot XXH64 of `data` with `seed`.
pub fn xxh64(data: &[u8], seed: u64) -> u64 {
    let mut s = Xxh64::new(seed);
    s.update(data);
    s.digest()
}

/// The 32-bit content checksum stored at the end of a Zstandard frame.
pub fn frame_checksum(data: &[u8]) -> u32 {
    xxh64(data, 0) as u32
}

#[cfg(test)]
mod tests {
    use super::*;

    #[test]
    fn known_vectors() {
        // Vectors from the xxHash specification / reference implementation.
        assert_eq!(xxh64(b"", 0), 0xEF46_DB37_51D8_E999);
        assert_eq!(xxh64(b"a", 0), 0xD24E_C4F1_A98C_6E5B);
        assert_eq!(xxh64(b"abc", 0), 0x44BC_2CF5_AD77_0999);
        assert_eq!(
            xxh64(b"Nobody inspects the spammish repetition", 0),
            0xFBCE_A83C_8A37_8BF1
        );
    }

    #[test]
    fn streaming_equals_oneshot() {
        let data: Vec<u8> = (0..1000u32).map(|i| (i * 7 + 3) as u8).collect();
        for split in [0usize, 1, 5, 31, 32, 33, 64, 100, 999, 1000] {
            let mut s = Xxh64::new(42);
            s.update(&data[..split]);
            s.update(&data[split..]);
            assert_eq!(s.digest(), xxh64(&data, 42));
        }
        let mut s = Xxh64::new(1);
        for b in &data {
            s.update(std::slice::from_ref(b));
        }
        assert_eq!(s.digest(), xxh64(&data, 1));
    }
}
