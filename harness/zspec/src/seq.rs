//! The sequences bitstream: three interleaved FSE states (literals length, offset, match length)
//! plus the extra bits of each sequence (RFC 8878 section 3.1.1.3.2.1).
//!
//! Decoder reading order: initial states LL, OF, ML; then per sequence the extra bits of OF, ML,
//! LL; then, except after the last sequence, the state updates of LL, ML, OF.

use crate::bits::{RevBitReader, RevBitWriter};
use crate::fse::{table_log, DEntry, FseEncoder};
use crate::tables::*;

/// The three decoding tables of a sequences section (length 1 for RLE mode).
#[derive(Clone, Copy, Debug)]
pub struct SeqTables<'a> {
    /// Literals-length table.
    pub ll: &'a [DEntry],
    /// Offset-code table.
    pub of: &'a [DEntry],
    /// Match-length table.
    pub ml: &'a [DEntry],
}

/// Decodes `nseq` sequences `(literals length, match length, offset value)` from a sequences
/// bitstream. Strict: symbols must be valid codes, no bit may be read past the start of the
/// stream and the stream must be consumed exactly.
pub fn decode_bitstream(src: &[u8], nseq: usize, t: &SeqTables) -> Result<Vec<(u32, u32, u32)>, String> {
    if nseq == 0 {
        return Err("sequences bitstream: zero sequences".to_string());
    }
    let mut r = RevBitReader::new(src).map_err(|e| format!("sequences bitstream: {e}"))?;
    let mut ll_state = r.read(table_log(t.ll)) as usize;
    let mut of_state = r.read(table_log(t.of)) as usize;
    let mut ml_state = r.read(table_log(t.ml)) as usize;
    let mut out = Vec::with_capacity(nseq);
    for i in 0..nseq {
        let lle = t.ll[ll_state];
        let ofe = t.of[of_state];
        let mle = t.ml[ml_state];
        if lle.symbol > MAX_LL_CODE {
            return Err(format!("sequences: literals length code {} out of range", lle.symbol));
        }
        if mle.symbol > MAX_ML_CODE {
            return Err(format!("sequences: match length code {} out of range", mle.symbol));
        }
        if ofe.symbol > MAX_OF_CODE {
            return Err(format!("sequences: offset code {} out of range", ofe.symbol));
        }
        let of_value = (1u64 << ofe.symbol) + r.read(ofe.symbol);
        let ml = ML_BASE[mle.symbol as usize] + r.read(ML_BITS[mle.symbol as usize]) as u32;
        let ll = LL_BASE[lle.symbol as usize] + r.read(LL_BITS[lle.symbol as usize]) as u32;
        if i + 1 < nseq {
            ll_state = lle.baseline as usize + r.read(lle.nbits) as usize;
            ml_state = mle.baseline as usize + r.read(mle.nbits) as usize;
            of_state = ofe.baseline as usize + r.read(ofe.nbits) as usize;
        }
        if r.overrun() {
            return Err(format!("sequences bitstream: ran out of bits in sequence {i}"));
        }
        out.push((ll, ml, of_value as u32));
    }
    if !r.is_exactly_consumed() {
        return Err(format!("sequences bitstream: {} unused bits after the last sequence", r.bits_left()));
    }
    Ok(out)
}

/// Encodes sequences `(literals length, match length, offset value)` into a sequences bitstream
/// for the given tables. `variant` selects which of the equivalent final states is used
/// (any value is fine; different values give different but equally valid streams).
///
/// Panics if `seqs` is empty, a value is out of range, or a table lacks a needed code.
pub fn encode_bitstream(seqs: &[(u32, u32, u32)], t: &SeqTables, variant: u64) -> Vec<u8> {
    let n = seqs.len();
    assert!(n > 0, "encode_bitstream: no sequences");
    let enc = [FseEncoder::new(t.ll), FseEncoder::new(t.of), FseEncoder::new(t.ml)];
    let names = ["literals length", "offset", "match length"];
    // codes[k][i]: code of sequence i for table k (0 = LL, 1 = OF, 2 = ML)
    let mut codes: [Vec<u8>; 3] = [Vec::with_capacity(n), Vec::with_capacity(n), Vec::with_capacity(n)];
    for &(ll, ml, ov) in seqs {
        codes[0].push(ll_code(ll));
        codes[1].push(of_code(ov));
        codes[2].push(ml_code(ml));
    }
    // Walk each lane backwards to find the state of every sequence and the transition bits.
    let mut init = [0u16; 3];
    let mut trans: [Vec<(u64, u8)>; 3] = [vec![(0, 0); n - 1], vec![(0, 0); n - 1], vec![(0, 0); n - 1]];
    for k in 0..3 {
        let last_code = codes[k][n - 1];
        let candidates = enc[k].states_of(last_code);
        assert!(!candidates.is_empty(), "{} table has no code {last_code}", names[k]);
        let mut state = candidates[((variant >> (k * 16)) % candidates.len() as u64) as usize];
        for i in (0..n - 1).rev() {
            assert!(enc[k].has_symbol(codes[k][i]), "{} table has no code {}", names[k], codes[k][i]);
            let (st, v, nb) = enc[k].state_before(codes[k][i], state);
            trans[k][i] = (v, nb);
            state = st;
        }
        init[k] = state;
    }
    let mut fields: Vec<(u64, u8)> = Vec::with_capacity(6 * n + 3);
    fields.push((init[0] as u64, enc[0].acc_log()));
    fields.push((init[1] as u64, enc[1].acc_log()));
    fields.push((init[2] as u64, enc[2].acc_log()));
    for (i, &(ll, ml, ov)) in seqs.iter().enumerate() {
        let (llc, ofc, mlc) = (codes[0][i] as usize, codes[1][i], codes[2][i] as usize);
        fields.push(((ov - (1u32 << ofc)) as u64, ofc));
        fields.push(((ml - ML_BASE[mlc]) as u64, ML_BITS[mlc]));
        fields.push(((ll - LL_BASE[llc]) as u64, LL_BITS[llc]));
        if i + 1 < n {
            fields.push(trans[0][i]);
            fields.push(trans[2][i]);
            fields.push(trans[1][i]);
        }
    }
    RevBitWriter::from_read_order(&fields)
}

#[cfg(test)]
mod tests {
    use super::*;
    use crate::fse::{build_dtable, rle_dtable};
    use crate::rng::Rng;

    #[test]
    fn roundtrip_with_predefined_and_rle_tables() {
        let ll = build_dtable(&LL_DEFAULT_NORM, LL_DEFAULT_LOG);
        let of = build_dtable(&OF_DEFAULT_NORM, OF_DEFAULT_LOG);
        let ml = build_dtable(&ML_DEFAULT_NORM, ML_DEFAULT_LOG);
        let mut rng = Rng::new(9);
        for _ in 0..if cfg!(miri) { 5 } else { 300 } {
            let n = rng.log_range(1, if cfg!(miri) { 40 } else { 400 }) as usize;
            let seqs: Vec<(u32, u32, u32)> = (0..n)
                .map(|_| {
                    (
                        rng.log_range(0, MAX_LL as u64) as u32,
                        rng.log_range(3, MAX_ML as u64) as u32,
                        rng.log_range(1, (1 << 29) - 1) as u32,
                    )
                })
                .collect();
            let t = SeqTables { ll: &ll, of: &of, ml: &ml };
            let bytes = encode_bitstream(&seqs, &t, rng.next_u64());
            assert_eq!(decode_bitstream(&bytes, n, &t).unwrap(), seqs);
            assert!(decode_bitstream(&bytes, n + 1, &t).is_err());
            if n > 1 {
                assert!(decode_bitstream(&bytes, n - 1, &t).is_err());
            }
        }
        // RLE tables: no state bits at all
        let (rl, ro, rm) = (rle_dtable(0), rle_dtable(0), rle_dtable(52));
        let t = SeqTables { ll: &rl, of: &ro, ml: &rm };
        let seqs = vec![(0, 131074, 1); 10];
        let bytes = encode_bitstream(&seqs, &t, 0);
        assert_eq!(bytes.len(), 21); // 10 * 16 bits + marker
        assert_eq!(decode_bitstream(&bytes, 10, &t).unwrap(), seqs);
    }
}
