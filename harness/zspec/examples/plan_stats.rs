//! Prints statistics about the random plan generator (diagnostic aid).
use zspec::rng::Rng;
use zspec::synth;
use zspec::walker::{walk_frame, WalkOpts};

fn main() {
    let mut rng = Rng::new(1);
    let n = 2000;
    let (mut blocks, mut cblocks, mut seqs, mut bytes, mut comp) = (0usize, 0usize, 0usize, 0usize, 0usize);
    let mut tags = std::collections::BTreeMap::<&str, usize>::new();
    let mut max_seqs = 0;
    let mut dict_rng = Rng::new(5);
    let dict = synth::make_dict(&mut dict_rng, 77, 4000);
    for i in 0..n {
        let plan = if i % 4 == 0 { synth::random_plan_with_dict(&mut rng, &dict, 50_000) } else { synth::random_plan(&mut rng, 50_000) };
        let s = synth::synthesise(&plan);
        let opts = WalkOpts { dict: plan.dict.as_ref(), ..WalkOpts::default() };
        let info = walk_frame(&s.bytes, &opts).unwrap();
        blocks += info.blocks.len();
        bytes += s.expected.len();
        comp += s.bytes.len();
        for b in &info.blocks {
            if let Some(sq) = &b.sequences {
                cblocks += 1;
                seqs += sq.nseq;
                max_seqs = max_seqs.max(sq.nseq);
            }
        }
        for t in &info.features {
            *tags.entry(t).or_default() += 1;
        }
    }
    println!("{n} frames, {blocks} blocks ({cblocks} compressed), {seqs} sequences (max {max_seqs}/block), {bytes} content bytes, {comp} frame bytes");
    for (t, c) in tags {
        println!("{t:22} {c:6} frames");
    }
}
