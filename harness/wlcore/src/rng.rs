//! splitmix64 based deterministic RNG, cheap to derive per case

#[derive(Clone)]
pub struct Rng(pub u64, Option<Tape>);

/// draws taken from a byte string instead of the generator (coverage guided fuzzing: the fuzzer mutates the
/// decisions of a workload directly). Two bytes per draw; zero once the tape has run out.
#[derive(Clone)]
pub struct Tape {
    bytes: Vec<u8>,
    pos: usize,
}

impl Rng {
    pub fn new(seed: u64) -> Rng {
        let mut r = Rng(seed ^ 0x9E3779B97F4A7C15, None);
        r.next();
        r
    }
    pub fn from_tape(bytes: &[u8]) -> Rng {
        Rng(0, Some(Tape { bytes: bytes.to_vec(), pos: 0 }))
    }
    /// tape mode only: has the tape run out?
    pub fn exhausted(&self) -> bool {
        self.1.as_ref().map(|t| t.pos >= t.bytes.len()).unwrap_or(false)
    }
    /// independent generator for case `idx` of stream `stream` under a run seed
    pub fn for_case(seed: u64, stream: u64, idx: u64) -> Rng {
        let mut r = Rng::new(
            seed.wrapping_mul(0xD1342543DE82EF95)
                ^ stream.wrapping_mul(0xA24BAED4963EE407)
                ^ idx.wrapping_mul(0x9FB21C651E98DF25),
        );
        r.next();
        r
    }
    #[allow(clippy::should_implement_trait)]
    pub fn next(&mut self) -> u64 {
        if let Some(t) = &mut self.1 {
            let a = t.bytes.get(t.pos).copied().unwrap_or(0) as u64;
            let b = t.bytes.get(t.pos + 1).copied().unwrap_or(0) as u64;
            t.pos += 2;
            let v = (b << 8) | a;
            return (v << 48) | (v << 32) | (v << 16) | v;
        }
        self.0 = self.0.wrapping_add(0x9E3779B97F4A7C15);
        let mut z = self.0;
        z = (z ^ (z >> 30)).wrapping_mul(0xBF58476D1CE4E5B9);
        z = (z ^ (z >> 27)).wrapping_mul(0x94D049BB133111EB);
        z ^ (z >> 31)
    }
    /// uniform in 0..n (n > 0)
    pub fn below(&mut self, n: u64) -> u64 {
        debug_assert!(n > 0);
        ((self.next() as u128 * n as u128) >> 64) as u64
    }
    pub fn range(&mut self, lo: u64, hi_incl: u64) -> u64 {
        lo + self.below(hi_incl - lo + 1)
    }
    pub fn usize(&mut self, lo: usize, hi_incl: usize) -> usize {
        self.range(lo as u64, hi_incl as u64) as usize
    }
    pub fn chance(&mut self, num: u64, den: u64) -> bool {
        self.below(den) < num
    }
    pub fn byte(&mut self) -> u8 {
        self.next() as u8
    }
    pub fn fill(&mut self, buf: &mut [u8]) {
        for chunk in buf.chunks_mut(8) {
            let v = self.next().to_le_bytes();
            chunk.copy_from_slice(&v[..chunk.len()]);
        }
    }
    pub fn bytes(&mut self, n: usize) -> Vec<u8> {
        let mut v = vec![0; n];
        self.fill(&mut v);
        v
    }
    pub fn pick<'a, T>(&mut self, xs: &'a [T]) -> &'a T {
        &xs[self.below(xs.len() as u64) as usize]
    }
    /// log-uniform-ish size in lo..=hi
    pub fn size(&mut self, lo: usize, hi: usize) -> usize {
        if hi <= lo {
            return lo;
        }
        let span = (hi - lo) as f64;
        let u = (self.next() >> 11) as f64 / (1u64 << 53) as f64;
        lo + ((span + 1.0).powf(u) - 1.0) as usize
    }
}
