//! C04: the unsafe ring buffer (and the decode buffer on top of it) against byte queue models.
//!
//! `RingMon` applies one operation at a time to the real `RingBuffer` (through the feature gated
//! wrapper) and to a `VecDeque<u8>`, and checks after *every* operation: contents, `len`, `free`,
//! the slice lengths implied by (cap, head, tail) and the position invariants documented on the
//! structure. Operations and operands are exactly what the decoder can issue and respect the
//! callers' preconditions (reserve before `extend_from_within_unchecked`, `start+len <= len()`,
//! `drop_first_n(n)` with `1 <= n <= len`, no copy on an unallocated buffer).

use crate::rng::Rng;
use crate::xxh::Xxh64;
use ruzstd::verif::dec::{DecBuf, Ring};
use std::collections::VecDeque;

/// Bytes used as payload never take this value, fresh allocations are filled with it by the
/// native monitor's poisoning allocator: if it shows up in live data, uninitialised memory was read.
pub const POISON: u8 = 0xEE;

#[derive(Clone, Debug, PartialEq, Eq)]
pub enum Op {
    Clear,
    Reserve(usize),
    Extend(usize),
    Fill(usize),
    /// extend_from_reader of `n` bytes from a reader that hands out `chunk` bytes per call and
    /// runs dry after `avail` bytes
    FromReader { n: usize, chunk: usize, avail: usize },
    /// reserve(len) then extend_from_within_unchecked(start, len)
    Within { start: usize, len: usize },
    /// reserve(total) then copy in chunks like DecodeBuffer::repeat_in_chunks does (offset < total)
    Repeat { offset: usize, total: usize },
    DropFirst(usize),
}

/// Optional look at the allocator (native builds only): size of the live block at a pointer and whether its guards are intact
pub trait AllocProbe {
    fn block_size(&self, ptr: usize) -> Option<usize>;
    fn guards_intact(&self, ptr: usize) -> bool;
}

pub struct NoProbe;
impl AllocProbe for NoProbe {
    fn block_size(&self, _ptr: usize) -> Option<usize> {
        None
    }
    fn guards_intact(&self, _ptr: usize) -> bool {
        true
    }
}

struct ChunkReader {
    next: u64,
    chunk: usize,
    avail: usize,
}

fn payload(counter: u64) -> u8 {
    // never POISON
    ((counter.wrapping_mul(7).wrapping_add(3)) % 199) as u8
}

impl std::io::Read for ChunkReader {
    fn read(&mut self, buf: &mut [u8]) -> std::io::Result<usize> {
        let n = buf.len().min(self.chunk).min(self.avail);
        for b in buf[..n].iter_mut() {
            *b = payload(self.next);
            self.next += 1;
        }
        self.avail -= n;
        Ok(n)
    }
}

pub struct RingMon<P: AllocProbe> {
    pub ring: Ring,
    pub model: VecDeque<u8>,
    pub probe: P,
    counter: u64,
    pub ops: u64,
    /// full content comparison every n-th step (1 = always); the cheap checks run every step
    pub compare_every: u64,
}

impl<P: AllocProbe> RingMon<P> {
    pub fn new(probe: P) -> Self {
        RingMon {
            ring: Ring::new(),
            model: VecDeque::new(),
            probe,
            counter: 0,
            ops: 0,
            compare_every: 1,
        }
    }

    fn gen(&mut self, n: usize) -> Vec<u8> {
        let v: Vec<u8> = (0..n as u64).map(|i| payload(self.counter + i)).collect();
        self.counter += n as u64;
        v
    }

    /// Is `op` within the preconditions the decoder guarantees in the current state?
    pub fn legal(&self, op: &Op) -> bool {
        let len = self.model.len();
        match op {
            Op::Within { start, len: l } => *l >= 1 && start + l <= len,
            Op::Repeat { offset, total } => *offset >= 1 && *offset <= len && *total > *offset,
            Op::DropFirst(n) => *n >= 1 && *n <= len,
            _ => true,
        }
    }

    /// Apply to both, then check. `Err` describes the violation.
    pub fn apply(&mut self, op: &Op) -> Result<(), String> {
        debug_assert!(self.legal(op));
        self.ops += 1;
        match op {
            Op::Clear => {
                self.ring.clear();
                self.model.clear();
            }
            Op::Reserve(n) => {
                self.ring.reserve(*n);
                if self.ring.free() < *n {
                    return Err(format!("free() {} < {} right after reserve", self.ring.free(), n));
                }
            }
            Op::Extend(n) => {
                let data = self.gen(*n);
                self.ring.extend(&data);
                self.model.extend(data.iter());
            }
            Op::Fill(n) => {
                let b = payload(self.counter);
                self.counter += 1;
                self.ring.extend_and_fill(b, *n);
                self.model.extend(std::iter::repeat_n(b, *n));
            }
            Op::FromReader { n, chunk, avail } => {
                let start = self.counter;
                let reader = ChunkReader {
                    next: start,
                    chunk: (*chunk).max(1),
                    avail: *avail,
                };
                let res = self.ring.extend_from_reader(reader, *n);
                if *avail >= *n {
                    if res.is_err() {
                        return Err("extend_from_reader failed although the reader had enough bytes".into());
                    }
                    self.model.extend((0..*n as u64).map(|i| payload(start + i)));
                    self.counter += *n as u64;
                } else {
                    // a failed read must leave the queue as it was
                    if *n > 0 && res.is_ok() {
                        return Err("extend_from_reader succeeded on a short reader".into());
                    }
                    self.counter += *avail as u64;
                }
            }
            Op::Within { start, len } => {
                self.ring.reserve(*len);
                // SAFETY: preconditions checked in legal(): start + len <= len(), reserved len
                unsafe { self.ring.extend_from_within_unchecked(*start, *len) };
                for i in 0..*len {
                    let b = self.model[*start + i];
                    self.model.push_back(b);
                }
            }
            Op::Repeat { offset, total } => {
                self.ring.reserve(*total);
                let mut start_idx = self.model.len() - offset;
                let mut left = *total;
                while left > 0 {
                    let chunk = (*offset).min(left);
                    // SAFETY: same argument as in DecodeBuffer::repeat_in_chunks
                    unsafe { self.ring.extend_from_within_unchecked(start_idx, chunk) };
                    for i in 0..chunk {
                        let b = self.model[start_idx + i];
                        self.model.push_back(b);
                    }
                    left -= chunk;
                    start_idx += chunk;
                }
            }
            Op::DropFirst(n) => {
                self.ring.drop_first_n(*n);
                self.model.drain(..*n);
            }
        }
        self.check(self.ops % self.compare_every == 0)
    }

    /// Everything the property states, observed through the public interface + (ptr, cap, head, tail)
    pub fn check(&self, full: bool) -> Result<(), String> {
        let (ptr, cap, head, tail) = self.ring.state();
        let len = self.model.len();
        if self.ring.len() != len {
            return Err(format!("len() = {} but the queue holds {} (cap {cap} head {head} tail {tail})", self.ring.len(), len));
        }
        if cap == 0 {
            if head != 0 || tail != 0 {
                return Err(format!("cap 0 with head {head} tail {tail}"));
            }
            if self.ring.free() != 0 {
                return Err("free() != 0 on an unallocated buffer".into());
            }
        } else {
            // invariant 3 and 4
            if head >= cap || tail >= cap {
                return Err(format!("position out of bounds: cap {cap} head {head} tail {tail}"));
            }
            if (head == tail) != (len == 0) {
                return Err(format!("head == tail must mean empty: cap {cap} head {head} tail {tail} len {len}"));
            }
            if self.ring.free() != cap - 1 - len {
                return Err(format!("free() = {} but cap {cap} len {len}", self.ring.free()));
            }
            // invariant 1: cap is the size of the live allocation
            if let Some(sz) = self.probe.block_size(ptr) {
                if sz != cap {
                    return Err(format!("cap {cap} but the live allocation at ptr has {sz} bytes"));
                }
            }
            if !self.probe.guards_intact(ptr) {
                return Err(format!("guard bytes around the allocation were overwritten (cap {cap} head {head} tail {tail})"));
            }
        }
        let (s1, s2) = self.ring.as_slices();
        let want1 = if tail >= head { tail - head } else { cap - head };
        if s1.len() != want1 || s1.len() + s2.len() != len {
            return Err(format!("as_slices lengths ({}, {}) for cap {cap} head {head} tail {tail}", s1.len(), s2.len()));
        }
        if full {
            let (m1, m2) = self.model.as_slices();
            let equal = s1.iter().chain(s2.iter()).eq(m1.iter().chain(m2.iter()));
            if !equal {
                let pos = s1
                    .iter()
                    .chain(s2.iter())
                    .zip(self.model.iter())
                    .position(|(a, b)| a != b)
                    .unwrap_or(0);
                let got = *s1.iter().chain(s2.iter()).nth(pos).unwrap_or(&0);
                return Err(format!(
                    "content differs from the byte queue at index {pos}: got {got:#04x}{} want {:#04x} (cap {cap} head {head} tail {tail})",
                    if got == POISON { " (poison: never written)" } else { "" },
                    self.model[pos]
                ));
            }
        }
        Ok(())
    }

    /// Bring a fresh monitor into the state (cap, head, tail) using decoder operations only.
    /// `cap` must be `2^k + 1`.
    pub fn construct(probe: P, cap: usize, head: usize, tail: usize) -> Result<Self, String> {
        let mut m = RingMon::new(probe);
        m.apply(&Op::Reserve(cap - 1))?;
        if head > 0 {
            m.apply(&Op::Extend(head))?;
            m.apply(&Op::DropFirst(head))?;
        }
        let len = (tail + cap - head) % cap;
        if len > 0 {
            m.apply(&Op::Extend(len))?;
        }
        let st = m.ring.state();
        if (st.1, st.2, st.3) != (cap, head, tail) {
            return Err(format!("could not construct state ({cap},{head},{tail}), got {st:?}"));
        }
        Ok(m)
    }

    /// A random legal operation; sizes are biased to the wide-copy chunk sizes and to exact fill
    pub fn random_op(&self, r: &mut Rng, max_len: usize) -> Op {
        let len = self.model.len();
        let free = self.ring.free();
        // never let the queue grow beyond a few times max_len (asking for free + 1 doubles the capacity)
        let budget = (4 * max_len + 100).saturating_sub(len);
        let size = |r: &mut Rng| -> usize {
            let n = match r.below(10) {
                0 => 0,
                1 => *r.pick(&[1usize, 15, 16, 17, 31, 32, 33, 47, 48, 49, 64]),
                2 => free,
                3 => free + 1,
                4 => free.saturating_sub(1),
                5 => r.usize(0, max_len),
                _ => r.usize(0, 70),
            };
            n.min(budget)
        };
        loop {
            let op = match r.below(20) {
                0 => {
                    if r.chance(1, 6) {
                        Op::Clear
                    } else {
                        continue;
                    }
                }
                1 => Op::Reserve(size(r)),
                2..=4 => Op::Extend(size(r)),
                5 => Op::Fill(size(r)),
                6 => {
                    let n = size(r);
                    Op::FromReader {
                        n,
                        chunk: *r.pick(&[1usize, 3, 16, 1000]),
                        avail: if r.chance(1, 5) { r.usize(0, n) } else { n },
                    }
                }
                7..=11 => {
                    if len == 0 {
                        continue;
                    }
                    let l = size(r).clamp(1, len);
                    let start = match r.below(4) {
                        0 => 0,
                        1 => len - l,
                        _ => r.usize(0, len - l),
                    };
                    Op::Within { start, len: l }
                }
                12..=14 => {
                    if len == 0 {
                        continue;
                    }
                    let offset = match r.below(3) {
                        0 => *r.pick(&[1usize, 2, 3, 7, 8, 15, 16, 17, 31, 32, 33]),
                        _ => r.usize(1, len),
                    }
                    .min(len);
                    let total = offset + 1 + size(r);
                    if total > budget + 1 {
                        continue;
                    }
                    Op::Repeat { offset, total }
                }
                _ => {
                    if len == 0 {
                        continue;
                    }
                    let n = match r.below(4) {
                        0 => len,
                        1 => 1,
                        _ => r.usize(1, len),
                    };
                    Op::DropFirst(n)
                }
            };
            if self.legal(&op) {
                return op;
            }
        }
    }
}

// ------------------------------------------------------------------------------------------------
// second layer: DecodeBuffer against a Vec model with an independent XXH64

/// A sink that accepts at most `per_write` bytes per call and fails once every `fail_every` calls
pub struct Sink {
    pub got: Vec<u8>,
    pub per_write: usize,
    pub fail_every: usize,
    calls: usize,
    /// returns Ok(0) instead of an error when it is time to fail
    pub zero_instead_of_error: bool,
}

impl Sink {
    pub fn new(per_write: usize, fail_every: usize, zero_instead_of_error: bool) -> Sink {
        Sink {
            got: Vec::new(),
            per_write,
            fail_every,
            calls: 0,
            zero_instead_of_error,
        }
    }
}

impl std::io::Write for Sink {
    fn write(&mut self, buf: &[u8]) -> std::io::Result<usize> {
        self.calls += 1;
        if self.fail_every != 0 && self.calls % self.fail_every == 0 {
            if self.zero_instead_of_error {
                return Ok(0);
            }
            return Err(std::io::Error::from(std::io::ErrorKind::WouldBlock));
        }
        let n = buf.len().min(self.per_write.max(1));
        self.got.extend_from_slice(&buf[..n]);
        Ok(n)
    }
    fn flush(&mut self) -> std::io::Result<()> {
        Ok(())
    }
}

pub struct DecBufMon {
    pub buf: DecBuf,
    /// everything that is currently buffered
    pub held: Vec<u8>,
    pub dict: Vec<u8>,
    pub window: usize,
    /// hash over everything handed out so far
    pub hasher: Xxh64,
    pub handed_out: u64,
    counter: u64,
    pub ops: u64,
    /// upper bound for the size of a single operation (smaller under Miri)
    pub max_chunk: usize,
}

impl DecBufMon {
    pub fn new(window: usize, dict: &[u8]) -> Self {
        let mut buf = DecBuf::new(window);
        buf.set_dict_content(dict);
        DecBufMon {
            buf,
            held: Vec::new(),
            dict: dict.to_vec(),
            window,
            hasher: Xxh64::new(0),
            handed_out: 0,
            counter: 0,
            ops: 0,
            max_chunk: 3000,
        }
    }

    fn took(&mut self, data: &[u8]) -> Result<(), String> {
        if data.len() > self.held.len() || data != &self.held[..data.len()] {
            return Err(format!(
                "drained bytes are not the oldest {} buffered bytes",
                data.len()
            ));
        }
        self.hasher.update(data);
        self.handed_out += data.len() as u64;
        self.held.drain(..data.len());
        Ok(())
    }

    pub fn check(&self) -> Result<(), String> {
        if self.buf.len() != self.held.len() {
            return Err(format!("len() {} but {} bytes are buffered", self.buf.len(), self.held.len()));
        }
        let (s1, s2) = self.buf.as_slices();
        if !s1.iter().chain(s2.iter()).eq(self.held.iter()) {
            return Err("buffered content differs from the model".into());
        }
        let can = self.buf.can_drain_to_window_size();
        let want = if self.held.len() > self.window {
            Some(self.held.len() - self.window)
        } else {
            None
        };
        if can != want {
            return Err(format!("can_drain_to_window_size {can:?}, expected {want:?}"));
        }
        if self.buf.hash_finish() != self.hasher.digest() {
            return Err(format!(
                "checksum state {:016x} is not XXH64 of the {} bytes handed out ({:016x})",
                self.buf.hash_finish(),
                self.handed_out,
                self.hasher.digest()
            ));
        }
        Ok(())
    }

    /// One random step. Returns a short name of what was done.
    pub fn step(&mut self, r: &mut Rng) -> Result<&'static str, String> {
        self.ops += 1;
        let what = match r.below(16) {
            0..=2 => {
                let n = match r.below(4) {
                    0 => 0,
                    1 => r.usize(0, 40),
                    _ => r.usize(0, self.max_chunk),
                };
                let data: Vec<u8> = (0..n as u64).map(|i| payload(self.counter + i)).collect();
                self.counter += n as u64;
                self.buf.push(&data);
                self.held.extend_from_slice(&data);
                "push"
            }
            3..=7 => {
                // a match: offsets within the buffer, into the dictionary, or too far
                let len = self.held.len();
                let reach = len + self.dict.len();
                let offset = match r.below(8) {
                    0 => reach + 1 + r.usize(0, 5),
                    1 if !self.dict.is_empty() => len + r.usize(1, self.dict.len()),
                    2 => *r.pick(&[1usize, 2, 3, 8, 16, 17, 32]),
                    _ => r.usize(1, len.max(1)),
                };
                let ml = match r.below(4) {
                    0 => r.usize(1, 20),
                    1 => *r.pick(&[15usize, 16, 17, 31, 32, 33, 64]),
                    _ => r.usize(1, self.max_chunk / 2),
                };
                let res = self.buf.repeat(offset, ml);
                if offset == 0 {
                    return Err("offset 0 generated".into());
                }
                if offset <= len {
                    if let Err(e) = res {
                        return Err(format!("repeat({offset},{ml}) within {len} buffered bytes failed: {e}"));
                    }
                    for i in 0..ml {
                        let b = self.held[len - offset + i];
                        self.held.push(b);
                    }
                    "repeat"
                } else if offset > reach {
                    if res.is_ok() {
                        return Err(format!("repeat({offset},{ml}) accepted although only {len} buffered + {} dictionary bytes exist", self.dict.len()));
                    }
                    "repeat_too_far"
                } else {
                    // reaches into the dictionary: legal only while the output is still within the window;
                    // the decoder may refuse it later than that (documented leniency), but if it accepts it the bytes must be right
                    match res {
                        Ok(()) => {
                            // conceptual stream = dict ++ held
                            let dl = self.dict.len();
                            for i in 0..ml {
                                let pos = dl + len - offset + i; // index into dict ++ held (grows as we push)
                                let b = if pos < dl { self.dict[pos] } else { self.held[pos - dl] };
                                self.held.push(b);
                            }
                            "repeat_dict"
                        }
                        Err(_) => {
                            if self.buf.total_output_counter() <= self.window as u64 {
                                return Err(format!("repeat({offset},{ml}) into the dictionary refused although only {} bytes were produced (window {})", self.buf.total_output_counter(), self.window));
                            }
                            "repeat_dict_refused"
                        }
                    }
                }
            }
            8 => {
                let n = r.usize(0, self.max_chunk * 2 / 3);
                let b = payload(self.counter);
                self.counter += 1;
                self.buf.extend_and_fill(b, n);
                self.held.extend(std::iter::repeat_n(b, n));
                "fill"
            }
            9 => {
                let n = r.usize(0, self.max_chunk * 2 / 3);
                let start = self.counter;
                let reader = ChunkReader { next: start, chunk: *r.pick(&[1usize, 7, 4096]), avail: n };
                if self.buf.extend_from_reader(reader, n).is_err() {
                    return Err("extend_from_reader failed".into());
                }
                self.held.extend((0..n as u64).map(|i| payload(start + i)));
                self.counter += n as u64;
                "from_reader"
            }
            10 => {
                match self.buf.drain_to_window_size() {
                    Some(v) => {
                        if self.held.len() <= self.window || v.len() != self.held.len() - self.window {
                            return Err(format!("drain_to_window_size returned {} bytes, {} held, window {}", v.len(), self.held.len(), self.window));
                        }
                        self.took(&v)?;
                    }
                    None => {
                        if self.held.len() > self.window {
                            return Err("drain_to_window_size returned None although data is collectable".into());
                        }
                    }
                }
                "drain_to_window"
            }
            11 | 12 => {
                let to_window = r.chance(2, 3);
                let mut sink = Sink::new(
                    *r.pick(&[1usize, 5, 100, usize::MAX]),
                    *r.pick(&[0usize, 0, 2, 3, 7]),
                    r.chance(1, 3),
                );
                let before = self.held.len();
                let res = if to_window {
                    self.buf.drain_to_window_size_writer(&mut sink)
                } else {
                    self.buf.drain_to_writer(&mut sink)
                };
                // whatever the sink took is gone from the buffer, nothing else, in order - also on error
                let got = std::mem::take(&mut sink.got);
                if let Ok(n) = res {
                    if n != got.len() {
                        return Err(format!("writer drain reported {n} bytes, the sink received {}", got.len()));
                    }
                }
                let limit = if to_window { before.saturating_sub(self.window) } else { before };
                if got.len() > limit {
                    return Err(format!("writer drain handed out {} bytes, only {limit} were allowed", got.len()));
                }
                self.took(&got)?;
                "drain_writer"
            }
            13 => {
                let mut target = vec![0u8; r.usize(0, self.max_chunk)];
                let n = self.buf.read(&mut target).map_err(|e| format!("read failed {e}"))?;
                let want = self.held.len().saturating_sub(self.window).min(target.len());
                if n != want {
                    return Err(format!("read returned {n}, expected {want}"));
                }
                let t = target[..n].to_vec();
                self.took(&t)?;
                "read"
            }
            14 => {
                let mut target = vec![0u8; r.usize(0, self.max_chunk)];
                let n = self.buf.read_all(&mut target).map_err(|e| format!("read_all failed {e}"))?;
                if n != self.held.len().min(target.len()) {
                    return Err(format!("read_all returned {n}"));
                }
                let t = target[..n].to_vec();
                self.took(&t)?;
                "read_all"
            }
            _ => {
                if r.chance(1, 8) {
                    let v = self.buf.drain();
                    if v.len() != self.held.len() {
                        return Err("drain() did not return everything".into());
                    }
                    self.took(&v)?;
                    "drain"
                } else if r.chance(1, 10) {
                    // a new frame
                    self.window = *r.pick(&[1usize, 16, 100, 1024, 5000]);
                    self.buf.reset(self.window);
                    if r.chance(1, 2) {
                        self.dict = (0..r.usize(0, 300) as u64).map(|i| payload(i * 3)).collect();
                    } else {
                        self.dict.clear();
                    }
                    let d = self.dict.clone();
                    self.buf.set_dict_content(&d);
                    self.held.clear();
                    self.hasher = Xxh64::new(0);
                    self.handed_out = 0;
                    "reset"
                } else {
                    "noop"
                }
            }
        };
        self.check()?;
        Ok(what)
    }
}
