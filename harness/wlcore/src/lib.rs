//! Workloads and online checkers that need nothing but ruzstd itself (no FFI, no threads), so
//! the same code runs natively, under AddressSanitizer and under Miri.

pub mod hostile;
pub mod ring;
pub mod rng;
pub mod xxh;

pub use rng::Rng;
