//! Driving hostile inputs through every decoding entry point with legal call sequences only
//! (shared by the native C03 monitor, the libFuzzer targets and the Miri binary: no FFI in here).

use ruzstd::decoding::{BlockDecodingStrategy, Dictionary, FrameDecoder, StreamingDecoder};
use std::io::{Read, Write};
use std::sync::OnceLock;

pub const OUTPUT_CAP: usize = 64 << 20;
pub const ENTRY_POINTS: [&str; 11] = [
    "StreamingDecoder::read small buffer",
    "StreamingDecoder::read large buffer",
    "decode_blocks(All)+collect",
    "decode_blocks(UptoBlocks)+read",
    "decode_blocks(UptoBytes)+collect_to_writer",
    "decode_from_to whole",
    "decode_from_to chunked",
    "decode_all",
    "decode_all_to_vec",
    "hostile dictionary",
    "Dictionary::decode_dict",
];

pub struct ShortSink {
    n: usize,
    fail_every: usize,
    calls: usize,
}
impl Write for ShortSink {
    fn write(&mut self, buf: &[u8]) -> std::io::Result<usize> {
        self.calls += 1;
        if self.fail_every != 0 && self.calls % self.fail_every == 0 {
            return Err(std::io::Error::from(std::io::ErrorKind::WouldBlock));
        }
        let k = buf.len().min(97);
        self.n += k;
        Ok(k)
    }
    fn flush(&mut self) -> std::io::Result<()> {
        Ok(())
    }
}

/// content of the embedded known-good frame
pub fn good_content() -> Vec<u8> {
    (0..20_000u32).map(|i| (i % 251) as u8 ^ (i / 300) as u8).collect()
}

/// a known-good checksummed frame (written once by the reference compressor: level 3, window log 12) and its content
pub fn good_frame() -> &'static (Vec<u8>, Vec<u8>) {
    static G: OnceLock<(Vec<u8>, Vec<u8>)> = OnceLock::new();
    G.get_or_init(|| (include_bytes!("good_frame.zst").to_vec(), good_content()))
}

/// valid frames with Huffman literals, FSE tables, repeat offsets and a checksum, decoded before some of the hostile inputs
pub fn history_text() -> Vec<u8> {
    (0..6000u32).flat_map(|i| format!("line {} of some text, {}\n", i % 97, i * i % 1000).into_bytes()).collect()
}

fn history_frames() -> &'static Vec<(Vec<u8>, Vec<u8>)> {
    static H: OnceLock<Vec<(Vec<u8>, Vec<u8>)>> = OnceLock::new();
    H.get_or_init(|| vec![good_frame().clone(), (include_bytes!("history_frame.zst").to_vec(), history_text())])
}

/// Layout of a fuzzer input: [entry point][flags][rest]. For the hostile-dictionary entry point the rest is
/// [dictionary length u16 le][dictionary][frame], otherwise the frame; `aux` is the flags byte or the dictionary.
pub fn split_fuzz_input(entry: usize, data: &[u8]) -> (&[u8], &[u8]) {
    if entry == 9 && data.len() >= 4 {
        let n = (u16::from_le_bytes([data[2], data[3]]) as usize).min(data.len() - 4);
        (&data[4..4 + n], &data[4 + n..])
    } else {
        (&data[1..2], &data[2..])
    }
}

/// inverse of `split_fuzz_input` (seed corpus)
pub fn join_fuzz_input(entry: usize, aux: &[u8], input: &[u8]) -> Vec<u8> {
    let mut v = vec![entry as u8];
    if entry == 9 {
        let n = aux.len().min(65535);
        v.push(0);
        v.extend_from_slice(&(n as u16).to_le_bytes());
        v.extend_from_slice(&aux[..n]);
    } else {
        v.push(aux.first().copied().unwrap_or(1));
    }
    v.extend_from_slice(input);
    v
}

/// Drive one input through one entry point with a legal call sequence. Returns a coarse outcome class.
/// Any panic propagates to the caller (that is the violation).
pub fn drive(entry: usize, input: &[u8], aux: &[u8], limit_8mib: bool) -> String {
    let mut d = FrameDecoder::new();
    if limit_8mib {
        d.set_max_window_size(8 << 20);
    }
    // a third of the cases run on a decoder that has decoded valid frames before (Huffman and FSE tables,
    // repeat offsets, checksum and window contents of those frames are still in it): also a legal call sequence
    if aux.first().map(|b| b % 3 == 0).unwrap_or(false) && entry != 10 {
        for (g, want) in history_frames() {
            let mut src = &g[..];
            let ok = d.reset(&mut src).is_ok() && d.decode_blocks(&mut src, BlockDecodingStrategy::All).is_ok() && d.collect().as_deref() == Some(&want[..]);
            if !ok {
                return "REUSE-FAILED in the history".to_string();
            }
        }
    }
    let mut produced = 0usize;
    let outcome: String = match entry {
        0 | 1 => match StreamingDecoder::new_with_decoder(input, &mut d) {
            Err(e) => format!("init error: {}", variant(&e)),
            Ok(mut s) => {
                let mut buf = vec![0u8; if entry == 0 { 37 } else { 200_000 }];
                loop {
                    match s.read(&mut buf) {
                        Ok(0) => break "ok".to_string(),
                        Ok(n) => {
                            produced += n;
                            if produced > OUTPUT_CAP {
                                break "abandoned at the output cap".to_string();
                            }
                        }
                        Err(_) => break "read error".to_string(),
                    }
                }
            }
        },
        2..=4 => {
            let mut src = input;
            match d.reset(&mut src) {
                Err(e) => format!("init error: {}", variant(&e)),
                Ok(()) => {
                    let mut sink = ShortSink { n: 0, fail_every: 5, calls: 0 };
                    loop {
                        let strat = match entry {
                            2 => BlockDecodingStrategy::All,
                            3 => BlockDecodingStrategy::UptoBlocks(1),
                            _ => BlockDecodingStrategy::UptoBytes(3000),
                        };
                        match d.decode_blocks(&mut src, strat) {
                            Err(e) => {
                                // legal after an error: drain and query
                                let _ = d.collect();
                                let _ = d.can_collect();
                                let _ = d.is_finished();
                                let _ = d.bytes_read_from_source();
                                break format!("decode error: {}", variant(&e));
                            }
                            Ok(_) => {}
                        }
                        match entry {
                            2 => produced += d.collect().map(|v| v.len()).unwrap_or(0),
                            3 => {
                                let mut buf = [0u8; 1000];
                                loop {
                                    let n = Read::read(&mut d, &mut buf).unwrap_or(0);
                                    produced += n;
                                    if n == 0 {
                                        break;
                                    }
                                }
                            }
                            _ => {
                                let mut guard = 0;
                                while d.can_collect() > 0 && guard < 100_000 {
                                    guard += 1;
                                    let _ = d.collect_to_writer(&mut sink);
                                }
                                produced = sink.n;
                            }
                        }
                        if d.is_finished() {
                            break "ok".to_string();
                        }
                        if produced > OUTPUT_CAP {
                            break "abandoned at the output cap".to_string();
                        }
                    }
                }
            }
        },
        5 | 6 => {
            let mut target = vec![0u8; if entry == 5 { 70_000 } else { 333 }];
            let chunk = if entry == 5 { input.len().max(1) } else { 40.max(aux.first().copied().unwrap_or(0) as usize * 8) };
            let mut pos = 0usize;
            let mut end = chunk.min(input.len()).max(18.min(input.len()));
            let mut idle = 0;
            loop {
                match d.decode_from_to(&input[pos..end], &mut target) {
                    Err(e) => break format!("decode error: {}", variant(&e)),
                    Ok((r, w)) => {
                        if r > end - pos {
                            // more consumed than given: C06's business, stop here
                            break "overread".to_string();
                        }
                        pos += r;
                        produced += w;
                        if r == 0 && w == 0 {
                            if end == input.len() {
                                idle += 1;
                                if idle > 2 {
                                    break if d.is_finished() { "ok".to_string() } else { "needs more input".to_string() };
                                }
                            } else {
                                end = (end + chunk).min(input.len());
                            }
                        }
                        if produced > OUTPUT_CAP {
                            break "abandoned at the output cap".to_string();
                        }
                    }
                }
            }
        }
        7 => {
            let mut out = vec![0u8; 300_000];
            match d.decode_all(input, &mut out) {
                Ok(_) => "ok".to_string(),
                Err(e) => format!("error: {}", variant(&e)),
            }
        }
        8 => {
            let mut out = Vec::with_capacity(300_000);
            match d.decode_all_to_vec(input, &mut out) {
                Ok(()) => "ok".to_string(),
                Err(e) => format!("error: {}", variant(&e)),
            }
        }
        9 => {
            // `aux` is a (possibly hostile) dictionary, `input` a frame that wants one
            match Dictionary::decode_dict(aux) {
                Err(_) => "dictionary rejected".to_string(),
                Ok(dict) => {
                    let id = dict.id;
                    let _ = d.add_dict(dict);
                    let mut src = input;
                    match d.reset(&mut src) {
                        Err(e) => format!("init error: {}", variant(&e)),
                        Ok(()) => {
                            let _ = d.force_dict(id);
                            match d.decode_blocks(&mut src, BlockDecodingStrategy::All) {
                                Ok(_) => {
                                    let _ = d.collect();
                                    "ok with hostile dictionary".to_string()
                                }
                                Err(e) => {
                                    let _ = d.collect();
                                    format!("decode error: {}", variant(&e))
                                }
                            }
                        }
                    }
                }
            }
        }
        _ => match Dictionary::decode_dict(input) {
            Ok(_) => "dictionary accepted".to_string(),
            Err(_) => "dictionary rejected".to_string(),
        },
    };
    // after an error (or success) the same decoder can be reset and used again
    if entry != 10 {
        let (g, want) = good_frame();
        let mut src = &g[..];
        let ok = d.reset(&mut src).is_ok() && d.decode_blocks(&mut src, BlockDecodingStrategy::All).is_ok() && d.collect().as_deref() == Some(&want[..]);
        if !ok {
            return format!("REUSE-FAILED after: {outcome}");
        }
    }
    outcome
}

pub fn variant<E: std::fmt::Debug>(e: &E) -> String {
    let s = format!("{e:?}");
    // up to two levels of variant names
    let mut parts = s.split(|c: char| !(c.is_alphanumeric() || c == '_')).filter(|p| !p.is_empty() && p.chars().next().map(|c| c.is_uppercase()).unwrap_or(false));
    let a = parts.next().unwrap_or("").to_string();
    match parts.next() {
        Some(b) => format!("{a}/{b}"),
        None => a,
    }
}

