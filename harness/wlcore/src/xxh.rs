//! XXH64 written from the algorithm description (xxHash specification), independent of the
//! `twox-hash` crate that ruzstd uses. Checked against known vectors in the monitors' self test.

const P1: u64 = 0x9E3779B185EBCA87;
const P2: u64 = 0xC2B2AE3D27D4EB4F;
const P3: u64 = 0x165667B19E3779F9;
const P4: u64 = 0x85EBCA77C2B2AE63;
const P5: u64 = 0x27D4EB2F165667C5;

#[inline]
fn round(acc: u64, input: u64) -> u64 {
    acc.wrapping_add(input.wrapping_mul(P2))
        .rotate_left(31)
        .wrapping_mul(P1)
}

#[inline]
fn merge(acc: u64, val: u64) -> u64 {
    (acc ^ round(0, val)).wrapping_mul(P1).wrapping_add(P4)
}

fn rd64(b: &[u8]) -> u64 {
    u64::from_le_bytes([b[0], b[1], b[2], b[3], b[4], b[5], b[6], b[7]])
}

fn rd32(b: &[u8]) -> u64 {
    u64::from(u32::from_le_bytes([b[0], b[1], b[2], b[3]]))
}

/// Streaming XXH64
#[derive(Clone)]
pub struct Xxh64 {
    seed: u64,
    v: [u64; 4],
    buf: [u8; 32],
    buf_len: usize,
    total: u64,
}

impl Xxh64 {
    pub fn new(seed: u64) -> Self {
        Xxh64 {
            seed,
            v: [
                seed.wrapping_add(P1).wrapping_add(P2),
                seed.wrapping_add(P2),
                seed,
                seed.wrapping_sub(P1),
            ],
            buf: [0; 32],
            buf_len: 0,
            total: 0,
        }
    }

    fn stripe(&mut self, s: &[u8]) {
        self.v[0] = round(self.v[0], rd64(&s[0..]));
        self.v[1] = round(self.v[1], rd64(&s[8..]));
        self.v[2] = round(self.v[2], rd64(&s[16..]));
        self.v[3] = round(self.v[3], rd64(&s[24..]));
    }

    pub fn update(&mut self, mut data: &[u8]) {
        self.total += data.len() as u64;
        if self.buf_len > 0 {
            let take = (32 - self.buf_len).min(data.len());
            self.buf[self.buf_len..self.buf_len + take].copy_from_slice(&data[..take]);
            self.buf_len += take;
            data = &data[take..];
            if self.buf_len == 32 {
                let b = self.buf;
                self.stripe(&b);
                self.buf_len = 0;
            }
        }
        while data.len() >= 32 {
            self.stripe(&data[..32]);
            data = &data[32..];
        }
        if !data.is_empty() {
            self.buf[..data.len()].copy_from_slice(data);
            self.buf_len = data.len();
        }
    }

    pub fn digest(&self) -> u64 {
        let mut h = if self.total >= 32 {
            let mut h = self.v[0]
                .rotate_left(1)
                .wrapping_add(self.v[1].rotate_left(7))
                .wrapping_add(self.v[2].rotate_left(12))
                .wrapping_add(self.v[3].rotate_left(18));
            for v in self.v {
                h = merge(h, v);
            }
            h
        } else {
            self.seed.wrapping_add(P5)
        };
        h = h.wrapping_add(self.total);
        let mut rest = &self.buf[..self.buf_len];
        while rest.len() >= 8 {
            h ^= round(0, rd64(rest));
            h = h.rotate_left(27).wrapping_mul(P1).wrapping_add(P4);
            rest = &rest[8..];
        }
        if rest.len() >= 4 {
            h ^= rd32(rest).wrapping_mul(P1);
            h = h.rotate_left(23).wrapping_mul(P2).wrapping_add(P3);
            rest = &rest[4..];
        }
        for b in rest {
            h ^= u64::from(*b).wrapping_mul(P5);
            h = h.rotate_left(11).wrapping_mul(P1);
        }
        h ^= h >> 33;
        h = h.wrapping_mul(P2);
        h ^= h >> 29;
        h = h.wrapping_mul(P3);
        h ^= h >> 32;
        h
    }
}

pub fn xxh64(data: &[u8], seed: u64) -> u64 {
    let mut h = Xxh64::new(seed);
    h.update(data);
    h.digest()
}

/// Known answers from the xxHash reference (empty input and the usual sanity buffer); returns an error text on mismatch
pub fn self_test() -> Result<(), String> {
    if xxh64(b"", 0) != 0xEF46DB3751D8E999 {
        return Err("xxh64(\"\", 0)".into());
    }
    if xxh64(b"a", 0) != 0xD24EC4F1A98C6E5B {
        return Err("xxh64(\"a\", 0)".into());
    }
    if xxh64(b"abc", 0) != 0x44BC2CF5AD770999 {
        return Err("xxh64(\"abc\", 0)".into());
    }
    // streaming == one shot, across the 32 byte stripe boundary
    let data: Vec<u8> = (0..1000u32).map(|i| (i * 7 + 1) as u8).collect();
    for cut in [0, 1, 31, 32, 33, 63, 64, 500, 999, 1000] {
        let mut h = Xxh64::new(0);
        h.update(&data[..cut]);
        h.update(&data[cut..]);
        if h.digest() != xxh64(&data, 0) {
            return Err(format!("streaming cut {cut}"));
        }
    }
    Ok(())
}
